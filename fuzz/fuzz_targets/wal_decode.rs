//! C25 (secondary to `check C25`): WalRecord::decode_body on arbitrary bytes; a record that
//! decodes must re-encode and decode to a record with the same encoding (byte comparison
//! avoids float equality).
#![no_main]
use libfuzzer_sys::fuzz_target;
use nervusdb_storage::wal::WalRecord;

fuzz_target!(|data: &[u8]| {
    if let Ok(r) = WalRecord::verif_decode_body(data) {
        let enc = r.verif_encode_body().expect("a decoded record must be encodable");
        let back = WalRecord::verif_decode_body(&enc).expect("decode(encode(r)) must succeed");
        let enc2 = back.verif_encode_body().expect("encodable");
        assert_eq!(enc, enc2, "decode(encode(r)) != r");
    }
});
