//! C25 (secondary to `check C25`): PropertyValue::decode on arbitrary bytes; whatever decodes
//! must survive its own round trip bit-exactly.
#![no_main]
use libfuzzer_sys::fuzz_target;
use nervusdb_api::PropertyValue as V;

fn same(a: &V, b: &V) -> bool {
    match (a, b) {
        (V::Float(x), V::Float(y)) => x.to_bits() == y.to_bits(),
        (V::List(x), V::List(y)) => x.len() == y.len() && x.iter().zip(y).all(|(p, q)| same(p, q)),
        (V::Map(x), V::Map(y)) => x.len() == y.len() && x.iter().zip(y).all(|((ka, va), (kb, vb))| ka == kb && same(va, vb)),
        (V::Float(_), _) | (_, V::Float(_)) | (V::List(_), _) | (_, V::List(_)) | (V::Map(_), _) | (_, V::Map(_)) => false,
        (a, b) => a == b,
    }
}

fuzz_target!(|data: &[u8]| {
    if let Ok(v) = V::decode(data) {
        let enc = v.encode();
        let back = V::decode(&enc).expect("decode(encode(v)) must succeed");
        assert!(same(&v, &back), "decode(encode(v)) != v");
        assert_eq!(back.encode(), enc, "re-encoding differs");
    }
});
