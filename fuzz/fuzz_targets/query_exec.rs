//! libFuzzer target for C16: bytes -> (mode, grammar choices | deep shape | raw text) ->
//! prepare + execute against a small on-disk graph. Any panic, abort (stack overflow,
//! allocation failure) or libFuzzer timeout is a finding; convert the artefact with
//! `tools/fuzz_artifact_to_replay.py` and re-run it through `check C16 --replay`.
#![no_main]

use arbitrary::Unstructured;
use libfuzzer_sys::fuzz_target;
use nervusdb::Db;
use nervusdb::query::{ExecuteOptions, Params, Value, prepare};
use std::sync::OnceLock;

#[allow(dead_code)]
#[path = "../../harness/src/props/c16_grammar.rs"]
mod gram;

fn db() -> &'static Db {
    static DB: OnceLock<Db> = OnceLock::new();
    DB.get_or_init(|| {
        let base = if std::path::Path::new("/dev/shm").is_dir() { "/dev/shm".into() } else { std::env::temp_dir() };
        let dir = base.join(format!("nvcheck-fuzz-{}", std::process::id()));
        let _ = std::fs::remove_dir_all(&dir);
        std::fs::create_dir_all(&dir).expect("scratch dir");
        let db = Db::open(dir.join("db")).expect("open");
        let seed = [
            "CREATE (a:A {p: 1, name: 'a'})-[:R {p: 1}]->(b:B {p: 2, q: [1, 2]})-[:S]->(c:C:D {name: '\u{e9}\u{1F600}'}), (a)-[:A]->(c), (c)-[:R]->(a), (:Person {age: 30})",
        ];
        for q in seed {
            let p = prepare(q).expect("seed query");
            let snap = db.snapshot();
            let mut txn = db.begin_write();
            p.execute_mixed(&snap, &mut txn, &Params::new()).expect("seed");
            txn.commit().expect("commit");
        }
        db.compact().expect("compact");
        db
    })
}

fn options() -> ExecuteOptions {
    ExecuteOptions { max_intermediate_rows: 10_000, max_collection_items: 10_000, soft_timeout_ms: 200, max_apply_rows_per_outer: 10_000 }
}

fn run(text: &str) {
    let Ok(prepared) = prepare(text) else { return };
    let db = db();
    let mut params = Params::with_execute_options(options());
    params.insert("p0", Value::Int(1));
    params.insert("p1", Value::String("\u{e9}x".into()));
    params.insert("p2", Value::List(vec![Value::Int(1), Value::Null, Value::Float(f64::NAN)]));
    {
        let snap = db.snapshot();
        for row in prepared.execute_streaming(&snap, &params).take(1_000) {
            match row {
                Ok(row) => {
                    let _ = row.reify(&snap);
                }
                Err(_) => break,
            }
        }
    }
    // statement path; the transaction is dropped, the graph stays as seeded
    let snap = db.snapshot();
    let mut txn = db.begin_write();
    let _ = prepared.execute_mixed(&snap, &mut txn, &params);
    drop(txn);
}

fuzz_target!(|data: &[u8]| {
    let mut u = Unstructured::new(data);
    let mode: u8 = u.arbitrary().unwrap_or(0);
    let text = match mode % 8 {
        0 => {
            // raw text fallback
            let rest = u.bytes(u.len()).unwrap_or(&[]);
            String::from_utf8_lossy(rest).into_owned()
        }
        1 => {
            let shape = gram::DEEP_SHAPES[u.choose_index(gram::DEEP_SHAPES.len()).unwrap_or(0)];
            let ctx = gram::DEEP_CONTEXTS[u.choose_index(gram::DEEP_CONTEXTS.len()).unwrap_or(0)];
            let depth = u.int_in_range(1..=6_000usize).unwrap_or(1);
            // the OPTIONAL MATCH chain doubles the plan per clause (open finding): keep it short
            let depth = if shape == "optional-match-chain" { depth % 10 } else { depth };
            gram::deep_text(shape, depth, ctx, "1")
        }
        _ => {
            // grammar choices; open findings excluded by construction
            let restrict = gram::Restrict { loops: true, optional_chain: true };
            let choices = u.bytes(u.len()).unwrap_or(&[]);
            gram::generate(choices, &["p0".to_string(), "p1".to_string(), "p2".to_string()], restrict).text
        }
    };
    if let Ok(path) = std::env::var("NVCHECK_FUZZ_DUMP") {
        // artefact -> replay file of `check C16 --replay` (see tools/fuzz_artifact_to_replay.sh)
        let esc: String = text.chars().flat_map(|c| match c {
            '"' => "\\\"".chars().collect::<Vec<_>>(),
            '\\' => "\\\\".chars().collect(),
            c if (c as u32) < 0x20 => format!("\\u{:04x}", c as u32).chars().collect(),
            c => vec![c],
        }).collect();
        let replay = format!(
            "{{\"property\":\"C16\",\"section\":\"queries\",\"seed\":0,\"signature\":\"libfuzzer\",\"message\":\"converted libFuzzer artefact\",\"case\":{{\"src\":{{\"Text\":{{\"origin\":\"libfuzzer\",\"text\":\"{esc}\",\"excl\":0}}}},\"params\":[[\"p0\",{{\"Int\":1}}],[\"p1\",{{\"Str\":\"\u{e9}x\"}}]],\"graph\":[]}}}}"
        );
        let _ = std::fs::write(path, replay);
        if std::env::var("NVCHECK_FUZZ_DUMP_ONLY").is_ok() {
            return;
        }
    }
    run(&text);
});
