#!/bin/sh
# usage: confirm_seeded.sh <worktree> <seeded-dir>...
# Confirms a seeded change in a scratch worktree of /repo (never in /repo itself): the demonstration passes on HEAD,
# fails with the patch, and the tests of every crate the patch touches still pass with the patch.
# Writes the outcome into <seeded-dir>/meta.json under "confirmed".
WT="$1"; shift
export CARGO_NET_OFFLINE=true CARGO_TARGET_DIR="$WT/target"
for D in "$@"; do
  D="$(cd "$D" && pwd)"; N=$(basename "$D")
  DEST=$(grep -m1 -oE 'cp <this file> [^ ]+' "$D/demo.rs" | awk '{print $4}')
  [ -n "$DEST" ] || DEST=$(grep -m1 -oE 'cp [^ ]*demo\.rs [^ ]+' "$D/demo.rs" | awk '{print $3}')
  [ -n "$DEST" ] || DEST=$(grep -m1 -oE 'cp [^ ]*demo\.rs [^ ]+' "$D/meta.json" | awk '{print $3}')
  [ -n "$DEST" ] || { echo "$N: cannot find where the demo goes"; continue; }
  CRATE=$(echo "$DEST" | cut -d/ -f1); T=$(basename "$DEST" .rs)
  cd "$WT" && git checkout -q -- . && git clean -fdq -e target
  cp "$D/demo.rs" "$WT/$DEST"
  cargo test --offline -q -p "$CRATE" --test "$T" >"$WT/head.log" 2>&1; HEAD_RC=$?
  git apply "$D/patch.diff" || { echo "$N: patch does not apply"; continue; }
  cargo test --offline -q -p "$CRATE" --test "$T" >"$WT/patch.log" 2>&1; PATCH_RC=$?
  rm -f "$WT/$DEST"
  SUITE=ok
  for C in $(grep '^+++ b/' "$D/patch.diff" | cut -d/ -f2 | sort -u); do
    EXTRA=""; [ "$C" = nervusdb ] && EXTRA="--lib --bins"
    cargo test --offline -q -p "$C" $EXTRA >"$WT/suite-$C.log" 2>&1 || SUITE="FAILED:$C"
  done
  git checkout -q -- . && git clean -fdq -e target
  echo "$N: demo on HEAD rc=$HEAD_RC, with patch rc=$PATCH_RC, crate tests with patch: $SUITE"
  python3 - "$D/meta.json" "$HEAD_RC" "$PATCH_RC" "$SUITE" <<'EOF'
import json,sys
p,h,pr,s=sys.argv[1:5]
d=json.load(open(p))
d["confirmed"]={"demo_on_head":"passes" if h=="0" else f"FAILS rc={h}","demo_with_patch":"fails" if pr!="0" else "PASSES","crate_tests_with_patch":s,"by":"tools/confirm_seeded.sh in a scratch worktree"}
json.dump(d,open(p,"w"),indent=1)
EOF
done
