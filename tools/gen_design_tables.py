#!/usr/bin/env python3
"""Rewrites the generated sections of DESIGN.md (between <!-- GEN:x --> markers) from known_findings.json,
seeded/*/meta.json and tools/checks.json."""
import json, os, glob, subprocess, re
root = os.path.dirname(os.path.dirname(os.path.abspath(__file__)))
kf = json.load(open(os.path.join(root, 'known_findings.json')))
log = subprocess.check_output(['git', '-C', '/repo', 'log', '--format=%h %s', '--reverse']).decode().splitlines()
fixes = [l for l in log if l.split(' ', 1)[1].startswith('fix:')]
hooks = [l for l in log if 'verif hooks' in l]
out = []
out.append("### Repairs committed to /repo (`fix:` commits, in order)\n")
for l in fixes:
    h, s = l.split(' ', 1)
    out.append(f"* `{h}` {s[5:]}")
out.append("\n### Hook commits (cfg-guarded, additive)\n")
for l in hooks:
    out.append(f"* `{l.split(' ',1)[0]}` {l.split(' ',1)[1]}")
out.append("\n### Known findings file (`known_findings.json`)\n")
out.append("| property | status | signature | what |\n|---|---|---|---|")
for k in sorted(kf, key=lambda k: (k['property'], k['status'])):
    out.append(f"| {k['property']} | {k['status']} | `{k['signature'][:70]}` | {k['what'][:220]} |")
findings = "\n".join(out)
seeded = ["| seeded change | breaks | needs | caught by | first failure |\n|---|---|---|---|---|"]
for m in sorted(glob.glob(os.path.join(root, 'seeded', '*', 'meta.json'))):
    d = json.load(open(m))
    name = os.path.basename(os.path.dirname(m))
    res = dict(d.get('detection', {}))
    for k, v in d.get('detection_after_strengthening', {}).items():
        res[k] = {'result': res.get(k, {}).get('result', '?') + ' -> ' + v.get('result', ''), 'detail': v.get('detail', '')}
    caught = ", ".join(f"{k}: {v.get('result','?')}" for k, v in res.items()) or "not run"
    first = "; ".join(v.get('detail', '')[:120] for v in res.values() if v.get('detail'))
    seeded.append(f"| {name} | {d.get('property')} | {str(d.get('needs',''))[:160]} | {caught} | {first} |")
seeded = "\n".join(seeded)
p = os.path.join(root, 'DESIGN.md')
s = open(p).read()
def put(tag, body):
    global s
    a, b = f"<!-- GEN:{tag} -->", f"<!-- /GEN:{tag} -->"
    if a not in s:
        s += f"\n{a}\n{b}\n"
    s = re.sub(re.escape(a) + r".*?" + re.escape(b), lambda m: a + "\n" + body + "\n" + b, s, flags=re.S)
put('findings', findings)
put('seeded', seeded)
open(p, 'w').write(s)
print("ok")
