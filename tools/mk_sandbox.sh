#!/bin/sh
# usage: mk_sandbox.sh <name>  -- creates /work/<name>/{repo,verif}: a git worktree of /repo HEAD and a copy of /verif wired to it
set -e
N="$1"; W=/work/$N
mkdir -p /work
rm -rf "$W/verif"
[ -d "$W/repo" ] && git -C /repo worktree remove --force "$W/repo" || true
mkdir -p "$W"
git -C /repo worktree add --detach "$W/repo" HEAD >/dev/null
rsync -a --exclude target --exclude .git --exclude evidence --exclude replays /verif/ "$W/verif/"
mkdir -p "$W/verif/evidence" "$W/verif/replays"
sed -i "s#/repo/#$W/repo/#g" "$W/verif/harness/Cargo.toml" "$W/verif/.cargo/config.toml"
echo "sandbox $W ready: build with (cd $W/verif/harness && cargo build --release); run with NVCHECK_ROOT=$W/verif $W/verif/harness/target/release/check <ID>"
