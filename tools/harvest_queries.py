#!/usr/bin/env python3
"""Harvest Cypher query texts from the repo's tests, docs, examples and fuzz regressions.

usage: harvest_queries.py <repo> <out.jsonl>
Writes one JSON string per line (deduplicated, sorted) -- the seed corpus of C16's
mutation generator (`harness/src/props/c16_corpus.jsonl`, embedded with include_str!).
"""
import json
import os
import re
import sys

KW = re.compile(
    r"^\s*(EXPLAIN\s+)?(MATCH|OPTIONAL\s+MATCH|CREATE|MERGE|RETURN|WITH|UNWIND|CALL|FOREACH|DETACH|DELETE|SET|REMOVE)\b",
    re.I,
)

STR = re.compile(r'r(#+)"(.*?)"\1|r"([^"]*)"|"((?:[^"\\]|\\.)*)"', re.S)


def unescape(s: str) -> str:
    out = []
    i = 0
    while i < len(s):
        c = s[i]
        if c == "\\" and i + 1 < len(s):
            n = s[i + 1]
            if n == "n":
                out.append("\n")
            elif n == "t":
                out.append("\t")
            elif n == "r":
                out.append("\r")
            elif n == "0":
                out.append("\0")
            elif n in "\"'\\":
                out.append(n)
            elif n == "\n":
                # line continuation: skip following whitespace
                i += 2
                while i < len(s) and s[i] in " \t\n\r":
                    i += 1
                continue
            elif n == "u" and i + 2 < len(s) and s[i + 2] == "{":
                j = s.find("}", i)
                try:
                    out.append(chr(int(s[i + 3 : j], 16)))
                except Exception:
                    pass
                i = j + 1
                continue
            else:
                out.append(c + n)
            i += 2
            continue
        out.append(c)
        i += 1
    return "".join(out)


def from_rust(text):
    for m in STR.finditer(text):
        if m.group(2) is not None:
            yield m.group(2)
        elif m.group(3) is not None:
            yield m.group(3)
        elif m.group(4) is not None:
            yield unescape(m.group(4))


def from_markdown(text):
    for block in re.findall(r"```(?:cypher|sql|text)?\n(.*?)```", text, re.S):
        for part in re.split(r";\s*\n|\n\s*\n", block):
            yield part.strip()
    for inline in re.findall(r"`([^`\n]{8,200})`", text):
        yield inline


def from_feature(text):
    for block in re.findall(r'"""\n(.*?)"""', text, re.S):
        yield block.strip()


def main():
    repo, out = sys.argv[1], sys.argv[2]
    found = set()
    for root, dirs, files in os.walk(repo):
        dirs[:] = [d for d in dirs if d not in ("target", ".git", "node_modules")]
        for f in files:
            p = os.path.join(root, f)
            try:
                if f.endswith(".rs"):
                    src = from_rust(open(p, encoding="utf-8", errors="replace").read())
                elif f.endswith(".md"):
                    src = from_markdown(open(p, encoding="utf-8", errors="replace").read())
                elif f.endswith(".feature"):
                    src = from_feature(open(p, encoding="utf-8", errors="replace").read())
                elif f.endswith(".cypher") or "/fuzz/regressions/" in p or "/fuzz/corpus/" in p:
                    src = [open(p, encoding="utf-8", errors="replace").read()]
                elif f.endswith((".py", ".js", ".ts", ".c", ".h")):
                    src = from_rust(open(p, encoding="utf-8", errors="replace").read())
                else:
                    continue
            except OSError:
                continue
            for q in src:
                q = q.strip()
                if 6 <= len(q) <= 1500 and KW.match(q) and "{}" not in q and "{:" not in q:
                    found.add(q)
    with open(out, "w", encoding="utf-8") as fh:
        for q in sorted(found):
            fh.write(json.dumps(q, ensure_ascii=False) + "\n")
    print(f"{len(found)} queries -> {out}")


if __name__ == "__main__":
    main()
