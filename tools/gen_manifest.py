#!/usr/bin/env python3
"""Regenerates /verif/MANIFEST.json from tools/checks.json (claimed checks) and properties.jsonl."""
import json, os
root = os.path.dirname(os.path.dirname(os.path.abspath(__file__)))
props = [json.loads(l) for l in open(os.path.join(root, 'properties.jsonl'))]
claimed = json.load(open(os.path.join(root, 'tools', 'checks.json')))
hooks_commits = json.load(open(os.path.join(root, 'tools', 'hook_commits.json')))
checks = []
na = []
for p in props:
    pid = p['id']
    c = claimed.get(pid)
    if c is None or c.get('not_applicable'):
        na.append({"property_id": pid, "reason": (c or {}).get('not_applicable', 'check not built yet (work in progress; see DESIGN.md section 5 for the intended generator and oracle)')})
        continue
    checks.append({
        "property_id": pid,
        "quick_cmd": f"/verif/run.sh {pid} quick",
        "thorough_cmd": f"/verif/run.sh {pid} thorough",
        "evidence_file": f"/verif/evidence/{pid}.json",
        "replay_cmd_template": f"/verif/harness/target/release/check {pid} --replay {{path}}",
        "engine": "nvcheck",
        "level_claimed": {"category": c['level'], "text": c['text'], "design_ref": f"DESIGN.md section 5 ({pid})"},
        "level_note": c['note'],
        "technique": c['technique'],
    })
m = {
    "version": 1,
    "setup_cmd": "cd /verif/harness && CARGO_NET_OFFLINE=true cargo build --release && CARGO_NET_OFFLINE=true cargo build",
    "hooks": {
        "guard": "--cfg luqing_studio_nervusdb_verif",
        "enable": "rustflags in /verif/.cargo/config.toml ([build] rustflags = [\"--cfg\", \"luqing_studio_nervusdb_verif\"]); the harness crate depends on the /repo crates by path, so every build uses /repo's working tree",
        "baseline_off_cmd": "cd /repo && cargo test --workspace --no-fail-fast --offline",
        "source_commits": hooks_commits,
        "add_only": True,
    },
    "engines": [{"name": "nvcheck", "path": "/verif/harness", "serves_properties": [c['property_id'] for c in checks],
                 "kind_free_text": "one Rust binary: proptest TestRunner over 16 seeded shards, shrinking, replay files, known-findings protocol, evidence writer; reference graph model, reference Cypher evaluator, I/O trace / crash-image builder, schedule drivers"}],
    "checks": checks,
    "not_applicable": na,
    "notes": "Technique family: property-based testing / fuzzing. VERIF_SEED seeds every generator; exit 0 = held, 1 = VIOLATION line, 2 = build failure or watchdog (inconclusive). Known findings: /verif/known_findings.json.",
}
json.dump(m, open(os.path.join(root, 'MANIFEST.json'), 'w'), indent=1)
print(f"{len(checks)} checks, {len(na)} not_applicable")
