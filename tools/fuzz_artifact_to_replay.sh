#!/bin/sh
# usage: fuzz_artifact_to_replay.sh <artifact-file> [out.json]
# Decodes a libFuzzer artefact of the query_exec target into a replay file for
# `check C16 --replay <out.json>` (the query text is what matters; the replay uses the
# harness's own graph builder and parameters p0/p1).
A="$1"; OUT="${2:-/verif/replays/C16/queries-libfuzzer-$(basename "$A").json}"
BIN="${FUZZ_BIN:-/verif/fuzz/target/x86_64-unknown-linux-gnu/release/query_exec}"
mkdir -p "$(dirname "$OUT")"
NVCHECK_FUZZ_DUMP="$OUT" NVCHECK_FUZZ_DUMP_ONLY=1 "$BIN" "$A" >/dev/null 2>&1
test -s "$OUT" && echo "$OUT"
