#!/bin/sh
# usage: try_seeded.sh <seeded-dir> [ID ...]   -- applies <seeded-dir>/patch.diff to /repo, runs the quick tier of the given
# checks (default: the property named in meta.json) with a scratch NVCHECK_ROOT, reverts /repo, prints DETECTED / MISSED per check.
D="$(cd "$1" && pwd)"; shift
[ -f "$D/patch.diff" ] || { echo "no patch in $D"; exit 2; }
IDS="$*"
[ -n "$IDS" ] || IDS=$(python3 -c "import json,sys; print(json.load(open('$D/meta.json'))['property'])")
git -C /repo diff --quiet || { echo "/repo has uncommitted changes"; exit 2; }
git -C /repo apply "$D/patch.diff" 2>/dev/null || git -C /repo apply --3way "$D/patch.diff" || { echo "patch does not apply"; exit 2; }
SCR=/dev/shm/seeded-$$; mkdir -p $SCR/evidence $SCR/replays; cp /verif/known_findings.json $SCR/
cd /verif/harness
if cargo build --release -q 2>$SCR/build.log; then
  case " $IDS " in *" C16 "*) cargo build -q 2>>$SCR/build.log;; esac
  for ID in $IDS; do
    NVCHECK_ROOT=$SCR timeout 1500 ./target/release/check $ID --tier quick > $SCR/$ID.out 2>&1; RC=$?
    if [ $RC -eq 1 ]; then echo "DETECTED $ID: $(grep -m1 -A1 '^VIOLATION' $SCR/$ID.out | tail -1 | cut -c1-300)"; else echo "MISSED $ID (exit $RC): $(grep SUMMARY $SCR/$ID.out | cut -c1-200)"; fi
  done
else
  echo "BUILD FAILED with patch"; tail -5 $SCR/build.log
fi
git -C /repo checkout -- . ; git -C /repo clean -fdq -- . 2>/dev/null
cargo build --release -q 2>/dev/null
case " $IDS " in *" C16 "*) cargo build -q 2>/dev/null;; esac
rm -rf $SCR
