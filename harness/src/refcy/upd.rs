//! Reference semantics of update statements (CREATE, MERGE, SET, REMOVE, DELETE) over the
//! model. Reading clauses of a statement are evaluated first (they see the pre-statement
//! graph), then the update clauses run clause by clause, row by row; MERGE sees what earlier
//! rows of the same clause created.
use super::ast::*;
use super::eval::{Ctx, EvalErr, R, RV, Reading, RelId, Row, pattern_vars, to_pv};
use crate::model::{EKey, Iid, Model};
use std::collections::{BTreeMap, BTreeSet};

#[derive(Debug, Clone, Default)]
pub struct Stats {
    pub nodes_created: u32,
    pub rels_created: u32,
    pub nodes_deleted: u32,
    pub rel_keys_deleted: u32,
    pub created_nodes: Vec<Iid>,
    pub created_keys: Vec<EKey>,
    /// deleted relationship keys that carried properties when they were deleted
    pub deleted_keys_with_props: Vec<EKey>,
    pub deleted_keys: Vec<EKey>,
    /// MERGE found a match for at least one row / created for at least one row
    pub merge_matched: bool,
    pub merge_created: bool,
    pub rows_in_updates: usize,
    /// largest number of rows any update clause of the statement processed
    pub max_rows: usize,
    /// last value written per (entity, key) in this statement (None = removed)
    pub wlog: BTreeMap<(String, String), Option<crate::pv::PV>>,
    /// the result depends on the order in which rows or items are applied, or on the
    /// statement seeing its own earlier writes (two different values for one property,
    /// `x = map` on something written earlier in the statement)
    pub order_dependent: bool,
    /// `x = map` has to remove a property that only this statement's earlier writes created
    pub needs_own_writes: bool,
    /// keys that got a further parallel instance in this statement
    pub new_parallel_instances: BTreeSet<EKey>,
    /// SET = map removed a key that the same statement had written earlier
    pub replaced_own_writes: bool,
    /// index of the row an update clause is working on
    pub cur_row: usize,
    /// entity -> rows (of the SET / REMOVE clauses so far) that wrote to it
    pub row_writers: BTreeMap<String, BTreeSet<usize>>,
    /// a SET expression reads an entity that a *different* row of an earlier clause of the
    /// statement wrote to (clause-by-clause semantics shows it the new values)
    pub cross_row_reads: bool,
}

fn ent(target: &RV) -> String {
    match target {
        RV::Node(n) => format!("n{n}"),
        RV::Rel(r) => format!("r{}-{}-{}", r.src, r.ty, r.dst),
        _ => String::new(),
    }
}

impl Stats {
    fn note_write(&mut self, e: &str, key: &str, v: Option<crate::pv::PV>) {
        if let Some(prev) = self.wlog.get(&(e.to_string(), key.to_string())) {
            let same = match (prev, &v) {
                (Some(a), Some(b)) => a.same(b),
                (None, None) => true,
                _ => false,
            };
            if !same {
                self.order_dependent = true;
            }
        }
        self.wlog.insert((e.to_string(), key.to_string()), v);
    }
}

fn rt<T>(s: impl Into<String>) -> R<T> {
    Err(EvalErr::Runtime(s.into()))
}
fn unsup<T>(s: impl Into<String>) -> R<T> {
    Err(EvalErr::Unsupported(s.into()))
}

fn eval_props(m: &Model, params: &BTreeMap<String, RV>, row: &Row, props: &[(String, Expr)], null_is_error: bool) -> R<Vec<(String, crate::pv::PV)>> {
    let ctx = Ctx::new(m, params, Reading::default());
    let mut out = Vec::new();
    for (k, e) in props {
        let v = ctx.eval(e, row)?;
        if matches!(v, RV::Null) {
            if null_is_error {
                return rt("null property value in MERGE");
            }
            continue;
        }
        match to_pv(&v) {
            Some(p) => out.push((k.clone(), p)),
            None => return rt("property value of a non-storable type"),
        }
    }
    Ok(out)
}

fn create_node(m: &mut Model, st: &mut Stats, pat: &NodePat, props: Vec<(String, crate::pv::PV)>) -> Iid {
    let id = m.create_node(&pat.labels);
    let n = m.nodes.get_mut(&id).unwrap();
    for (k, v) in props {
        st.wlog.insert((format!("n{id}"), k.clone()), Some(v.clone()));
        n.props.insert(k, v);
    }
    st.nodes_created += 1;
    st.created_nodes.push(id);
    id
}

fn create_rel(m: &mut Model, st: &mut Stats, s: Iid, ty: &str, d: Iid, props: Vec<(String, crate::pv::PV)>) -> R<RelId> {
    let key = (s, ty.to_string(), d);
    if !props.is_empty() && m.edges.get(&key).copied().unwrap_or(0) > 0 {
        // the new parallel instance overwrites the key's shared property map; whether other rows
        // of the same statement read the old or the new values is order dependent
        return unsup("CREATE with properties of a further parallel instance of an existing relationship key");
    }
    let c = m.edges.entry(key.clone()).or_insert(0);
    let inst = *c;
    *c += 1;
    if inst > 0 {
        // (also when the statement created the first instance itself: `CREATE (a)-[:S {m: 0}]->(a)-[r:S]->(a)
        // SET r = {}` -- whether `r` shows the shared map inside the statement is the same question)
        st.new_parallel_instances.insert(key.clone());
    }
    if !props.is_empty() {
        // parallel instances share one property map: the new instance's values are written into it
        let pm = m.edge_props.entry(key.clone()).or_default();
        let e = format!("r{}-{}-{}", s, ty, d);
        for (k, v) in props {
            st.note_write(&e, &k, Some(v.clone()));
            pm.insert(k, v);
        }
    }
    st.rels_created += 1;
    st.created_keys.push(key);
    Ok(RelId { src: s, ty: ty.to_string(), dst: d, inst })
}

fn bound_node(row: &Row, var: &Option<String>) -> R<Option<Iid>> {
    match var.as_ref().and_then(|v| row.get(v)) {
        None => Ok(None),
        Some(RV::Node(n)) => Ok(Some(*n)),
        Some(RV::Null) => rt("null node variable in CREATE/MERGE"),
        Some(o) => unsup(format!("pattern variable bound to {o:?}")),
    }
}

/// Creates everything of `pat` that is not bound in `row`; returns the extended row.
fn create_path(m: &mut Model, st: &mut Stats, params: &BTreeMap<String, RV>, row: &Row, pat: &PathPat, merge: bool) -> R<Row> {
    let mut r = row.clone();
    let mut cur = match bound_node(&r, &pat.start.var)? {
        Some(n) => {
            if !m.nodes.contains_key(&n) {
                return unsup("CREATE from a deleted node");
            }
            n
        }
        None => {
            let props = eval_props(m, params, &r, &pat.start.props, merge)?;
            let id = create_node(m, st, &pat.start, props);
            if let Some(v) = &pat.start.var {
                r.insert(v.clone(), RV::Node(id));
            }
            id
        }
    };
    for (rp, np) in &pat.steps {
        if rp.types.len() != 1 || rp.range.is_some() {
            return unsup("CREATE/MERGE relationship needs exactly one type and no range");
        }
        let next = match bound_node(&r, &np.var)? {
            Some(n) => n,
            None => {
                let props = eval_props(m, params, &r, &np.props, merge)?;
                let id = create_node(m, st, np, props);
                if let Some(v) = &np.var {
                    r.insert(v.clone(), RV::Node(id));
                }
                id
            }
        };
        let (s, d) = match rp.dir {
            Dir::Out => (cur, next),
            Dir::In => (next, cur),
            Dir::Both => {
                if merge {
                    (cur, next)
                } else {
                    return unsup("undirected CREATE");
                }
            }
        };
        let props = eval_props(m, params, &r, &rp.props, merge)?;
        let rel = create_rel(m, st, s, &rp.types[0], d, props)?;
        if let Some(v) = &rp.var {
            r.insert(v.clone(), RV::Rel(rel));
        }
        cur = next;
    }
    Ok(r)
}

fn set_prop(m: &mut Model, st: &mut Stats, target: &RV, key: &str, v: &RV) -> R<()> {
    let pv = match v {
        RV::Null => None,
        o => match to_pv(o) {
            Some(p) => Some(p),
            None => return rt("property value of a non-storable type"),
        },
    };
    if !matches!(target, RV::Null) {
        st.note_write(&ent(target), key, pv.clone());
        let row = st.cur_row;
        st.row_writers.entry(ent(target)).or_default().insert(row);
    }
    match target {
        RV::Null => Ok(()),
        RV::Node(n) => {
            let Some(node) = m.nodes.get_mut(n) else { return unsup("SET on a deleted node") };
            match pv {
                Some(p) => {
                    node.props.insert(key.to_string(), p);
                }
                None => {
                    node.props.remove(key);
                }
            }
            Ok(())
        }
        RV::Rel(r) => {
            let k = (r.src, r.ty.clone(), r.dst);
            if !m.edges.contains_key(&k) {
                return unsup("SET on a deleted relationship");
            }
            if st.new_parallel_instances.contains(&k) {
                // whether the new instance shows the shared properties of the existing ones
                // inside the creating statement is statement-internal visibility
                return unsup("SET on a new parallel instance of an existing relationship key");
            }
            match pv {
                Some(p) => {
                    m.edge_props.entry(k).or_default().insert(key.to_string(), p);
                }
                None => {
                    if let Some(pm) = m.edge_props.get_mut(&k) {
                        pm.remove(key);
                        if pm.is_empty() {
                            m.edge_props.remove(&k);
                        }
                    }
                }
            }
            Ok(())
        }
        o => unsup(format!("SET on {o:?}")),
    }
}

fn current_keys(m: &Model, target: &RV) -> Vec<String> {
    match target {
        RV::Node(n) => m.nodes.get(n).map(|x| x.props.keys().cloned().collect()).unwrap_or_default(),
        RV::Rel(r) => m.edge_props.get(&(r.src, r.ty.clone(), r.dst)).map(|x| x.keys().cloned().collect()).unwrap_or_default(),
        _ => vec![],
    }
}

/// `start`: the model as it was when the clause began. An item whose value differs between
/// that state and the current one reads what an earlier item or row of the same clause
/// wrote; whether it sees that is not decided here (the statement is reported as Nondet).
fn apply_set(m: &mut Model, st: &mut Stats, params: &BTreeMap<String, RV>, row: &Row, items: &[SetItem], start: Option<&Model>) -> R<()> {
    let same_at_start = |m: &Model, value: &Expr, v: &RV| -> R<()> {
        if let Some(s0) = start {
            let v0 = Ctx::new(s0, params, Reading::default()).eval(value, row);
            if !matches!(&v0, Ok(x) if x == v) {
                return Err(EvalErr::Nondet("SET item reads what the same clause wrote".into()));
            }
        }
        let _ = m;
        Ok(())
    };
    let note_reads = |st: &mut Stats, value: &Expr| {
        let mut vars: Vec<String> = Vec::new();
        value.walk(&mut |e| {
            if let Expr::Var(v) = e {
                vars.push(v.clone());
            }
        });
        for v in vars {
            if let Some(rv @ (RV::Node(_) | RV::Rel(_))) = row.get(&v) {
                if st.row_writers.get(&ent(rv)).is_some_and(|ws| ws.iter().any(|w| *w != st.cur_row)) {
                    st.cross_row_reads = true;
                }
            }
        }
    };
    for it in items {
        match it {
            SetItem::Prop { target, key, value } => {
                if start.is_some() {
                    note_reads(st, value);
                }
                let v = Ctx::new(m, params, Reading::default()).eval(value, row)?;
                same_at_start(m, value, &v)?;
                let t = row.get(target).cloned().unwrap_or(RV::Null);
                set_prop(m, st, &t, key, &v)?;
            }
            SetItem::Replace { target, value } | SetItem::Merge { target, value } => {
                if start.is_some() {
                    note_reads(st, value);
                }
                let v = Ctx::new(m, params, Reading::default()).eval(value, row)?;
                same_at_start(m, value, &v)?;
                let t = row.get(target).cloned().unwrap_or(RV::Null);
                if matches!(t, RV::Null) {
                    continue;
                }
                let RV::Map(map) = v else { return unsup("SET = / += with a non-map value") };
                if matches!(it, SetItem::Replace { .. }) {
                    // keys that exist only because this statement wrote them would have to
                    // be removed: that needs the statement to see its own writes (C24)
                    let e = ent(&t);
                    if st.wlog.iter().any(|((x, k), v)| *x == e && v.is_some() && !map.contains_key(k)) {
                        // (the sequential reference removes these keys as well; whether the
                        // engine does is what C12 asks about map replacement)
                        st.replaced_own_writes = true;
                    }
                    for k in current_keys(m, &t) {
                        if !map.contains_key(&k) {
                            set_prop(m, st, &t, &k, &RV::Null)?;
                        }
                    }
                }
                for (k, x) in &map {
                    set_prop(m, st, &t, k, x)?;
                }
            }
            SetItem::Labels { target, labels } => match row.get(target) {
                None | Some(RV::Null) => {}
                Some(RV::Node(n)) => {
                    let Some(node) = m.nodes.get_mut(n) else { return unsup("SET label on a deleted node") };
                    for l in labels {
                        node.labels.insert(l.clone());
                    }
                    let row_i = st.cur_row;
                    st.row_writers.entry(ent(&RV::Node(*n))).or_default().insert(row_i);
                }
                Some(o) => return unsup(format!("SET label on {o:?}")),
            },
        }
    }
    Ok(())
}

/// Applies one statement to the model. `Err(Runtime)`: the statement must fail.
pub fn apply_statement(model: &mut Model, clauses: &[Clause], params: &BTreeMap<String, RV>) -> R<Stats> {
    let mut st = Stats::default();
    let mut m = model.clone();
    let mut rows: Vec<Row> = vec![Row::new()];
    let mut seen_update = false;
    for c in clauses {
        match c {
            Clause::Match { .. } | Clause::Unwind { .. } | Clause::With { .. } => {
                if seen_update {
                    return unsup("reading clause after an update clause");
                }
                let ctx = Ctx::new(&m, params, Reading::default());
                let next = ctx.run_reading_clause(rows.clone(), c)?;
                let touched = ctx.touched.get() & super::eval::T_CHOICES;
                if touched != 0 {
                    // the defensible readings must agree on the rows that drive the updates
                    let canon = |rs: &[Row]| {
                        let mut v: Vec<String> = rs.iter().map(|r| format!("{r:?}")).collect();
                        v.sort();
                        v
                    };
                    let base = canon(&next);
                    for b in 1u16..256 {
                        let b = b as u8;
                        if b & !touched != 0 {
                            continue;
                        }
                        let alt = Ctx::new(&m, params, Reading::from_bits(b));
                        let rows_alt = alt.run_reading_clause(rows.clone(), c)?;
                        if canon(&rows_alt) != base {
                            return unsup("statement prefix differs between defensible readings");
                        }
                    }
                }
                rows = next;
            }
            Clause::Return { .. } => return unsup("RETURN in an update statement"),
            Clause::Create { pats } => {
                seen_update = true;
                st.rows_in_updates += rows.len();
                st.max_rows = st.max_rows.max(rows.len());
                if rows.len() > 300 {
                    return Err(EvalErr::Budget);
                }
                let mut next = Vec::new();
                for (ri, r) in rows.iter().enumerate() {
                    st.cur_row = ri;
                    let mut r2 = r.clone();
                    for p in pats {
                        r2 = create_path(&mut m, &mut st, params, &r2, p, false)?;
                    }
                    next.push(r2);
                }
                rows = next;
            }
            Clause::Merge { pat, on_create, on_match } => {
                seen_update = true;
                st.rows_in_updates += rows.len();
                st.max_rows = st.max_rows.max(rows.len());
                if rows.len() > 300 {
                    return Err(EvalErr::Budget);
                }
                let mut next = Vec::new();
                let rows_before = rows.len();
                for (ri, r) in rows.iter().enumerate() {
                    st.cur_row = ri;
                    // null property values and null bound nodes are errors
                    let _ = bound_node(r, &pat.start.var)?;
                    eval_props(&m, params, r, &pat.start.props, true)?;
                    for (rp, np) in &pat.steps {
                        let _ = bound_node(r, &np.var)?;
                        eval_props(&m, params, r, &rp.props, true)?;
                        eval_props(&m, params, r, &np.props, true)?;
                    }
                    let snapshot = m.clone();
                    let ctx = Ctx::new(&snapshot, params, Reading::default());
                    ctx.budget.set(3_000);
                    let found = ctx.match_patterns(r, std::slice::from_ref(pat), None, None)?;
                    if found.is_empty() {
                        st.merge_created = true;
                        let r2 = create_path(&mut m, &mut st, params, r, pat, true)?;
                        apply_set(&mut m, &mut st, params, &r2, on_create, None)?;
                        next.push(r2);
                    } else {
                        st.merge_matched = true;
                        for f in found {
                            apply_set(&mut m, &mut st, params, &f, on_match, None)?;
                            next.push(f);
                        }
                    }
                }
                if next.len() != rows_before {
                    // row indices change: earlier writes count as written by some other row
                    for ws in st.row_writers.values_mut() {
                        *ws = BTreeSet::from([usize::MAX]);
                    }
                }
                rows = next;
            }
            Clause::Set { items } => {
                seen_update = true;
                st.rows_in_updates += rows.len();
                st.max_rows = st.max_rows.max(rows.len());
                if rows.len() > 300 {
                    return Err(EvalErr::Budget);
                }
                let start = m.clone();
                for (ri, r) in rows.iter().enumerate() {
                    st.cur_row = ri;
                    apply_set(&mut m, &mut st, params, r, items, Some(&start))?;
                }
            }
            Clause::Remove { items } => {
                seen_update = true;
                st.rows_in_updates += rows.len();
                st.max_rows = st.max_rows.max(rows.len());
                if rows.len() > 300 {
                    return Err(EvalErr::Budget);
                }
                for (ri, r) in rows.iter().enumerate() {
                    st.cur_row = ri;
                    for it in items {
                        match it {
                            RemoveItem::Prop { target, key } => {
                                let t = r.get(target).cloned().unwrap_or(RV::Null);
                                set_prop(&mut m, &mut st, &t, key, &RV::Null)?;
                            }
                            RemoveItem::Labels { target, labels } => match r.get(target) {
                                None | Some(RV::Null) => {}
                                Some(RV::Node(n)) => {
                                    let Some(node) = m.nodes.get_mut(n) else { return unsup("REMOVE label on a deleted node") };
                                    for l in labels {
                                        node.labels.remove(l);
                                    }
                                    let row_i = st.cur_row;
                                    st.row_writers.entry(ent(&RV::Node(*n))).or_default().insert(row_i);
                                }
                                Some(o) => return unsup(format!("REMOVE label on {o:?}")),
                            },
                        }
                    }
                }
            }
            Clause::Delete { detach, exprs } => {
                seen_update = true;
                st.rows_in_updates += rows.len();
                st.max_rows = st.max_rows.max(rows.len());
                if rows.len() > 300 {
                    return Err(EvalErr::Budget);
                }
                let mut nodes: BTreeSet<Iid> = BTreeSet::new();
                let mut keys: BTreeSet<EKey> = BTreeSet::new();
                {
                    let ctx = Ctx::new(&m, params, Reading::default());
                    for r in &rows {
                        for e in exprs {
                            match ctx.eval(e, r)? {
                                RV::Null => {}
                                RV::Node(n) => {
                                    nodes.insert(n);
                                }
                                RV::Rel(k) => {
                                    keys.insert((k.src, k.ty, k.dst));
                                }
                                RV::List(l) => {
                                    for x in l {
                                        match x {
                                            RV::Rel(k) => {
                                                keys.insert((k.src, k.ty, k.dst));
                                            }
                                            RV::Node(n) => {
                                                nodes.insert(n);
                                            }
                                            RV::Null => {}
                                            o => return unsup(format!("DELETE of {o:?}")),
                                        }
                                    }
                                }
                                o => return unsup(format!("DELETE of {o:?}")),
                            }
                        }
                    }
                }
                if *detach {
                    for n in &nodes {
                        keys.extend(m.incident_keys(*n));
                    }
                } else {
                    for n in &nodes {
                        if m.incident_keys(*n).iter().any(|k| !keys.contains(k)) {
                            return rt("cannot delete a node that still has relationships");
                        }
                    }
                }
                for k in &keys {
                    if m.edges.contains_key(k) {
                        if m.edge_props.get(k).is_some_and(|p| !p.is_empty()) {
                            st.deleted_keys_with_props.push(k.clone());
                        }
                        st.deleted_keys.push(k.clone());
                        m.delete_edge_key(k);
                        st.rel_keys_deleted += 1;
                    }
                }
                for n in &nodes {
                    if m.nodes.contains_key(n) {
                        m.delete_node(*n);
                        st.nodes_deleted += 1;
                    }
                }
            }
        }
    }
    let _ = pattern_vars;
    if st.needs_own_writes {
        return unsup("statement-internal visibility: SET = map after a write of the same entity");
    }
    // with at most one row per update clause everything happens in clause / item order
    if st.order_dependent && st.max_rows > 1 {
        return Err(EvalErr::Nondet("the statement's result depends on the order of rows/items or on seeing its own writes".into()));
    }
    *model = m;
    Ok(st)
}
