//! Independent reference Cypher evaluator (DESIGN §4.4): own AST, printer, evaluator over
//! `model::Model`, graph/query generators, database construction through the storage API and
//! the comparison of reference outcomes with engine rows.
pub mod ast;
pub mod eval;
pub mod r#gen;
pub mod print;
pub mod upd;

use crate::cy::{CV, QErr};
use crate::engine::{Failure, TempDir, catch};
use crate::hist;
use crate::model::{self, Model, Universe};
use crate::pv::PV;
use ast::*;
use eval::{Ctx, EvalErr, Outcome, RV, Reading};
use r#gen::{ColKind, Feat, GraphSpec};
use nervusdb::Db;
use serde::{Deserialize, Serialize};
use std::collections::BTreeMap;

/// One C11 case: a graph, a read query from the fragment and how its columns compare.
#[derive(Debug, Clone, Serialize, Deserialize)]
pub struct ReadCase {
    pub g: GraphSpec,
    pub q: RQuery,
    pub kinds: Vec<ColKind>,
    pub params: Vec<(String, PV)>,
    pub feat: Feat,
    /// set by the generator when the case falls into the trigger class of an open finding
    /// (reproducers of known findings carry `None` and therefore always run)
    #[serde(default)]
    pub excluded: Option<String>,
}

pub struct Built {
    pub dir: TempDir,
    pub db: Db,
    pub model: Model,
}

fn keys_vec() -> Vec<String> {
    r#gen::KEYS.iter().map(|s| s.to_string()).collect()
}
fn types_vec() -> Vec<String> {
    r#gen::TYPES.iter().map(|s| s.to_string()).collect()
}

fn storage_fail(what: &str, detail: String) -> Failure {
    let norm: String = detail.chars().map(|c| if c.is_ascii_digit() { '#' } else { c }).take(80).collect();
    Failure::new(format!("graph-build:{what}:{norm}"), format!("building the graph through the storage API failed at {what}: {detail}"))
}

/// Builds the database of `spec` through the storage API (no Cypher involved) and checks
/// that a full dump equals the model, so that later disagreements are about queries.
pub fn build_db(spec: &GraphSpec) -> Result<Built, Failure> {
    let (model, batches) = r#gen::graph_writes(spec);
    let dir = crate::engine::temp_dir();
    let base = dir.join("db");
    let mut db = hist::open_db(&base)?;
    for (i, b) in batches.iter().enumerate() {
        if !b.is_empty() {
            match catch(|| hist::exec_tx(&db, b, true)) {
                Err((loc, msg)) => return Err(Failure::new(format!("panic@{loc}"), format!("graph construction panicked at {loc}: {msg}"))),
                Ok(Err((what, e))) => return Err(storage_fail(&what, e)),
                Ok(Ok(())) => {}
            }
        }
        if i == 0 && spec.compact_mid {
            match catch(|| db.compact()) {
                Err((loc, msg)) => return Err(Failure::new(format!("panic@{loc}"), format!("compaction panicked at {loc}: {msg}"))),
                Ok(Err(e)) => return Err(storage_fail("compact", e.to_string())),
                Ok(Ok(())) => {}
            }
        }
    }
    if spec.compact_end {
        match catch(|| db.compact()) {
            Err((loc, msg)) => return Err(Failure::new(format!("panic@{loc}"), format!("compaction panicked at {loc}: {msg}"))),
            Ok(Err(e)) => return Err(storage_fail("compact", e.to_string())),
            Ok(Ok(())) => {}
        }
    }
    if spec.reopen {
        match catch(|| db.close()) {
            Err((loc, msg)) => return Err(Failure::new(format!("panic@{loc}"), format!("close panicked at {loc}: {msg}"))),
            Ok(Err(e)) => return Err(storage_fail("close", e.to_string())),
            Ok(Ok(())) => {}
        }
        db = hist::open_db(&base)?;
    }
    let (keys, types) = (keys_vec(), types_vec());
    let uni = Universe { keys: &keys, types: &types };
    let d = model::dump_db(&db, &uni, &model.dead)?;
    if let Err(f) = model::diff(&model, &d, &uni) {
        return Err(Failure::new(format!("graph-build:{}", f.signature), format!("the stored graph differs from the model before any query ran: {}", f.message)));
    }
    Ok(Built { dir, db, model })
}

pub fn params_rv(params: &[(String, PV)]) -> BTreeMap<String, RV> {
    params.iter().map(|(k, v)| (k.clone(), eval::from_pv(v))).collect()
}

// ------------------------------------------------------------------ comparison

fn norm_cv(v: &CV, loose_num: bool) -> CV {
    match v {
        CV::Float(b) => {
            let f = f64::from_bits(*b);
            if f.is_nan() {
                CV::Float(f64::NAN.to_bits())
            } else if loose_num && f == 0.0 {
                CV::Float(0.0f64.to_bits())
            } else {
                v.clone()
            }
        }
        CV::Int(i) if loose_num => CV::Float((*i as f64).to_bits()),
        CV::List(l) => CV::List(l.iter().map(|x| norm_cv(x, loose_num)).collect()),
        CV::Map(m) => CV::Map(m.iter().map(|(k, x)| (k.clone(), norm_cv(x, loose_num))).collect()),
        CV::Node { id, labels, props } => {
            let mut labels = labels.clone();
            labels.sort();
            CV::Node { id: *id, labels, props: props.iter().map(|(k, x)| (k.clone(), norm_cv(x, false))).collect() }
        }
        CV::Rel { src, ty, dst, props } => CV::Rel { src: *src, ty: ty.clone(), dst: *dst, props: props.iter().map(|(k, x)| (k.clone(), norm_cv(x, false))).collect() },
        o => o.clone(),
    }
}

fn norm_col(v: &CV, kind: ColKind, loose_num: bool) -> CV {
    let n = norm_cv(v, loose_num);
    match (kind, n) {
        (ColKind::Bag, CV::List(mut l)) => {
            l.sort();
            CV::List(l)
        }
        // the sign of a zero sum depends on the fold's start value
        (ColKind::Approx, CV::Float(b)) => CV::Str(format!("~{:.9e}", f64::from_bits(b) + 0.0)),
        (_, n) => n,
    }
}

pub fn norm_row(r: &[CV], kinds: &[ColKind], loose_num: bool) -> Vec<CV> {
    r.iter().enumerate().map(|(i, v)| norm_col(v, kinds.get(i).copied().unwrap_or(ColKind::Exact), loose_num)).collect()
}

fn sub_multiset(small: &[Vec<CV>], big: &[Vec<CV>]) -> bool {
    let mut pool: BTreeMap<&Vec<CV>, usize> = BTreeMap::new();
    for r in big {
        *pool.entry(r).or_insert(0) += 1;
    }
    for r in small {
        match pool.get_mut(r) {
            Some(n) if *n > 0 => *n -= 1,
            _ => return false,
        }
    }
    true
}

/// Does the engine's row sequence agree with a reference outcome? `Err(kind of difference)`.
pub fn rows_agree(g: &Model, o: &Outcome, kinds: &[ColKind], loose_num: bool, engine: &[Vec<CV>]) -> Result<(), String> {
    let conv = |rows: &[Vec<RV>]| -> Vec<Vec<CV>> { rows.iter().map(|r| norm_row(&r.iter().map(|v| eval::to_cv(g, v)).collect::<Vec<_>>(), kinds, loose_num)).collect() };
    let full = conv(&o.full);
    let eng: Vec<Vec<CV>> = engine.iter().map(|r| norm_row(r, kinds, loose_num)).collect();
    let want = o.expected_len();
    if eng.len() != want {
        return Err(format!("row-count: engine returned {} rows, reference {}", eng.len(), want));
    }
    match &o.groups {
        None => {
            if !o.sliced() {
                let (mut a, mut b) = (full, eng);
                a.sort();
                b.sort();
                if a != b {
                    return Err("row-content: the multisets of rows differ".into());
                }
            } else if !sub_multiset(&eng, &full) {
                return Err("row-content: engine rows are not a sub-multiset of the unsliced reference rows".into());
            }
        }
        Some(gs) => {
            // walk the window [skip, skip+want): rows of one tie group may come in any order,
            // and a group cut by the window may contribute any of its rows
            let lo = o.skip.min(full.len());
            let mut pos = lo;
            while pos < lo + want {
                let gid = gs[pos];
                let ga = gs.iter().position(|x| *x == gid).unwrap();
                let gb = gs.iter().rposition(|x| *x == gid).unwrap() + 1;
                let a = pos;
                let b = gb.min(lo + want);
                let eng_part = &eng[a - lo..b - lo];
                if !sub_multiset(eng_part, &full[ga..gb]) {
                    return Err(format!("row-order: engine rows {}..{} are not rows of the reference tie group at that position", a - lo, b - lo));
                }
                pos = b;
            }
        }
    }
    Ok(())
}

#[derive(Debug)]
pub enum Verdict {
    Agree { ambiguous: bool, rows: usize, ref_error: bool },
    /// the reference has no answer for this case
    Skip(String),
    Differ { kind: String, detail: String },
}

/// Evaluates the reference under every reading whose choice points the query touches.
pub fn reference_outcomes(g: &Model, q: &RQuery, params: &[(String, PV)]) -> Vec<(Reading, Result<Outcome, EvalErr>)> {
    reference_outcomes_touched(g, q, params).0
}

/// Also returns the mask of choice points (`eval::T_*`) the query exercised.
pub fn reference_outcomes_touched(g: &Model, q: &RQuery, params: &[(String, PV)]) -> (Vec<(Reading, Result<Outcome, EvalErr>)>, u8) {
    let prv = params_rv(params);
    let mut touched: u8 = 0;
    loop {
        let mut outs = Vec::new();
        let mut seen: u8 = 0;
        let mut bits: Vec<u8> = (0..8).map(|i| 1u8 << i).filter(|b| eval::T_CHOICES & b != 0 && touched & b != 0).collect();
        if touched & eval::T_UNIQ != 0 {
            bits.push(eval::T_UNIQ_VARLEN);
        }
        for combo in 0u32..(1 << bits.len()) {
            let mut b = 0u8;
            for (i, bit) in bits.iter().enumerate() {
                if combo & (1 << i) != 0 {
                    b |= bit;
                }
            }
            if b & eval::T_UNIQ_VARLEN != 0 && (b & eval::T_UNIQ == 0 || mixes_varlen_and_fixed(q)) {
                continue;
            }
            let rd = Reading::from_bits(b);
            let ctx = Ctx::new(g, &prv, rd);
            let r = ctx.run_query(q);
            seen |= ctx.touched.get() & eval::T_CHOICES;
            outs.push((rd, r));
        }
        if seen & !touched == 0 {
            return (outs, touched);
        }
        touched |= seen;
    }
}

pub type Outs = Vec<(Reading, Result<Outcome, EvalErr>)>;

/// A reading the evaluator cannot answer makes the whole case unanswerable.
pub fn unanswerable(outs: &Outs) -> Option<Verdict> {
    for (_, r) in outs {
        match r {
            Err(EvalErr::Budget) => return Some(Verdict::Skip("budget".into())),
            Err(EvalErr::Unsupported(s)) => return Some(Verdict::Skip(format!("unsupported: {s}"))),
            Err(EvalErr::Nondet(_)) => return Some(Verdict::Skip("nondeterministic".into())),
            _ => {}
        }
    }
    None
}

/// Execution options for differential runs: the engine's soft timeout is lifted (the
/// reference's row budget bounds the work instead), so that results do not depend on load.
pub fn exec_options() -> nervusdb::query::ExecuteOptions {
    nervusdb::query::ExecuteOptions { soft_timeout_ms: 900_000, ..Default::default() }
}

pub fn judge_read(g: &Model, q: &RQuery, kinds: &[ColKind], params: &[(String, PV)], engine: &Result<(Vec<String>, Vec<Vec<CV>>), QErr>) -> Verdict {
    let outs = reference_outcomes(g, q, params);
    judge_read_with(&outs, g, q, kinds, engine)
}

pub fn judge_read_with(outs: &Outs, g: &Model, q: &RQuery, kinds: &[ColKind], engine: &Result<(Vec<String>, Vec<Vec<CV>>), QErr>) -> Verdict {
    if let Some(v) = unanswerable(outs) {
        return v;
    }
    let ambiguous = outs.len() > 1;
    let any_runtime = outs.iter().any(|(_, r)| matches!(r, Err(EvalErr::Runtime(_))));
    let all_runtime = outs.iter().all(|(_, r)| matches!(r, Err(EvalErr::Runtime(_))));
    match engine {
        Err(QErr::Panic(loc, msg)) => Verdict::Differ { kind: format!("panic@{loc}"), detail: format!("engine panicked at {loc}: {msg}") },
        // the engine's own execution limits (time, memory) are C33's subject
        Err(QErr::Limit(_)) => Verdict::Skip("engine-limit".into()),
        Err(QErr::Prepare(e)) => Verdict::Differ { kind: "prepare-error".into(), detail: format!("engine refused the query text: {e}") },
        Err(e) => {
            if any_runtime {
                Verdict::Agree { ambiguous, rows: 0, ref_error: true }
            } else {
                Verdict::Differ { kind: "unexpected-error".into(), detail: format!("engine failed with `{}` where the reference returns rows", e.text()) }
            }
        }
        Ok((cols, rows)) => {
            if all_runtime {
                let Err(EvalErr::Runtime(why)) = &outs[0].1 else { unreachable!() };
                // a LIMIT may legitimately stop the engine before it reaches the failing row
                let limited = q.parts.iter().flatten().any(|c| matches!(c, Clause::With { p, .. } | Clause::Return { p } if p.limit.is_some()));
                if limited {
                    return Verdict::Skip("reference error under LIMIT".into());
                }
                return Verdict::Differ { kind: "error-swallowed".into(), detail: format!("reference raises `{why}` but the engine returned {} rows", rows.len()) };
            }
            let mut first_diff: Option<String> = None;
            for (rd, r) in outs {
                let Ok(o) = r else { continue };
                if !rows.is_empty() && *cols != o.cols {
                    first_diff.get_or_insert(format!("columns: engine {:?}, reference {:?}", cols, o.cols));
                    continue;
                }
                // under the merging readings the surviving representative is arbitrary
                let loose = rd.int_float_equiv;
                match rows_agree(g, o, kinds, loose, rows) {
                    Ok(()) => return Verdict::Agree { ambiguous, rows: rows.len(), ref_error: false },
                    Err(d) => {
                        first_diff.get_or_insert(d);
                    }
                }
            }
            // `-0.0`/`0.0` merged into one group: either representative
            if outs.iter().any(|(rd, _)| !rd.negzero_distinct || !rd.negzero_distinct_in_dedup) && ambiguous {
                for (_, r) in outs {
                    let Ok(o) = r else { continue };
                    if rows_agree(g, o, kinds, true, rows).is_ok() {
                        return Verdict::Agree { ambiguous, rows: rows.len(), ref_error: false };
                    }
                }
            }
            let d = first_diff.unwrap_or_else(|| "?".into());
            let kind = d.split(':').next().unwrap_or("rows").to_string();
            Verdict::Differ { kind, detail: d }
        }
    }
}

/// Does some MATCH clause combine a variable-length step with another relationship step
/// (a fixed-length step, or any step of another comma-separated pattern)? With parallel
/// relationship instances the engine counts such combinations inconsistently (open finding).
pub fn mixes_varlen_and_fixed(q: &RQuery) -> bool {
    q.parts.iter().flatten().any(|c| match c {
        Clause::Match { pats, .. } => {
            let steps: Vec<&RelPat> = pats.iter().flat_map(|p| p.steps.iter().map(|(r, _)| r)).collect();
            let varlen_pats = pats.iter().filter(|p| p.steps.iter().any(|(r, _)| r.range.is_some())).count();
            let rel_pats = pats.iter().filter(|p| !p.steps.is_empty()).count();
            steps.iter().any(|r| r.range.is_some()) && (steps.iter().any(|r| r.range.is_none()) || (varlen_pats >= 1 && rel_pats >= 2))
        }
        _ => false,
    })
}

/// Operators and functions of a query that characterise a disagreement (for signatures).
pub fn notable(q: &RQuery) -> Vec<String> {
    let mut v: Vec<String> = Vec::new();
    let mut add = |s: String| {
        if !v.contains(&s) {
            v.push(s);
        }
    };
    let mut on_expr = |e: &Expr| {
        e.walk(&mut |x| match x {
            Expr::Func(n, _) => add(n.to_ascii_lowercase()),
            Expr::Agg { f, distinct, .. } => add(format!("{}{}", print::agg_name(*f), if *distinct { "-distinct" } else { "" })),
            Expr::Bin(op, ..) => match op {
                BinOp::In | BinOp::StartsWith | BinOp::EndsWith | BinOp::Contains | BinOp::Pow | BinOp::Mod | BinOp::Div | BinOp::Xor => add(format!("{op:?}").to_ascii_lowercase()),
                BinOp::Lt | BinOp::Le | BinOp::Gt | BinOp::Ge => add("ineq".into()),
                _ => {}
            },
            Expr::Case { .. } => add("case".into()),
            Expr::Index(..) => add("index".into()),
            Expr::Slice(..) => add("slice".into()),
            Expr::PatPred(_) => add("patpred".into()),
            Expr::HasLabel(..) => add("haslabel".into()),
            Expr::Param(_) => add("param".into()),
            _ => {}
        })
    };
    for c in q.parts.iter().flatten() {
        match c {
            Clause::Match { pats, where_, .. } => {
                for p in pats {
                    for (_, e) in &p.start.props {
                        on_expr(e);
                    }
                    for (r, n) in &p.steps {
                        for (_, e) in r.props.iter().chain(&n.props) {
                            on_expr(e);
                        }
                    }
                }
                if let Some(w) = where_ {
                    on_expr(w);
                }
            }
            Clause::Unwind { e, .. } => on_expr(e),
            Clause::With { p, where_ } => {
                for (e, _) in &p.items {
                    on_expr(e);
                }
                for (e, _) in &p.order {
                    on_expr(e);
                }
                if let Some(w) = where_ {
                    on_expr(w);
                }
            }
            Clause::Return { p } => {
                for (e, _) in &p.items {
                    on_expr(e);
                }
                for (e, _) in &p.order {
                    on_expr(e);
                }
            }
            _ => {}
        }
    }
    v.sort();
    v
}

/// Structural features of a query, recomputed from the AST (a shrunk case keeps the
/// generator's `feat` of the original, so signatures use this instead).
pub fn features(q: &RQuery) -> Vec<&'static str> {
    let mut f: Vec<&'static str> = Vec::new();
    let mut add = |s: &'static str| {
        if !f.contains(&s) {
            f.push(s);
        }
    };
    if q.parts.len() > 1 {
        add("union");
    }
    for c in q.parts.iter().flatten() {
        match c {
            Clause::Match { optional, pats, where_ } => {
                if *optional {
                    add("optional");
                }
                if where_.is_some() {
                    add("where");
                }
                if pats.len() > 1 {
                    add("multi-path");
                }
                for p in pats {
                    if !p.start.props.is_empty() {
                        add("pat-props");
                    }
                    if p.steps.len() > 1 {
                        add("multi-hop");
                    }
                    for (r, n) in &p.steps {
                        add("rel");
                        if r.range.is_some() {
                            add("varlen");
                        }
                        if r.dir == Dir::Both {
                            add("undirected");
                        }
                        if !r.props.is_empty() || !n.props.is_empty() {
                            add("pat-props");
                        }
                    }
                }
            }
            Clause::Unwind { .. } => add("unwind"),
            Clause::With { p, .. } | Clause::Return { p } => {
                if matches!(c, Clause::With { .. }) {
                    add("with");
                }
                if p.distinct {
                    add("distinct");
                }
                if p.has_agg() {
                    add("agg");
                }
                if !p.order.is_empty() {
                    add("order");
                }
                if p.skip.is_some() || p.limit.is_some() {
                    add("slice");
                }
                if let Clause::With { where_: Some(_), .. } = c {
                    add("where");
                }
            }
            _ => {}
        }
    }
    f.sort();
    f
}

pub fn signature(kind: &str, q: &RQuery) -> String {
    let mut n = notable(q);
    n.truncate(6);
    format!("{}:{}:{}", kind, features(q).join("+"), n.join("+"))
}
