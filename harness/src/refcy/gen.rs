//! Generators: small property graphs (proptest strategies) and well-typed queries (built
//! from a "choice tape" so that a type environment can be threaded through generation;
//! proptest shrinks the tape, draw 0 is always the simplest alternative).
use super::ast::*;
use crate::engine::idx;
use crate::hist::RW;
use crate::model::Model;
use crate::pv::PV;
use proptest::prelude::*;
use serde::{Deserialize, Serialize};

pub const LABELS: [&str; 3] = ["A", "B", "C"];
/// "A" is both a label and a relationship type
pub const TYPES: [&str; 3] = ["R", "S", "A"];
/// property keys with a fixed value kind each: int, float, string, bool, mixed scalar, opaque
pub const KEYS: [&str; 6] = ["i", "f", "s", "b", "m", "o"];
pub const K_INT: usize = 0;
pub const K_FLOAT: usize = 1;
pub const K_STR: usize = 2;
pub const K_BOOL: usize = 3;
pub const K_ANY: usize = 4;
pub const K_OPQ: usize = 5;

pub const INTS: [i64; 7] = [0, 1, 2, -1, 3, -2, 10];
pub const FLOATS: [f64; 8] = [0.5, 1.0, 1.5, 0.0, 2.0, -1.5, 2.5, -0.5];
pub const STRS: [&str; 8] = ["a", "ab", "", "b", "abc", "B", "ba", "a b"];

// ------------------------------------------------------------------ graphs

#[derive(Debug, Clone, Serialize, Deserialize, PartialEq)]
pub struct GNode {
    pub labels: Vec<u8>,
    pub props: Vec<(u8, PV)>,
}

#[derive(Debug, Clone, Serialize, Deserialize, PartialEq)]
pub struct GRel {
    pub s: u16,
    pub t: u8,
    pub d: u16,
    /// extra parallel instances of the same key
    pub par: u8,
    pub props: Vec<(u8, PV)>,
}

#[derive(Debug, Clone, Serialize, Deserialize, PartialEq)]
pub struct GraphSpec {
    pub nodes: Vec<GNode>,
    pub rels: Vec<GRel>,
    /// nodes / relationship keys deleted again after construction
    pub del_nodes: Vec<u16>,
    pub del_rels: Vec<u16>,
    /// position (monotone index into the write list) where the first transaction ends
    pub split: u16,
    pub compact_mid: bool,
    pub compact_end: bool,
    pub reopen: bool,
}

fn float_val() -> impl Strategy<Value = PV> + Clone {
    prop_oneof![
        20 => prop::sample::select(FLOATS.to_vec()).prop_map(PV::f),
        1 => Just(PV::f(-0.0)),
        1 => Just(PV::f(f64::NAN)),
        1 => Just(PV::f(f64::INFINITY)),
    ]
}

fn int_val() -> impl Strategy<Value = PV> + Clone {
    prop::sample::select(INTS.to_vec()).prop_map(PV::Int)
}

fn str_val() -> impl Strategy<Value = PV> + Clone {
    prop::sample::select(STRS.to_vec()).prop_map(|s| PV::Str(s.to_string()))
}

fn any_val() -> impl Strategy<Value = PV> + Clone {
    prop_oneof![3 => int_val(), 2 => float_val(), 3 => str_val(), 2 => any::<bool>().prop_map(PV::Bool)]
}

fn opaque_val() -> impl Strategy<Value = PV> + Clone {
    prop_oneof![(0i64..3).prop_map(PV::DateTime), prop::collection::vec(0u8..3, 0..3).prop_map(PV::Blob)]
}

fn props(dense: bool) -> impl Strategy<Value = Vec<(u8, PV)>> + Clone {
    let w = |p: f64| if dense { p } else { p * 0.5 };
    (
        prop::option::weighted(w(0.75), int_val()),
        prop::option::weighted(w(0.5), float_val()),
        prop::option::weighted(w(0.6), str_val()),
        prop::option::weighted(w(0.4), any::<bool>().prop_map(PV::Bool)),
        prop::option::weighted(w(0.4), any_val()),
        prop::option::weighted(0.04, opaque_val()),
    )
        .prop_map(|(i, f, s, b, m, o)| {
            let mut v = Vec::new();
            for (k, x) in [i, f, s, b, m, o].into_iter().enumerate() {
                if let Some(x) = x {
                    v.push((k as u8, x));
                }
            }
            v
        })
}

pub fn graph() -> impl Strategy<Value = GraphSpec> {
    let node = (prop::collection::vec(0u8..LABELS.len() as u8, 0..=3), props(true)).prop_map(|(labels, props)| GNode { labels, props });
    let rel = (any::<u16>(), 0u8..TYPES.len() as u8, any::<u16>(), prop_oneof![8 => Just(0u8), 2 => Just(1u8), 1 => Just(2u8)], props(false), prop::bool::weighted(0.12))
        .prop_map(|(s, t, d, par, props, self_loop)| GRel { s, t, d: if self_loop { s } else { d }, par, props });
    (
        prop_oneof![1 => prop::collection::vec(node.clone(), 1..=3), 5 => prop::collection::vec(node, 3..=12)],
        prop_oneof![1 => prop::collection::vec(rel.clone(), 0..=3), 5 => prop::collection::vec(rel, 4..=18)],
        prop::collection::vec(any::<u16>(), 0..=1),
        prop::collection::vec(any::<u16>(), 0..=2),
        any::<u16>(),
        prop::bool::weighted(0.3),
        prop::bool::weighted(0.15),
        prop::bool::weighted(0.3),
        prop::bool::weighted(0.25),
    )
        .prop_map(|(nodes, rels, del_nodes, del_rels, split, compact_mid, compact_end, reopen, dels)| GraphSpec {
            nodes,
            rels,
            del_nodes: if dels { del_nodes } else { vec![] },
            del_rels: if dels { del_rels } else { vec![] },
            split,
            compact_mid,
            compact_end,
            reopen,
        })
}

/// The model of the graph and the storage writes that build it, in three batches:
/// construction part 1, construction part 2, deletions.
pub fn graph_writes(spec: &GraphSpec) -> (Model, [Vec<RW>; 3]) {
    let mut m = Model::new();
    let mut ws: Vec<RW> = Vec::new();
    for n in &spec.nodes {
        let mut ls: Vec<String> = Vec::new();
        for l in &n.labels {
            let name = LABELS[*l as usize % LABELS.len()].to_string();
            if !ls.contains(&name) {
                ls.push(name);
            }
        }
        let iid = m.create_node(&ls);
        ws.push(RW::CreateNode { ext: m.nodes[&iid].ext, labels: ls, iid });
        for (k, v) in &n.props {
            let key = KEYS[*k as usize % KEYS.len()].to_string();
            m.nodes.get_mut(&iid).unwrap().props.insert(key.clone(), v.clone());
            ws.push(RW::SetNodeProp { n: iid, k: key, v: v.clone() });
        }
    }
    let nn = spec.nodes.len();
    let mut instances = 0u32;
    for r in &spec.rels {
        if nn == 0 {
            break;
        }
        let s = idx(r.s, nn) as u32;
        let d = idx(r.d, nn) as u32;
        let t = TYPES[r.t as usize % TYPES.len()].to_string();
        for _ in 0..=r.par {
            if instances >= 24 {
                break;
            }
            instances += 1;
            *m.edges.entry((s, t.clone(), d)).or_insert(0) += 1;
            ws.push(RW::CreateEdge { s, t: t.clone(), d });
        }
        if !m.edges.contains_key(&(s, t.clone(), d)) {
            continue;
        }
        for (k, v) in &r.props {
            let key = KEYS[*k as usize % KEYS.len()].to_string();
            m.edge_props.entry((s, t.clone(), d)).or_default().insert(key.clone(), v.clone());
            ws.push(RW::SetEdgeProp { s, t: t.clone(), d, k: key, v: v.clone() });
        }
    }
    let cut = idx(spec.split, ws.len() + 1).min(ws.len());
    let second = ws.split_off(cut);
    // deletions (relationship keys first, then nodes with their incident keys)
    let mut dels: Vec<RW> = Vec::new();
    let del_key = |m: &mut Model, k: &crate::model::EKey, out: &mut Vec<RW>| {
        if let Some(ps) = m.edge_props.get(k) {
            for pk in ps.keys() {
                out.push(RW::RemoveEdgeProp { s: k.0, t: k.1.clone(), d: k.2, k: pk.clone() });
            }
        }
        m.delete_edge_key(k);
        out.push(RW::DeleteEdgeKey { s: k.0, t: k.1.clone(), d: k.2 });
    };
    for e in &spec.del_rels {
        let keys = m.live_keys();
        if keys.is_empty() {
            break;
        }
        let k = keys[idx(*e, keys.len())].clone();
        del_key(&mut m, &k, &mut dels);
    }
    for n in &spec.del_nodes {
        let nodes = m.live_nodes();
        if nodes.len() <= 1 {
            break;
        }
        let n = nodes[idx(*n, nodes.len())];
        for k in m.incident_keys(n) {
            del_key(&mut m, &k, &mut dels);
        }
        m.delete_node(n);
        dels.push(RW::TombstoneNode { n });
    }
    (m, [ws, second, dels])
}

// ------------------------------------------------------------------ choice tape

pub struct Tape<'a> {
    data: &'a [u16],
    pos: usize,
}


impl<'a> Tape<'a> {
    pub fn new(data: &'a [u16]) -> Self {
        Tape { data, pos: 0 }
    }
    fn raw(&mut self) -> u16 {
        let v = self.data.get(self.pos).copied().unwrap_or(0);
        self.pos += 1;
        v
    }
    /// uniform in `0..n`; 0 once the tape is exhausted
    pub fn draw(&mut self, n: usize) -> usize {
        if n <= 1 {
            return 0;
        }
        idx(self.raw(), n)
    }
    /// true with probability `pct` percent; false once the tape is exhausted
    pub fn chance(&mut self, pct: u32) -> bool {
        // high draws are "true" so that shrinking towards 0 removes the optional feature
        (self.raw() as u32) >= 65536 - (65536 * pct.min(100) / 100)
    }
    pub fn weighted(&mut self, w: &[u32]) -> usize {
        let total: u32 = w.iter().sum();
        if total == 0 {
            return 0;
        }
        let mut x = ((self.raw() as u64 * total as u64) >> 16) as u32;
        for (i, wi) in w.iter().enumerate() {
            if x < *wi {
                return i;
            }
            x -= wi;
        }
        w.len() - 1
    }
    pub fn pick<'b, T>(&mut self, xs: &'b [T]) -> &'b T {
        &xs[self.draw(xs.len())]
    }
}

// ------------------------------------------------------------------ types

#[derive(Clone, Copy, PartialEq, Eq, Debug)]
pub enum Elem {
    Int,
    Float,
    Str,
    Bool,
    Any,
    Node,
    Rel,
}

#[derive(Clone, Copy, PartialEq, Eq, Debug)]
pub enum Ty {
    Bool,
    Int,
    Float,
    Str,
    /// scalar of unknown kind (bool, int, float or string)
    Any,
    Node,
    Rel,
    /// ordered list
    List(Elem),
    /// list whose element order is not determined (collect, labels, keys)
    Bag(Elem),
    Map,
    Opaque,
}

impl Ty {
    fn of_elem(e: Elem) -> Ty {
        match e {
            Elem::Int => Ty::Int,
            Elem::Float => Ty::Float,
            Elem::Str => Ty::Str,
            Elem::Bool => Ty::Bool,
            Elem::Any => Ty::Any,
            Elem::Node => Ty::Node,
            Elem::Rel => Ty::Rel,
        }
    }
    fn as_elem(self) -> Option<Elem> {
        Some(match self {
            Ty::Int => Elem::Int,
            Ty::Float => Elem::Float,
            Ty::Str => Elem::Str,
            Ty::Bool => Elem::Bool,
            Ty::Any => Elem::Any,
            Ty::Node => Elem::Node,
            Ty::Rel => Elem::Rel,
            _ => return None,
        })
    }
    fn scalar(self) -> bool {
        matches!(self, Ty::Bool | Ty::Int | Ty::Float | Ty::Str | Ty::Any)
    }
    /// ORDER BY keys are restricted to one orderable kind per key
    fn orderable(self) -> bool {
        matches!(self, Ty::Bool | Ty::Int | Ty::Float | Ty::Str)
    }
}

/// How a result column is compared.
#[derive(Debug, Clone, Copy, Serialize, Deserialize, PartialEq, Eq)]
pub enum ColKind {
    Exact,
    /// list compared as a multiset
    Bag,
    /// float computed by an order-dependent fold (sum, avg): compared with a tolerance
    Approx,
}

#[derive(Clone, Debug, Default)]
pub struct Env {
    pub vars: Vec<(String, Ty)>,
    /// entity variables that may be null (introduced by OPTIONAL MATCH)
    pub nullable: std::collections::BTreeSet<String>,
}

impl Env {
    fn of(&self, t: Ty) -> Vec<&String> {
        self.vars.iter().filter(|(_, x)| *x == t).map(|(n, _)| n).collect()
    }
    fn has(&self, t: Ty) -> bool {
        self.vars.iter().any(|(_, x)| *x == t)
    }
    fn entities(&self) -> Vec<(&String, Ty)> {
        self.vars.iter().filter(|(_, t)| matches!(t, Ty::Node | Ty::Rel)).map(|(n, t)| (n, *t)).collect()
    }
    fn get(&self, n: &str) -> Option<Ty> {
        self.vars.iter().find(|(x, _)| x == n).map(|(_, t)| *t)
    }
}

#[derive(Clone, Debug)]
pub struct GenOpts {
    pub agg: bool,
    pub distinct: bool,
    pub slicing: bool,
    pub order: bool,
    pub union: bool,
    pub with: bool,
    /// expressions that can raise (integer division by a property)
    pub raising: bool,
    /// open finding: do not name a variable-length relationship in a pattern the planner
    /// evaluates from its far end (first node unbound, last node bound)
    pub excl_reanchored_varlen: bool,
    /// fewer label/type/property constraints and WHERE clauses (base queries that should
    /// mostly return rows)
    pub sparse: bool,
}

impl GenOpts {
    pub fn full() -> Self {
        GenOpts { agg: true, distinct: true, slicing: true, order: true, union: true, with: true, raising: false, excl_reanchored_varlen: false, sparse: false }
    }
    pub fn plain() -> Self {
        GenOpts { agg: false, distinct: false, slicing: false, order: false, union: false, with: true, raising: false, excl_reanchored_varlen: false, sparse: false }
    }
}

pub struct Gen<'a> {
    pub t: Tape<'a>,
    pub params: Vec<(String, PV)>,
    pub opts: GenOpts,
    next_var: usize,
    next_col: usize,
    /// the expression being generated sits in predicate position (WHERE, possibly below
    /// AND/OR/XOR/NOT): only there `n:A` and pattern predicates are valid syntax
    pred_ok: bool,
    /// features used (for class histograms)
    pub feat: Feat,
}

#[derive(Debug, Clone, Default, Serialize, Deserialize, PartialEq)]
pub struct Feat {
    pub rel_pattern: bool,
    pub multi_hop: bool,
    pub multi_path: bool,
    pub optional: bool,
    pub where_: bool,
    pub agg: bool,
    pub distinct: bool,
    pub order: bool,
    pub slicing: bool,
    pub varlen: bool,
    pub unwind: bool,
    pub with: bool,
    pub union: bool,
    pub undirected: bool,
    pub join: bool,
    pub pat_props: bool,
    /// something was left out by construction because of an open finding
    #[serde(default)]
    pub excluded: Vec<String>,
}

impl Feat {
    /// number of the C11 non-triviality features present
    pub fn score(&self) -> u32 {
        [self.rel_pattern, self.optional, self.where_, self.agg || self.distinct, self.order || self.slicing, self.varlen].iter().filter(|b| **b).count() as u32
    }
    pub fn shape(&self) -> &'static str {
        if self.varlen {
            "varlen"
        } else if self.multi_path {
            "multi-path"
        } else if self.multi_hop {
            "multi-hop"
        } else if self.rel_pattern {
            "one-hop"
        } else {
            "nodes-only"
        }
    }
    pub fn mix(&self) -> String {
        let mut v: Vec<&str> = Vec::new();
        if self.optional {
            v.push("opt");
        }
        if self.where_ {
            v.push("where");
        }
        if self.agg {
            v.push("agg");
        }
        if self.distinct {
            v.push("distinct");
        }
        if self.order {
            v.push("order");
        }
        if self.slicing {
            v.push("slice");
        }
        if self.with {
            v.push("with");
        }
        if self.unwind {
            v.push("unwind");
        }
        if self.union {
            v.push("union");
        }
        if v.is_empty() { "plain".into() } else { v.join("+") }
    }
}

impl<'a> Gen<'a> {
    pub fn new(tape: &'a [u16], opts: GenOpts) -> Self {
        Gen { t: Tape::new(tape), params: Vec::new(), opts, next_var: 0, next_col: 0, pred_ok: false, feat: Feat::default() }
    }

    fn fresh(&mut self, prefix: &str) -> String {
        let n = self.next_var;
        self.next_var += 1;
        format!("{prefix}{n}")
    }

    fn col(&mut self) -> String {
        let n = self.next_col;
        self.next_col += 1;
        format!("c{n}")
    }

    /// literal, sometimes passed as a parameter; always as a parameter if it has no literal form
    fn value(&mut self, v: PV) -> Expr {
        let needs_param = crate::cy::literal(&v).is_none();
        if needs_param || self.t.chance(12) {
            let name = format!("p{}", self.params.len());
            self.params.push((name.clone(), v));
            Expr::Param(name)
        } else {
            Expr::Lit(v)
        }
    }

    fn int_lit(&mut self) -> Expr {
        let v = *self.t.pick(&INTS);
        self.value(PV::Int(v))
    }

    fn float_lit(&mut self) -> Expr {
        if self.t.chance(4) {
            let special = *self.t.pick(&[f64::NAN, f64::INFINITY, -0.0]);
            return self.value(PV::f(special));
        }
        let v = *self.t.pick(&FLOATS);
        self.value(PV::f(v))
    }

    fn str_lit(&mut self) -> Expr {
        let v = *self.t.pick(&STRS);
        self.value(PV::Str(v.to_string()))
    }

    fn key_for(ty: Ty) -> &'static str {
        match ty {
            Ty::Int => KEYS[K_INT],
            Ty::Float => KEYS[K_FLOAT],
            Ty::Str => KEYS[K_STR],
            Ty::Bool => KEYS[K_BOOL],
            Ty::Opaque => KEYS[K_OPQ],
            _ => KEYS[K_ANY],
        }
    }

    /// `x.key` of an entity variable in scope, for a key holding values of kind `ty`
    fn prop_access(&mut self, env: &Env, ty: Ty) -> Option<Expr> {
        let ents = env.entities();
        if ents.is_empty() {
            return None;
        }
        let (v, _) = ents[self.t.draw(ents.len())];
        Some(Expr::prop(v, Self::key_for(ty)))
    }

    fn var_of(&mut self, env: &Env, ty: Ty) -> Option<Expr> {
        let vs = env.of(ty);
        if vs.is_empty() {
            return None;
        }
        Some(Expr::var(vs[self.t.draw(vs.len())]))
    }

    /// leaf of type `ty`: variable, property access or literal
    fn leaf(&mut self, env: &Env, ty: Ty) -> Expr {
        // draw 0 = literal (simplest)
        let choice = self.t.weighted(&[3, 5, 3, 1]);
        if choice == 1 {
            if let Some(e) = self.prop_access(env, ty) {
                return e;
            }
        }
        if choice == 2 {
            if let Some(e) = self.var_of(env, ty) {
                return e;
            }
            if let Some(e) = self.prop_access(env, ty) {
                return e;
            }
        }
        if choice == 3 {
            return Expr::Lit(PV::Null);
        }
        match ty {
            Ty::Int => self.int_lit(),
            Ty::Float => self.float_lit(),
            Ty::Str => self.str_lit(),
            Ty::Bool => {
                let b = self.t.draw(2) == 1;
                self.value(PV::Bool(b))
            }
            Ty::Any => match self.t.draw(4) {
                0 => self.int_lit(),
                1 => self.str_lit(),
                2 => self.float_lit(),
                _ => {
                    let b = self.t.draw(2) == 1;
                    self.value(PV::Bool(b))
                }
            },
            _ => Expr::Lit(PV::Null),
        }
    }

    fn scalar_ty(&mut self) -> Ty {
        *self.t.pick(&[Ty::Int, Ty::Str, Ty::Float, Ty::Bool, Ty::Any])
    }

    fn list_lit(&mut self, env: &Env, el: Elem, d: u32) -> Expr {
        let n = [1, 2, 3, 0, 2, 1, 3, 2][self.t.draw(8)];
        let mut items = Vec::new();
        for _ in 0..n {
            items.push(self.expr(env, Ty::of_elem(el), d.saturating_sub(1).min(1)));
        }
        Expr::List(items)
    }

    fn nonneg_small(&mut self) -> Expr {
        let v = self.t.draw(4) as i64;
        Expr::int(v)
    }

    pub fn list_expr(&mut self, env: &Env, el: Elem, d: u32) -> Expr {
        let vs = env.of(Ty::List(el));
        let c = self.t.weighted(&[5, if vs.is_empty() { 0 } else { 4 }, if el == Elem::Int { 3 } else { 0 }, if d > 0 { 2 } else { 0 }, if d > 0 { 2 } else { 0 }]);
        match c {
            1 => Expr::var(vs[self.t.draw(vs.len())]),
            2 => {
                let a = self.t.draw(3) as i64 - 1;
                let b = a + self.t.draw(4) as i64;
                Expr::func("range", vec![Expr::int(a), Expr::int(b)])
            }
            3 => {
                let a = self.list_expr(env, el, d - 1);
                let b = self.list_expr(env, el, d - 1);
                Expr::bin(BinOp::Add, a, b)
            }
            4 => {
                let a = self.list_expr(env, el, d - 1);
                match self.t.draw(3) {
                    0 => Expr::func("tail", vec![a]),
                    1 => Expr::func("reverse", vec![a]),
                    _ => {
                        let lo = self.nonneg_small();
                        let hi = self.nonneg_small();
                        Expr::Slice(Box::new(a), Some(Box::new(lo)), Some(Box::new(hi)))
                    }
                }
            }
            _ => self.list_lit(env, el, d),
        }
    }

    /// a node variable of the scope, as the anchor of a pattern predicate
    fn pattern_pred(&mut self, env: &Env) -> Option<Expr> {
        // a pattern predicate over a null node has no agreed value (null vs. "no match")
        let ns: Vec<&String> = env.of(Ty::Node).into_iter().filter(|n| !env.nullable.contains(*n)).collect();
        if ns.is_empty() {
            return None;
        }
        let a = ns[self.t.draw(ns.len())].clone();
        let dir = *self.t.pick(&[Dir::Out, Dir::In, Dir::Both]);
        let types = if self.t.chance(60) { vec![self.t.pick(&TYPES).to_string()] } else { vec![] };
        let labels = if self.t.chance(30) { vec![self.t.pick(&LABELS).to_string()] } else { vec![] };
        let end_var = if ns.len() > 1 && self.t.chance(25) { Some(ns[self.t.draw(ns.len())].clone()) } else { None };
        let end_labels = if end_var.is_some() { vec![] } else { labels };
        Some(Expr::PatPred(Box::new(PathPat {
            start: NodePat { var: Some(a), labels: vec![], props: vec![] },
            steps: vec![(RelPat { var: None, types, dir, range: None, props: vec![] }, NodePat { var: end_var, labels: end_labels, props: vec![] })],
        })))
    }

    /// expression of static type `ty` whose evaluation does not raise
    pub fn predicate(&mut self, env: &Env, d: u32) -> Expr {
        // sometimes with a conjunct/disjunct of the `variable.key = literal` form that
        // planners push into the pattern or an index seek
        let simple = if self.t.chance(18) { self.simple_comparison(env) } else { None };
        self.pred_ok = true;
        let e = self.expr(env, Ty::Bool, d);
        self.pred_ok = false;
        match simple {
            Some(s) => {
                let op = if self.t.chance(60) { BinOp::And } else { BinOp::Or };
                if self.t.chance(50) { Expr::bin(op, s, e) } else { Expr::bin(op, e, s) }
            }
            None => e,
        }
    }

    /// `x.key <op> literal` over an entity variable in scope
    pub fn simple_comparison(&mut self, env: &Env) -> Option<Expr> {
        let ents: Vec<String> = env.entities().into_iter().map(|(n, _)| n.clone()).collect();
        if ents.is_empty() {
            return None;
        }
        let v = ents[self.t.draw(ents.len())].clone();
        let (k, lit) = match self.t.draw(3) {
            0 => (KEYS[K_INT], PV::Int(*self.t.pick(&INTS))),
            1 => (KEYS[K_STR], PV::Str(self.t.pick(&STRS).to_string())),
            _ => (KEYS[K_BOOL], PV::Bool(self.t.draw(2) == 1)),
        };
        let op = *self.t.pick(&[BinOp::Eq, BinOp::Eq, BinOp::Eq, BinOp::Ne, BinOp::Lt, BinOp::Ge]);
        let op = if k == KEYS[K_BOOL] && !matches!(op, BinOp::Eq | BinOp::Ne) { BinOp::Eq } else { op };
        Some(Expr::bin(op, Expr::prop(&v, k), Expr::Lit(lit)))
    }

    pub fn expr(&mut self, env: &Env, ty: Ty, d: u32) -> Expr {
        let pred = std::mem::replace(&mut self.pred_ok, false);
        if d == 0 {
            return match ty {
                Ty::List(el) => self.list_expr(env, el, 0),
                Ty::Node | Ty::Rel | Ty::Bag(_) | Ty::Map | Ty::Opaque => self.var_of(env, ty).unwrap_or(Expr::Lit(PV::Null)),
                _ => self.leaf(env, ty),
            };
        }
        match ty {
            Ty::Bool => {
                let has_node = env.has(Ty::Node);
                let has_rel = env.has(Ty::Rel);
                let c = self.t.weighted(&[4, 10, 6, 4, 4, 3, 3, 3, if has_node && pred { 4 } else { 0 }, if has_node && pred { 4 } else { 0 }, 2, 2, if has_rel { 2 } else { 0 }]);
                match c {
                    1 => {
                        // comparison
                        let t = self.scalar_ty();
                        let ordered = matches!(t, Ty::Int | Ty::Float | Ty::Str) || (t == Ty::Any && self.t.chance(30));
                        let ops: &[BinOp] = if ordered { &[BinOp::Eq, BinOp::Lt, BinOp::Ne, BinOp::Le, BinOp::Gt, BinOp::Ge] } else { &[BinOp::Eq, BinOp::Ne] };
                        let op = *self.t.pick(ops);
                        // mixing int and float operands exercises exact numeric comparison
                        let t2 = if matches!(t, Ty::Int | Ty::Float) && self.t.chance(25) { if t == Ty::Int { Ty::Float } else { Ty::Int } } else { t };
                        let a = self.expr(env, t, d - 1);
                        let b = self.expr(env, t2, d - 1);
                        Expr::bin(op, a, b)
                    }
                    2 => {
                        let op = *self.t.pick(&[BinOp::And, BinOp::Or, BinOp::Xor]);
                        self.pred_ok = pred;
                        let a = self.expr(env, Ty::Bool, d - 1);
                        self.pred_ok = pred;
                        let b = self.expr(env, Ty::Bool, d - 1);
                        Expr::bin(op, a, b)
                    }
                    3 => {
                        self.pred_ok = pred;
                        let a = self.expr(env, Ty::Bool, d - 1);
                        Expr::un(UnOp::Not, a)
                    }
                    4 => {
                        let t = self.scalar_ty();
                        let a = self.expr(env, t, d - 1);
                        let op = if self.t.chance(40) { UnOp::IsNotNull } else { UnOp::IsNull };
                        Expr::un(op, a)
                    }
                    5 => {
                        let el = *self.t.pick(&[Elem::Int, Elem::Str, Elem::Any, Elem::Float]);
                        let a = self.expr(env, Ty::of_elem(el), d - 1);
                        let bags: Vec<String> = env.vars.iter().filter(|(_, t)| *t == Ty::Bag(el)).map(|(n, _)| n.clone()).collect();
                        let l = if !bags.is_empty() && self.t.chance(40) { Expr::var(&bags[self.t.draw(bags.len())]) } else { self.list_expr(env, el, d - 1) };
                        Expr::bin(BinOp::In, a, l)
                    }
                    6 => {
                        let op = *self.t.pick(&[BinOp::StartsWith, BinOp::EndsWith, BinOp::Contains]);
                        let a = self.expr(env, Ty::Str, d - 1);
                        let b = if self.t.chance(15) { self.expr(env, Ty::Any, 0) } else { self.expr(env, Ty::Str, d - 1) };
                        Expr::bin(op, a, b)
                    }
                    7 => self.case_expr(env, Ty::Bool, d),
                    8 => {
                        let v = self.var_of(env, Ty::Node).unwrap();
                        let n = 1 + self.t.draw(2);
                        let ls = (0..n).map(|_| self.t.pick(&LABELS).to_string()).collect();
                        Expr::HasLabel(Box::new(v), ls)
                    }
                    9 => match self.pattern_pred(env) {
                        Some(e) => e,
                        None => self.leaf(env, Ty::Bool),
                    },
                    10 => {
                        let a = self.expr(env, Ty::Bool, d - 1);
                        let b = self.expr(env, Ty::Bool, d - 1);
                        Expr::func("coalesce", vec![a, b])
                    }
                    11 => {
                        // label membership through labels()
                        match self.var_of(env, Ty::Node) {
                            Some(v) => {
                                let l = self.t.pick(&LABELS).to_string();
                                Expr::bin(BinOp::In, Expr::Lit(PV::Str(l)), Expr::func("labels", vec![v]))
                            }
                            None => self.leaf(env, Ty::Bool),
                        }
                    }
                    12 => {
                        let v = self.var_of(env, Ty::Rel).unwrap();
                        let t = self.t.pick(&TYPES).to_string();
                        Expr::bin(BinOp::Eq, Expr::func("type", vec![v]), Expr::Lit(PV::Str(t)))
                    }
                    _ => self.leaf(env, Ty::Bool),
                }
            }
            Ty::Int => {
                let has_node = env.has(Ty::Node);
                let c = self.t.weighted(&[6, 6, 3, 2, 3, 2, 2, if has_node { 2 } else { 0 }, 2, 2]);
                match c {
                    1 => {
                        let op = *self.t.pick(&[BinOp::Add, BinOp::Sub, BinOp::Mul]);
                        let a = self.expr(env, Ty::Int, d - 1);
                        let b = self.expr(env, Ty::Int, d - 1);
                        Expr::bin(op, a, b)
                    }
                    2 => {
                        let op = *self.t.pick(&[BinOp::Div, BinOp::Mod]);
                        let a = self.expr(env, Ty::Int, d - 1);
                        let b = if self.opts.raising && self.t.chance(30) { self.expr(env, Ty::Int, 0) } else { Expr::int(*self.t.pick(&[2i64, 3, -2, 1])) };
                        Expr::bin(op, a, b)
                    }
                    3 => {
                        let a = self.expr(env, Ty::Int, d - 1);
                        Expr::un(UnOp::Neg, a)
                    }
                    4 => {
                        if self.t.chance(50) {
                            let a = self.expr(env, Ty::Str, d - 1);
                            Expr::func("size", vec![a])
                        } else {
                            let el = *self.t.pick(&[Elem::Int, Elem::Str]);
                            let bags: Vec<String> = env.vars.iter().filter(|(_, t)| matches!(t, Ty::Bag(_))).map(|(n, _)| n.clone()).collect();
                            let a = if !bags.is_empty() && self.t.chance(50) { Expr::var(&bags[self.t.draw(bags.len())]) } else { self.list_expr(env, el, d - 1) };
                            Expr::func("size", vec![a])
                        }
                    }
                    5 => {
                        let f = *self.t.pick(&["abs", "sign", "toInteger"]);
                        let t = if f == "abs" || self.t.chance(60) { Ty::Int } else { Ty::Float };
                        let a = self.expr(env, t, d - 1);
                        // toInteger of NaN/inf is outside the fragment: only integers there
                        if f == "toInteger" && t == Ty::Float { Expr::func("sign", vec![a]) } else { Expr::func(f, vec![a]) }
                    }
                    6 => {
                        let l = self.list_expr(env, Elem::Int, d - 1);
                        let i = if self.t.chance(70) { Expr::int(self.t.draw(4) as i64 - 1) } else { self.expr(env, Ty::Int, d - 1) };
                        Expr::Index(Box::new(l), Box::new(i))
                    }
                    7 => {
                        let v = self.var_of(env, Ty::Node).unwrap();
                        if self.t.chance(50) { Expr::func("id", vec![v]) } else { Expr::func("size", vec![Expr::func("labels", vec![v])]) }
                    }
                    8 => self.case_expr(env, Ty::Int, d),
                    9 => {
                        let a = self.expr(env, Ty::Int, d - 1);
                        let b = self.expr(env, Ty::Int, d - 1);
                        Expr::func("coalesce", vec![a, b])
                    }
                    _ => self.leaf(env, Ty::Int),
                }
            }
            Ty::Float => {
                let c = self.t.weighted(&[6, 6, 2, 2, 2, 2, 1]);
                match c {
                    1 => {
                        let op = *self.t.pick(&[BinOp::Add, BinOp::Sub, BinOp::Mul, BinOp::Div]);
                        let a = self.expr(env, Ty::Float, d - 1);
                        let tb = if self.t.chance(30) { Ty::Int } else { Ty::Float };
                        let b = self.expr(env, tb, d - 1);
                        Expr::bin(op, a, b)
                    }
                    2 => {
                        let a = self.expr(env, Ty::Int, d - 1);
                        Expr::func("toFloat", vec![a])
                    }
                    3 => {
                        let a = self.expr(env, Ty::Float, d - 1);
                        let f = *self.t.pick(&["abs", "ceil", "floor"]);
                        Expr::func(f, vec![a])
                    }
                    4 => {
                        let a = self.expr(env, Ty::Int, d - 1);
                        let b = Expr::int(*self.t.pick(&[2i64, 0, 1, 3]));
                        Expr::bin(BinOp::Pow, a, b)
                    }
                    5 => {
                        let a = self.expr(env, Ty::Float, d - 1);
                        let b = self.expr(env, Ty::Float, d - 1);
                        Expr::func("coalesce", vec![a, b])
                    }
                    6 => {
                        let a = self.expr(env, Ty::Float, d - 1);
                        Expr::un(UnOp::Neg, a)
                    }
                    _ => self.leaf(env, Ty::Float),
                }
            }
            Ty::Str => {
                let has_rel = env.has(Ty::Rel);
                let c = self.t.weighted(&[6, 4, 3, 4, 3, 2, if has_rel { 2 } else { 0 }, 2]);
                match c {
                    1 => {
                        let a = self.expr(env, Ty::Str, d - 1);
                        let b = self.expr(env, Ty::Str, d - 1);
                        Expr::bin(BinOp::Add, a, b)
                    }
                    2 => {
                        let t = *self.t.pick(&[Ty::Int, Ty::Bool, Ty::Str]);
                        let a = self.expr(env, t, d - 1);
                        Expr::func("toString", vec![a])
                    }
                    3 => {
                        let a = self.expr(env, Ty::Str, d - 1);
                        let f = *self.t.pick(&["toUpper", "toLower", "reverse", "trim"]);
                        Expr::func(f, vec![a])
                    }
                    4 => {
                        let a = self.expr(env, Ty::Str, d - 1);
                        match self.t.draw(3) {
                            0 => {
                                let s = self.nonneg_small();
                                let l = self.nonneg_small();
                                Expr::func("substring", vec![a, s, l])
                            }
                            1 => {
                                let l = self.nonneg_small();
                                Expr::func("left", vec![a, l])
                            }
                            _ => {
                                let l = self.nonneg_small();
                                Expr::func("right", vec![a, l])
                            }
                        }
                    }
                    5 => self.case_expr(env, Ty::Str, d),
                    6 => {
                        let v = self.var_of(env, Ty::Rel).unwrap();
                        Expr::func("type", vec![v])
                    }
                    7 => {
                        let a = self.expr(env, Ty::Str, d - 1);
                        let b = self.expr(env, Ty::Str, d - 1);
                        Expr::func("coalesce", vec![a, b])
                    }
                    _ => self.leaf(env, Ty::Str),
                }
            }
            Ty::Any => {
                let t = *self.t.pick(&[Ty::Any, Ty::Int, Ty::Str, Ty::Bool, Ty::Float]);
                if t == Ty::Any { self.leaf(env, Ty::Any) } else { self.expr(env, t, d - 1) }
            }
            Ty::List(el) => self.list_expr(env, el, d),
            _ => self.expr(env, ty, 0),
        }
    }

    fn case_expr(&mut self, env: &Env, ty: Ty, d: u32) -> Expr {
        let simple = self.t.chance(40);
        let n = 1 + self.t.draw(2);
        if simple {
            let st = *self.t.pick(&[Ty::Int, Ty::Str, Ty::Any]);
            let s = self.expr(env, st, d - 1);
            let mut whens = Vec::new();
            for _ in 0..n {
                let w = self.expr(env, st, 0);
                let t = self.expr(env, ty, d - 1);
                whens.push((w, t));
            }
            let else_ = if self.t.chance(60) { Some(Box::new(self.expr(env, ty, d - 1))) } else { None };
            Expr::Case { scrutinee: Some(Box::new(s)), whens, else_ }
        } else {
            let mut whens = Vec::new();
            for _ in 0..n {
                let w = self.expr(env, Ty::Bool, d - 1);
                let t = self.expr(env, ty, d - 1);
                whens.push((w, t));
            }
            let else_ = if self.t.chance(60) { Some(Box::new(self.expr(env, ty, d - 1))) } else { None };
            Expr::Case { scrutinee: None, whens, else_ }
        }
    }

    // -------------------------------------------------------------- patterns

    fn node_pat(&mut self, env: &mut Env, scope_nodes: &mut Vec<String>, allow_reuse: bool, force_new_var: bool) -> NodePat {
        let mut var = None;
        if allow_reuse && !scope_nodes.is_empty() && self.t.chance(if self.opts.sparse { 8 } else { 14 }) {
            var = Some(scope_nodes[self.t.draw(scope_nodes.len())].clone());
            self.feat.join = true;
            // a re-used variable keeps its constraints; none added here
            return NodePat { var, labels: vec![], props: vec![] };
        }
        if force_new_var || self.t.chance(75) {
            let v = self.fresh("n");
            env.vars.push((v.clone(), Ty::Node));
            scope_nodes.push(v.clone());
            var = Some(v);
        }
        let mut labels = Vec::new();
        let nl = if self.opts.sparse { self.t.weighted(&[82, 16, 2]) } else { self.t.weighted(&[68, 28, 4]) };
        for _ in 0..nl {
            let l = if self.t.chance(2) { "Z".to_string() } else { self.t.pick(&LABELS).to_string() };
            if !labels.contains(&l) {
                labels.push(l);
            }
        }
        let mut props = Vec::new();
        if self.t.chance(if self.opts.sparse { 3 } else { 7 }) {
            self.feat.pat_props = true;
            let (k, e) = match self.t.draw(3) {
                0 => (KEYS[K_INT], self.int_lit()),
                1 => (KEYS[K_STR], self.str_lit()),
                _ => (KEYS[K_BOOL], Expr::Lit(PV::Bool(self.t.draw(2) == 1))),
            };
            props.push((k.to_string(), e));
        }
        NodePat { var, labels, props }
    }

    fn rel_pat(&mut self, env: &mut Env, allow_varlen: bool) -> RelPat {
        let dir = *self.t.pick(&[Dir::Out, Dir::In, Dir::Both]);
        if dir == Dir::Both {
            self.feat.undirected = true;
        }
        let mut types = Vec::new();
        let nt = if self.opts.sparse { self.t.weighted(&[68, 24, 8]) } else { self.t.weighted(&[58, 32, 10]) };
        for _ in 0..nt {
            let t = if self.t.chance(2) { "ZZ".to_string() } else { self.t.pick(&TYPES).to_string() };
            if !types.contains(&t) {
                types.push(t);
            }
        }
        let range = if allow_varlen && self.t.chance(16) {
            self.feat.varlen = true;
            Some(match self.t.draw(6) {
                0 => Range { min: Some(1), max: Some(2), exact: false },
                1 => Range { min: Some(0), max: Some(1), exact: false },
                2 => Range { min: Some(2), max: Some(2), exact: true },
                3 => Range { min: None, max: Some(2), exact: false },
                4 => Range { min: Some(0), max: Some(2), exact: false },
                _ => Range { min: Some(1), max: Some(3), exact: false },
            })
        } else {
            None
        };
        let mut var = None;
        if self.t.chance(55) {
            let v = self.fresh("r");
            env.vars.push((v.clone(), if range.is_some() { Ty::List(Elem::Rel) } else { Ty::Rel }));
            var = Some(v);
        }
        let mut props = Vec::new();
        if self.t.chance(7) {
            self.feat.pat_props = true;
            props.push((KEYS[K_INT].to_string(), self.int_lit()));
        }
        RelPat { var, types, dir, range, props }
    }

    fn path_pat(&mut self, env: &mut Env, scope_nodes: &mut Vec<String>, anchor: bool) -> PathPat {
        let steps_n = self.t.weighted(&[30, 45, 20, 5]);
        let before: Vec<String> = scope_nodes.clone();
        let start = if anchor && !scope_nodes.is_empty() {
            let v = scope_nodes[self.t.draw(scope_nodes.len())].clone();
            self.feat.join = true;
            NodePat { var: Some(v), labels: vec![], props: vec![] }
        } else {
            self.node_pat(env, scope_nodes, true, steps_n == 0)
        };
        let mut steps = Vec::new();
        for _ in 0..steps_n {
            self.feat.rel_pattern = true;
            let r = self.rel_pat(env, true);
            let n = self.node_pat(env, scope_nodes, true, false);
            steps.push((r, n));
        }
        if steps_n >= 2 {
            self.feat.multi_hop = true;
        }
        let bound = |v: &Option<String>| v.as_ref().is_some_and(|x| before.contains(x));
        if self.opts.excl_reanchored_varlen && !bound(&start.var) && steps.last().is_some_and(|(_, n)| bound(&n.var)) {
            for (r, _) in steps.iter_mut() {
                if r.range.is_some() {
                    if let Some(v) = r.var.take() {
                        env.vars.retain(|(n, _)| *n != v);
                        self.feat.excluded.push("named-varlen-relationship-in-reanchored-pattern".into());
                    }
                }
            }
        }
        PathPat { start, steps }
    }

    fn match_clause(&mut self, env: &mut Env, optional: bool) -> Clause {
        let mut scope_nodes: Vec<String> = env.of(Ty::Node).into_iter().cloned().collect();
        let vars_before = env.vars.len();
        let np = self.t.weighted(&[80, 20]) + 1;
        let mut pats = Vec::new();
        for i in 0..np {
            let anchor = (optional && i == 0 && self.t.chance(75)) || (i > 0 && self.t.chance(35));
            pats.push(self.path_pat(env, &mut scope_nodes, anchor));
        }
        if np > 1 {
            self.feat.multi_path = true;
        }
        if optional {
            self.feat.optional = true;
            for (n, _) in env.vars[vars_before..].to_vec() {
                env.nullable.insert(n);
            }
        }
        let where_ = if self.t.chance(if self.opts.sparse { 18 } else { 42 }) {
            self.feat.where_ = true;
            Some(self.predicate(env, 2))
        } else {
            None
        };
        Clause::Match { optional, pats, where_ }
    }

    fn unwind_clause(&mut self, env: &mut Env) -> Clause {
        self.feat.unwind = true;
        // unwinding a collected bag or a relationship list is order-insensitive, hence fine
        let bags: Vec<(String, Elem)> = env
            .vars
            .iter()
            .filter_map(|(n, t)| match t {
                Ty::Bag(e) | Ty::List(e) => Some((n.clone(), *e)),
                _ => None,
            })
            .collect();
        let var = self.fresh("x");
        if !bags.is_empty() && self.t.chance(50) {
            let (n, e) = bags[self.t.draw(bags.len())].clone();
            env.vars.push((var.clone(), Ty::of_elem(e)));
            return Clause::Unwind { e: Expr::var(&n), var };
        }
        let el = *self.t.pick(&[Elem::Int, Elem::Str, Elem::Any, Elem::Float]);
        let e = if !self.opts.sparse && self.t.chance(5) { Expr::Lit(PV::Null) } else { self.list_expr(env, el, 1) };
        env.vars.push((var.clone(), Ty::of_elem(el)));
        Clause::Unwind { e, var }
    }

    /// projection item of a chosen kind; returns (expr, type, column kind)
    fn proj_item(&mut self, env: &Env) -> (Expr, Ty, ColKind) {
        let ents = env.entities();
        let c = self.t.weighted(&[if env.vars.is_empty() { 0 } else { 5 }, 6, if ents.is_empty() { 0 } else { 2 }, 1]);
        match c {
            0 => {
                let (n, t) = env.vars[self.t.draw(env.vars.len())].clone();
                let k = if matches!(t, Ty::Bag(_)) { ColKind::Bag } else { ColKind::Exact };
                (Expr::var(&n), t, k)
            }
            2 => {
                let (v, t) = ents[self.t.draw(ents.len())];
                let v = Expr::var(v);
                match self.t.draw(4) {
                    0 if t == Ty::Node => (Expr::func("labels", vec![v]), Ty::Bag(Elem::Str), ColKind::Bag),
                    1 => (Expr::func("properties", vec![v]), Ty::Map, ColKind::Exact),
                    2 => (Expr::func("keys", vec![v]), Ty::Bag(Elem::Str), ColKind::Bag),
                    _ => (Expr::Prop(Box::new(v), KEYS[K_OPQ].to_string()), Ty::Opaque, ColKind::Exact),
                }
            }
            3 => {
                let el = *self.t.pick(&[Elem::Int, Elem::Str]);
                (self.list_expr(env, el, 1), Ty::List(el), ColKind::Exact)
            }
            _ => {
                let t = self.scalar_ty();
                (self.expr(env, t, 2), t, ColKind::Exact)
            }
        }
    }

    fn agg_item(&mut self, env: &Env) -> (Expr, Ty, ColKind) {
        let c = self.t.weighted(&[4, 4, 3, 2, 3, 3, 3]);
        let distinct = self.t.chance(22);
        let mk = |f: AggF, distinct: bool, a: Expr| Expr::Agg { f, distinct, arg: Some(Box::new(a)) };
        match c {
            0 => (Expr::Agg { f: AggF::Count, distinct: false, arg: None }, Ty::Int, ColKind::Exact),
            1 => {
                let (a, _) = self.agg_arg(env, true);
                (mk(AggF::Count, distinct, a), Ty::Int, ColKind::Exact)
            }
            2 => {
                if self.t.chance(70) {
                    let a = self.expr(env, Ty::Int, 1);
                    (mk(AggF::Sum, distinct, a), Ty::Int, ColKind::Exact)
                } else {
                    let a = self.expr(env, Ty::Float, 1);
                    (mk(AggF::Sum, distinct, a), Ty::Float, ColKind::Approx)
                }
            }
            3 => {
                let t = if self.t.chance(60) { Ty::Int } else { Ty::Float };
                let a = self.expr(env, t, 1);
                (mk(AggF::Avg, distinct, a), Ty::Float, ColKind::Approx)
            }
            4 | 5 => {
                let t = *self.t.pick(&[Ty::Int, Ty::Str, Ty::Float, Ty::Bool]);
                let a = self.expr(env, t, 1);
                (mk(if c == 4 { AggF::Min } else { AggF::Max }, distinct, a), t, ColKind::Exact)
            }
            _ => {
                let (a, t) = self.agg_arg(env, false);
                let el = t.as_elem().unwrap_or(Elem::Any);
                (mk(AggF::Collect, distinct, a), Ty::Bag(el), ColKind::Bag)
            }
        }
    }

    /// argument of count / collect: a scalar expression or an entity variable
    fn agg_arg(&mut self, env: &Env, any_var: bool) -> (Expr, Ty) {
        let ents = env.entities();
        if !ents.is_empty() && self.t.chance(35) {
            let (v, t) = ents[self.t.draw(ents.len())];
            return (Expr::var(v), t);
        }
        let _ = any_var;
        let t = self.scalar_ty();
        (self.expr(env, t, 1), t)
    }

    /// RETURN / WITH projection. `is_with`: aliases become the variables of the new scope.
    fn projection(&mut self, env: &Env, is_with: bool) -> (Proj, Env, Vec<ColKind>) {
        let mut p = Proj::default();
        let mut out_env = Env::default();
        let mut kinds = Vec::new();
        let mode = self.t.weighted(&[60, if self.opts.agg { 25 } else { 0 }, if self.opts.distinct { 15 } else { 0 }]);
        let mut name = |g: &mut Self| if is_with { g.fresh("w") } else { g.col() };
        if mode == 1 {
            self.feat.agg = true;
            let nk = self.t.weighted(&[35, 50, 15]);
            for _ in 0..nk {
                // grouping keys: scalars of one kind, or entities
                let ents = env.entities();
                let (e, t) = if !ents.is_empty() && self.t.chance(30) {
                    let (v, t) = ents[self.t.draw(ents.len())];
                    (Expr::var(v), t)
                } else {
                    let t = *self.t.pick(&[Ty::Int, Ty::Str, Ty::Bool, Ty::Any, Ty::Float]);
                    (self.expr(env, t, 1), t)
                };
                let a = name(self);
                out_env.vars.push((a.clone(), t));
                kinds.push(ColKind::Exact);
                p.items.push((e, a));
            }
            let na = 1 + self.t.weighted(&[70, 30]);
            for _ in 0..na {
                let (e, t, k) = self.agg_item(env);
                let a = name(self);
                out_env.vars.push((a.clone(), t));
                kinds.push(k);
                p.items.push((e, a));
            }
        } else {
            if mode == 2 {
                self.feat.distinct = true;
                p.distinct = true;
            }
            let n = 1 + self.t.weighted(&[35, 35, 20, 10]);
            for _ in 0..n {
                let (mut e, mut t, mut k) = self.proj_item(env);
                if p.distinct && k == ColKind::Bag {
                    // the element order of labels()/keys()/collect() is not determined, so
                    // DISTINCT over such a list has no single answer
                    e = Expr::func("size", vec![e]);
                    t = Ty::Int;
                    k = ColKind::Exact;
                }
                let a = name(self);
                out_env.vars.push((a.clone(), t));
                kinds.push(k);
                p.items.push((e, a));
            }
            // keep entities flowing through WITH so that later clauses have something to use
            if is_with {
                for (v, t) in env.entities() {
                    if self.t.chance(60) && !p.items.iter().any(|(e, _)| *e == Expr::var(v)) {
                        let a = name(self);
                        out_env.vars.push((a.clone(), t));
                        kinds.push(ColKind::Exact);
                        p.items.push((Expr::var(v), a));
                    }
                }
            }
        }
        for (e, a) in &p.items {
            if let Expr::Var(v) = e {
                if env.nullable.contains(v) {
                    out_env.nullable.insert(a.clone());
                }
            }
        }
        // ORDER BY over orderable projected columns (and, for plain projections, over the old scope)
        let orderable: Vec<(String, Ty)> = out_env.vars.iter().filter(|(_, t)| t.orderable()).cloned().collect();
        let mut ordered = false;
        if self.opts.order && self.t.chance(if is_with { 25 } else { 40 }) {
            let nk = 1 + self.t.weighted(&[65, 35]);
            for _ in 0..nk {
                let desc = self.t.chance(35);
                if !orderable.is_empty() && self.t.chance(75) {
                    let (n, _) = &orderable[self.t.draw(orderable.len())];
                    p.order.push((Expr::var(n), desc));
                } else if mode == 0 && !env.vars.is_empty() {
                    let t = *self.t.pick(&[Ty::Int, Ty::Str, Ty::Float, Ty::Bool]);
                    let e = self.expr(env, t, 1);
                    p.order.push((e, desc));
                }
            }
            // often make the order total with an id tie-breaker
            if mode == 0 && self.t.chance(50) {
                for (v, t) in env.entities() {
                    if t == Ty::Node {
                        p.order.push((Expr::func("id", vec![Expr::var(v)]), false));
                    }
                }
            }
            ordered = !p.order.is_empty();
            if ordered {
                self.feat.order = true;
            }
        }
        if self.opts.slicing && self.t.chance(if ordered { 45 } else if is_with { 4 } else { 18 }) {
            self.feat.slicing = true;
            if self.t.chance(45) {
                let v = self.t.draw(4) as i64;
                p.skip = Some(self.value(PV::Int(v)));
            }
            if p.skip.is_none() || self.t.chance(60) {
                let v = self.t.draw(6) as i64;
                p.limit = Some(self.value(PV::Int(v)));
            }
        }
        (p, out_env, kinds)
    }

    fn with_clause(&mut self, env: &mut Env) -> Clause {
        self.feat.with = true;
        let (p, new_env, _) = self.projection(env, true);
        *env = new_env;
        let where_ = if self.t.chance(30) {
            self.feat.where_ = true;
            Some(self.predicate(env, 2))
        } else {
            None
        };
        Clause::With { p, where_ }
    }

    /// reading clauses of one query part
    pub fn reading_clauses(&mut self, env: &mut Env) -> Vec<Clause> {
        let mut cs = Vec::new();
        let n = 1 + if self.opts.sparse { self.t.weighted(&[55, 32, 10, 3]) } else { self.t.weighted(&[45, 35, 15, 5]) };
        for i in 0..n {
            let c = self.t.weighted(&[50, if i > 0 { 25 } else { 8 }, 10, if self.opts.with && i > 0 { 15 } else { 0 }]);
            let cl = match c {
                1 => self.match_clause(env, true),
                2 => self.unwind_clause(env),
                3 => self.with_clause(env),
                _ => self.match_clause(env, false),
            };
            cs.push(cl);
        }
        cs
    }

    pub fn read_query(&mut self) -> (RQuery, Vec<ColKind>) {
        let mut env = Env::default();
        let mut cs = self.reading_clauses(&mut env);
        let (p, out_env, kinds) = self.projection(&env, false);
        cs.push(Clause::Return { p: p.clone() });
        if self.opts.union && self.t.chance(8) {
            self.feat.union = true;
            // second branch with the same column names and compatible kinds
            let mut env2 = Env::default();
            let mut cs2 = self.reading_clauses(&mut env2);
            let mut p2 = Proj::default();
            let mut kinds2 = kinds.clone();
            for (i, ((_, alias), (_, t))) in p.items.iter().zip(&out_env.vars).enumerate() {
                let (e, k) = match t {
                    Ty::Node | Ty::Rel | Ty::Bag(_) | Ty::Map | Ty::Opaque | Ty::List(_) => match self.var_of(&env2, *t) {
                        Some(v) => (v, kinds[i]),
                        None => (Expr::Lit(PV::Null), kinds[i]),
                    },
                    st => (self.expr(&env2, *st, 1), ColKind::Exact),
                };
                if k == ColKind::Bag {
                    kinds2[i] = ColKind::Bag;
                }
                p2.items.push((e, alias.clone()));
            }
            cs2.push(Clause::Return { p: p2 });
            let all = self.t.chance(50);
            return (RQuery { parts: vec![cs, cs2], union_all: all }, kinds2);
        }
        (RQuery::single(cs), kinds)
    }
}

/// Kinds of the variables a clause list leaves in scope (used by C19 to return every variable).
pub fn env_kind(env: &Env, v: &str) -> ColKind {
    match env.get(v) {
        Some(Ty::Bag(_)) => ColKind::Bag,
        _ => ColKind::Exact,
    }
}

pub fn tape() -> impl Strategy<Value = Vec<u16>> {
    prop::collection::vec(any::<u16>(), 0..220)
}

// ------------------------------------------------------------------ update statements (C12)

impl<'a> Gen<'a> {
    fn key_and_type(&mut self) -> (&'static str, Ty) {
        let i = *self.t.pick(&[K_INT, K_STR, K_BOOL, K_FLOAT, K_ANY]);
        (KEYS[i], match i {
            K_INT => Ty::Int,
            K_STR => Ty::Str,
            K_BOOL => Ty::Bool,
            K_FLOAT => Ty::Float,
            _ => Ty::Any,
        })
    }

    /// value for a property write; `env` holds only what the expression may read
    fn write_value(&mut self, env: &Env, ty: Ty) -> Expr {
        if self.t.chance(12) {
            return Expr::Lit(PV::Null);
        }
        self.expr(env, ty, 1)
    }

    fn write_props(&mut self, env: &Env, max: usize) -> Vec<(String, Expr)> {
        let n = self.t.draw(max + 1);
        let mut out: Vec<(String, Expr)> = Vec::new();
        for _ in 0..n {
            let (k, t) = self.key_and_type();
            if out.iter().any(|(x, _)| x == k) {
                continue;
            }
            let v = self.write_value(env, t);
            out.push((k.to_string(), v));
        }
        out
    }

    fn scalar_env(env: &Env) -> Env {
        Env { vars: env.vars.iter().filter(|(_, t)| t.scalar()).cloned().collect(), nullable: Default::default() }
    }

    fn new_node_pat(&mut self, env: &mut Env, read_env: &Env, merge: bool) -> NodePat {
        let v = self.fresh("n");
        env.vars.push((v.clone(), Ty::Node));
        let nl = self.t.weighted(&[25, 60, 15]);
        let mut labels = Vec::new();
        for _ in 0..nl {
            let l = self.t.pick(&LABELS).to_string();
            if !labels.contains(&l) {
                labels.push(l);
            }
        }
        let mut props = self.write_props(read_env, 2);
        if merge && !self.t.chance(3) {
            // a null property in MERGE is an error: keep that rare
            props.retain(|(_, e)| *e != Expr::Lit(PV::Null));
        }
        NodePat { var: Some(v), labels, props }
    }

    fn bound_node_pat(v: &str) -> NodePat {
        NodePat { var: Some(v.to_string()), labels: vec![], props: vec![] }
    }

    fn write_rel_pat(&mut self, env: &mut Env, read_env: &Env, merge: bool) -> RelPat {
        let var = if self.t.chance(45) {
            let v = self.fresh("r");
            env.vars.push((v.clone(), Ty::Rel));
            Some(v)
        } else {
            None
        };
        let mut props = self.write_props(read_env, 1);
        if merge {
            props.retain(|(_, e)| *e != Expr::Lit(PV::Null));
        }
        let dir = if self.t.chance(30) { Dir::In } else { Dir::Out };
        RelPat { var, types: vec![self.t.pick(&TYPES).to_string()], dir, range: None, props }
    }

    /// path for CREATE / MERGE: up to `max_steps` relationships; endpoints either new or bound
    fn write_path(&mut self, env: &mut Env, read_env: &Env, merge: bool, max_steps: usize) -> PathPat {
        let bound: Vec<String> = env.of(Ty::Node).into_iter().filter(|n| !env.nullable.contains(*n)).cloned().collect();
        let steps_n = if bound.is_empty() { self.t.weighted(&[45, 45, 10]) } else { self.t.weighted(&[10, 75, 15]) }.min(max_steps);
        let pick_end = |g: &mut Self, env: &mut Env, force_new: bool| -> NodePat {
            if !force_new && !bound.is_empty() && g.t.chance(65) { Self::bound_node_pat(&bound[g.t.draw(bound.len())]) } else { g.new_node_pat(env, read_env, merge) }
        };
        let start = pick_end(self, env, steps_n == 0);
        let mut steps = Vec::new();
        for _ in 0..steps_n {
            let r = self.write_rel_pat(env, read_env, merge);
            let n = pick_end(self, env, false);
            steps.push((r, n));
        }
        PathPat { start, steps }
    }

    fn set_items(&mut self, env: &Env, read_env: &Env, n: usize) -> Vec<SetItem> {
        let items = self.set_items_avoiding(env, read_env, n, &[]);
        Self::drop_dependent_replaces(items, &[])
    }

    /// SET after CREATE in one statement: `prefix` holds the variables bound before the CREATE
    fn set_items_after_create(&mut self, env: &Env, prefix: &Env, read_env: &Env, n: usize) -> Vec<SetItem> {
        let created: Vec<String> = env.vars.iter().filter(|(v, _)| prefix.get(v).is_none()).map(|(v, _)| v.clone()).collect();
        let items = self.set_items_avoiding(env, read_env, n, &[]);
        Self::drop_dependent_replaces(items, &created)
    }

    /// keys the MERGE pattern tests must not be rewritten by its ON CREATE / ON MATCH SET:
    /// later rows of the same clause would then depend on statement-internal visibility
    fn merge_pattern_keys(pat: &PathPat) -> Vec<String> {
        let mut ks: Vec<String> = pat.start.props.iter().map(|(k, _)| k.clone()).collect();
        // likewise the labels the pattern tests (entries `\0label:<L>`)
        ks.extend(pat.start.labels.iter().map(|l| format!("\u{0}label:{l}")));
        for (r, n) in &pat.steps {
            ks.extend(r.props.iter().map(|(k, _)| k.clone()));
            ks.extend(n.props.iter().map(|(k, _)| k.clone()));
            ks.extend(n.labels.iter().map(|l| format!("\u{0}label:{l}")));
        }
        ks
    }

    fn set_items_avoiding(&mut self, env: &Env, read_env: &Env, n: usize, avoid: &[String]) -> Vec<SetItem> {
        let mut items = self.set_items_raw(env, read_env, n);
        if !avoid.is_empty() {
            items.retain(|it| match it {
                SetItem::Prop { key, .. } => !avoid.contains(key),
                SetItem::Replace { .. } => false,
                SetItem::Merge { value: Expr::Map(m), .. } => !m.iter().any(|(k, _)| avoid.contains(k)),
                SetItem::Merge { .. } => false,
                SetItem::Labels { labels, .. } => !labels.iter().any(|l| avoid.contains(&format!("\u{0}label:{l}"))),
            });
        }
        items
    }

    /// `SET x = map` has to know the current keys of `x`; when `x` was created or written
    /// earlier in the same statement that is statement-internal visibility (C24's subject),
    /// so such items are left out
    fn drop_dependent_replaces(items: Vec<SetItem>, created: &[String]) -> Vec<SetItem> {
        let mut written: Vec<String> = created.to_vec();
        let mut out = Vec::new();
        for it in items {
            let target = match &it {
                SetItem::Prop { target, .. } | SetItem::Replace { target, .. } | SetItem::Merge { target, .. } | SetItem::Labels { target, .. } => target.clone(),
            };
            // (kept since the engine applies SET items and clauses in order: a map replacement
            // must also remove what the statement itself wrote before)
            let _ = matches!(it, SetItem::Replace { .. }) && written.contains(&target);
            written.push(target);
            out.push(it);
        }
        out
    }

    fn set_items_raw(&mut self, env: &Env, read_env: &Env, n: usize) -> Vec<SetItem> {
        let ents = env.entities();
        let mut out = Vec::new();
        if ents.is_empty() {
            return out;
        }
        for _ in 0..n {
            let (v, t) = ents[self.t.draw(ents.len())];
            let target = v.clone();
            let c = self.t.weighted(&[55, 12, 15, if t == Ty::Node { 18 } else { 0 }]);
            out.push(match c {
                1 => SetItem::Replace { target, value: Expr::Map(self.write_props(read_env, 2)) },
                2 => SetItem::Merge { target, value: Expr::Map(self.write_props(read_env, 2)) },
                3 => {
                    let nl = 1 + self.t.draw(2);
                    let mut labels = Vec::new();
                    for _ in 0..nl {
                        let l = self.t.pick(&LABELS).to_string();
                        if !labels.contains(&l) {
                            labels.push(l);
                        }
                    }
                    SetItem::Labels { target, labels }
                }
                _ => {
                    let (k, ty) = self.key_and_type();
                    let value = self.write_value(read_env, ty);
                    SetItem::Prop { target, key: k.to_string(), value }
                }
            });
        }
        out
    }

    /// MATCH/UNWIND prefix of an update statement
    fn update_prefix(&mut self, env: &mut Env) -> Vec<Clause> {
        let mut cs = Vec::new();
        let n = self.t.weighted(&[70, 25, 5]) + 1;
        for i in 0..n {
            let c = self.t.weighted(&[62, if i > 0 { 18 } else { 6 }, 20]);
            cs.push(match c {
                1 => self.match_clause(env, true),
                2 => self.unwind_clause(env),
                _ => self.match_clause(env, false),
            });
        }
        cs
    }

    fn remove_items(&mut self, env: &Env) -> Vec<RemoveItem> {
        let ents = env.entities();
        let mut items = Vec::new();
        if !ents.is_empty() {
            for _ in 0..1 + self.t.draw(2) {
                let (v, t) = ents[self.t.draw(ents.len())];
                if t == Ty::Node && self.t.chance(40) {
                    items.push(RemoveItem::Labels { target: v.clone(), labels: vec![self.t.pick(&LABELS).to_string()] });
                } else {
                    let (k, _) = self.key_and_type();
                    items.push(RemoveItem::Prop { target: v.clone(), key: k.to_string() });
                }
            }
        }
        items
    }

    pub fn update_statement(&mut self) -> Vec<Clause> {
        let mut env = Env::default();
        let kind = self.t.weighted(&[14, 14, 12, 10, 12, 16, 6, 10, 6, 10]);
        match kind {
            // standalone CREATE
            0 => {
                let read = Env::default();
                let np = 1 + self.t.weighted(&[75, 25]);
                let pats = (0..np).map(|_| self.write_path(&mut env, &read, false, 2)).collect();
                let mut cs = vec![Clause::Create { pats }];
                if self.t.chance(25) {
                    let k = 1 + self.t.draw(2);
                    let items = self.set_items_after_create(&env, &read, &read, k);
                    if !items.is_empty() {
                        cs.push(Clause::Set { items });
                    }
                }
                cs
            }
            // prefix + CREATE
            1 => {
                let mut cs = self.update_prefix(&mut env);
                let read = env.clone();
                let pats = vec![self.write_path(&mut env, &read, false, 2)];
                cs.push(Clause::Create { pats });
                if self.t.chance(25) {
                    let k = 1 + self.t.draw(2);
                    let items = self.set_items_after_create(&env, &read, &Self::scalar_env(&read), k);
                    if !items.is_empty() {
                        cs.push(Clause::Set { items });
                    }
                }
                cs
            }
            // UNWIND ... CREATE / MERGE of nodes keyed by the element
            2 => {
                let el = *self.t.pick(&[Elem::Int, Elem::Str]);
                let list = self.list_expr(&Env::default(), el, 1);
                let x = self.fresh("x");
                env.vars.push((x.clone(), Ty::of_elem(el)));
                let v = self.fresh("n");
                let label = self.t.pick(&LABELS).to_string();
                let key = if el == Elem::Int { KEYS[K_INT] } else { KEYS[K_STR] };
                let pat = PathPat { start: NodePat { var: Some(v.clone()), labels: vec![label], props: vec![(key.to_string(), Expr::var(&x))] }, steps: vec![] };
                let read = Self::scalar_env(&env);
                // the engine accepts only variables of the MERGE pattern in ON CREATE / ON MATCH
                let env = Env { vars: vec![(v, Ty::Node)], nullable: Default::default() };
                let mut cs = vec![Clause::Unwind { e: list, var: x }];
                if self.t.chance(65) {
                    let avoid = Self::merge_pattern_keys(&pat);
                    let on_create = if self.t.chance(50) { self.set_items_avoiding(&env, &read, 1, &avoid) } else { vec![] };
                    let on_match = if self.t.chance(50) { self.set_items_avoiding(&env, &read, 1, &avoid) } else { vec![] };
                    cs.push(Clause::Merge { pat, on_create, on_match });
                } else {
                    cs.push(Clause::Create { pats: vec![pat] });
                }
                cs
            }
            // standalone MERGE (node or one relationship between new/unbound nodes)
            3 => {
                let read = Env::default();
                let pat = self.write_path(&mut env, &read, true, 1);
                let mut avoid = Self::merge_pattern_keys(&pat);
                avoid.push("\u{0}labels-only-when-no-props".into());
                let on_create = if self.t.chance(45) { self.set_items_avoiding(&env, &read, 1, &avoid) } else { vec![] };
                let on_match = if self.t.chance(45) { self.set_items_avoiding(&env, &read, 1, &avoid) } else { vec![] };
                vec![Clause::Merge { pat, on_create, on_match }]
            }
            // prefix + MERGE
            4 => {
                let mut cs = self.update_prefix(&mut env);
                let read = Self::scalar_env(&env);
                let before = env.vars.len();
                let pat = self.write_path(&mut env, &read, true, 1);
                let env = Env { vars: env.vars[before..].to_vec(), nullable: Default::default() };
                let mut avoid = Self::merge_pattern_keys(&pat);
                avoid.push("\u{0}labels-only-when-no-props".into());
                let on_create = if self.t.chance(45) { self.set_items_avoiding(&env, &read, 1, &avoid) } else { vec![] };
                let on_match = if self.t.chance(45) { self.set_items_avoiding(&env, &read, 1, &avoid) } else { vec![] };
                cs.push(Clause::Merge { pat, on_create, on_match });
                cs
            }
            // prefix + SET
            5 => {
                let mut cs = self.update_prefix(&mut env);
                let read = Self::scalar_env(&env);
                let k = 1 + self.t.weighted(&[55, 30, 15]);
                let items = self.set_items(&env, &read, k);
                if items.is_empty() {
                    cs.push(Clause::Create { pats: vec![PathPat { start: NodePat::default(), steps: vec![] }] });
                } else {
                    cs.push(Clause::Set { items });
                }
                cs
            }
            // prefix + REMOVE
            6 => {
                let mut cs = self.update_prefix(&mut env);
                let items = self.remove_items(&env);
                if items.is_empty() {
                    cs.push(Clause::Create { pats: vec![PathPat { start: NodePat::default(), steps: vec![] }] });
                } else {
                    cs.push(Clause::Remove { items });
                }
                cs
            }
            // prefix + DELETE
            7 => {
                let mut cs = self.update_prefix(&mut env);
                let ents = env.entities();
                if ents.is_empty() {
                    cs.push(Clause::Create { pats: vec![PathPat { start: NodePat::default(), steps: vec![] }] });
                    return cs;
                }
                let n = 1 + self.t.weighted(&[70, 30]);
                let mut exprs: Vec<Expr> = Vec::new();
                let mut any_node = false;
                for _ in 0..n {
                    let (v, t) = ents[self.t.draw(ents.len())];
                    any_node |= t == Ty::Node;
                    let e = Expr::var(v);
                    if !exprs.contains(&e) {
                        exprs.push(e);
                    }
                }
                let detach = any_node && !self.t.chance(8);
                cs.push(Clause::Delete { detach, exprs });
                cs
            }
            // prefix + two or three SET / REMOVE clauses over the same variables: every clause
            // works on what the clauses before it left behind
            9 => {
                let mut cs = self.update_prefix(&mut env);
                let read = Self::scalar_env(&env);
                // (entities bound by the prefix; what the statement creates itself is never read)
                let prefix_env = env.clone();
                // sometimes the clauses also work on what a leading CREATE / MERGE of the same
                // statement made
                match self.t.weighted(&[60, 25, 15]) {
                    1 => {
                        let full = env.clone();
                        let pats = vec![self.write_path(&mut env, &full, false, 1)];
                        cs.push(Clause::Create { pats });
                    }
                    2 => {
                        let pat = self.write_path(&mut env, &read, true, 1);
                        cs.push(Clause::Merge { pat, on_create: vec![], on_match: vec![] });
                    }
                    _ => {}
                }
                let n = 2 + self.t.draw(2);
                let before = cs.len();
                // half of these statements may read properties of the entities they update: a
                // later clause then reads what an earlier clause wrote (reads inside the
                // writing clause are recognised by the reference and not decided)
                let reads_entities = self.t.chance(50);
                let scalar_read = read.clone();
                let read = if reads_entities { prefix_env.clone() } else { read };
                // a map replacement followed by a clause that reads the replaced entity
                if reads_entities && self.t.chance(35) {
                    let ents = prefix_env.entities();
                    if !ents.is_empty() {
                        let (v, _) = ents[self.t.draw(ents.len())];
                        let v = v.clone();
                        let map = self.write_props(&scalar_read, 2);
                        cs.push(Clause::Set { items: vec![SetItem::Replace { target: v.clone(), value: Expr::Map(map) }] });
                        let (k2, _) = self.key_and_type();
                        cs.push(Clause::Set { items: vec![SetItem::Prop { target: v.clone(), key: KEYS[K_ANY].to_string(), value: Expr::prop(&v, k2) }] });
                    }
                }
                for _ in 0..n {
                    if self.t.chance(50) {
                        let k = 1 + self.t.draw(2);
                        let items = self.set_items(&env, &read, k);
                        if !items.is_empty() {
                            cs.push(Clause::Set { items });
                        }
                    } else {
                        let items = self.remove_items(&env);
                        if !items.is_empty() {
                            cs.push(Clause::Remove { items });
                        }
                    }
                }
                if cs.len() == before {
                    cs.push(Clause::Create { pats: vec![PathPat { start: NodePat::default(), steps: vec![] }] });
                } else if self.t.chance(15) {
                    // ... and finally deletes one of the entities it has just updated
                    let ents = env.entities();
                    if !ents.is_empty() {
                        let (v, _) = ents[self.t.draw(ents.len())];
                        cs.push(Clause::Delete { detach: true, exprs: vec![Expr::var(v)] });
                    }
                }
                cs
            }
            // prefix + several update clauses
            _ => {
                let mut cs = self.update_prefix(&mut env);
                let read = Self::scalar_env(&env);
                let full = env.clone();
                let pats = vec![self.write_path(&mut env, &full, false, 1)];
                cs.push(Clause::Create { pats });
                let k = 1 + self.t.draw(2);
                let items = self.set_items_after_create(&env, &full, &read, k);
                if !items.is_empty() {
                    cs.push(Clause::Set { items });
                }
                cs
            }
        }
    }
}
