//! AST of the Cypher fragment covered by the reference evaluator. The generator emits only
//! this AST; `print.rs` renders it to text for the engine, `eval.rs` evaluates it directly
//! over `model::Model`, so the reference never parses.
use crate::pv::PV;
use serde::{Deserialize, Serialize};

#[derive(Debug, Clone, Copy, Serialize, Deserialize, PartialEq, Eq, Hash)]
pub enum Dir {
    Out,
    In,
    Both,
}

#[derive(Debug, Clone, Serialize, Deserialize, PartialEq, Default)]
pub struct NodePat {
    pub var: Option<String>,
    pub labels: Vec<String>,
    pub props: Vec<(String, Expr)>,
}

/// `*`, `*n`, `*m..`, `*..n`, `*m..n`
#[derive(Debug, Clone, Copy, Serialize, Deserialize, PartialEq, Eq)]
pub struct Range {
    pub min: Option<u32>,
    pub max: Option<u32>,
    /// print as `*n` (requires min == max)
    pub exact: bool,
}

#[derive(Debug, Clone, Serialize, Deserialize, PartialEq)]
pub struct RelPat {
    pub var: Option<String>,
    pub types: Vec<String>,
    pub dir: Dir,
    pub range: Option<Range>,
    pub props: Vec<(String, Expr)>,
}

#[derive(Debug, Clone, Serialize, Deserialize, PartialEq)]
pub struct PathPat {
    pub start: NodePat,
    pub steps: Vec<(RelPat, NodePat)>,
}

#[derive(Debug, Clone, Copy, Serialize, Deserialize, PartialEq, Eq, Hash)]
pub enum UnOp {
    Not,
    Neg,
    IsNull,
    IsNotNull,
}

#[derive(Debug, Clone, Copy, Serialize, Deserialize, PartialEq, Eq, Hash)]
pub enum BinOp {
    Or,
    Xor,
    And,
    Eq,
    Ne,
    Lt,
    Le,
    Gt,
    Ge,
    Add,
    Sub,
    Mul,
    Div,
    Mod,
    Pow,
    In,
    StartsWith,
    EndsWith,
    Contains,
}

#[derive(Debug, Clone, Copy, Serialize, Deserialize, PartialEq, Eq, Hash)]
pub enum AggF {
    Count,
    Sum,
    Avg,
    Min,
    Max,
    Collect,
}

#[derive(Debug, Clone, Serialize, Deserialize, PartialEq)]
pub enum Expr {
    Lit(PV),
    Param(String),
    Var(String),
    Prop(Box<Expr>, String),
    Un(UnOp, Box<Expr>),
    Bin(BinOp, Box<Expr>, Box<Expr>),
    Index(Box<Expr>, Box<Expr>),
    Slice(Box<Expr>, Option<Box<Expr>>, Option<Box<Expr>>),
    List(Vec<Expr>),
    Map(Vec<(String, Expr)>),
    Func(String, Vec<Expr>),
    /// `arg == None` is `count(*)`
    Agg { f: AggF, distinct: bool, arg: Option<Box<Expr>> },
    Case { scrutinee: Option<Box<Expr>>, whens: Vec<(Expr, Expr)>, else_: Option<Box<Expr>> },
    /// `n:A:B`
    HasLabel(Box<Expr>, Vec<String>),
    /// pattern predicate `(a)-[:T]->()` / `exists((a)-[:T]->())`
    PatPred(Box<PathPat>),
}

impl Expr {
    pub fn var(s: &str) -> Expr {
        Expr::Var(s.to_string())
    }
    pub fn prop(v: &str, k: &str) -> Expr {
        Expr::Prop(Box::new(Expr::var(v)), k.to_string())
    }
    pub fn int(i: i64) -> Expr {
        Expr::Lit(PV::Int(i))
    }
    pub fn bin(op: BinOp, a: Expr, b: Expr) -> Expr {
        Expr::Bin(op, Box::new(a), Box::new(b))
    }
    pub fn un(op: UnOp, a: Expr) -> Expr {
        Expr::Un(op, Box::new(a))
    }
    pub fn func(name: &str, args: Vec<Expr>) -> Expr {
        Expr::Func(name.to_string(), args)
    }
    pub fn and(a: Expr, b: Expr) -> Expr {
        Expr::bin(BinOp::And, a, b)
    }
    pub fn contains_agg(&self) -> bool {
        let mut found = false;
        self.walk(&mut |e| {
            if matches!(e, Expr::Agg { .. }) {
                found = true;
            }
        });
        found
    }
    pub fn walk(&self, f: &mut dyn FnMut(&Expr)) {
        f(self);
        match self {
            Expr::Lit(_) | Expr::Param(_) | Expr::Var(_) => {}
            Expr::Prop(a, _) | Expr::Un(_, a) | Expr::HasLabel(a, _) => a.walk(f),
            Expr::Bin(_, a, b) | Expr::Index(a, b) => {
                a.walk(f);
                b.walk(f);
            }
            Expr::Slice(a, b, c) => {
                a.walk(f);
                if let Some(b) = b {
                    b.walk(f);
                }
                if let Some(c) = c {
                    c.walk(f);
                }
            }
            Expr::List(l) | Expr::Func(_, l) => l.iter().for_each(|x| x.walk(f)),
            Expr::Map(m) => m.iter().for_each(|(_, x)| x.walk(f)),
            Expr::Agg { arg, .. } => {
                if let Some(a) = arg {
                    a.walk(f)
                }
            }
            Expr::Case { scrutinee, whens, else_ } => {
                if let Some(s) = scrutinee {
                    s.walk(f);
                }
                for (w, t) in whens {
                    w.walk(f);
                    t.walk(f);
                }
                if let Some(e) = else_ {
                    e.walk(f);
                }
            }
            Expr::PatPred(p) => {
                for (_, x) in &p.start.props {
                    x.walk(f);
                }
                for (r, n) in &p.steps {
                    for (_, x) in &r.props {
                        x.walk(f);
                    }
                    for (_, x) in &n.props {
                        x.walk(f);
                    }
                }
            }
        }
    }
}

#[derive(Debug, Clone, Serialize, Deserialize, PartialEq, Default)]
pub struct Proj {
    pub distinct: bool,
    /// `RETURN *` / `WITH *` (followed by `items`, if any)
    pub star: bool,
    pub items: Vec<(Expr, String)>,
    /// (key, descending)
    pub order: Vec<(Expr, bool)>,
    pub skip: Option<Expr>,
    pub limit: Option<Expr>,
}

impl Proj {
    pub fn has_agg(&self) -> bool {
        self.items.iter().any(|(e, _)| e.contains_agg())
    }
}

#[derive(Debug, Clone, Serialize, Deserialize, PartialEq)]
pub enum SetItem {
    /// `target.key = value` (target: variable bound to a node or relationship)
    Prop { target: String, key: String, value: Expr },
    /// `target = map`
    Replace { target: String, value: Expr },
    /// `target += map`
    Merge { target: String, value: Expr },
    /// `target:A:B`
    Labels { target: String, labels: Vec<String> },
}

#[derive(Debug, Clone, Serialize, Deserialize, PartialEq)]
pub enum RemoveItem {
    Prop { target: String, key: String },
    Labels { target: String, labels: Vec<String> },
}

#[derive(Debug, Clone, Serialize, Deserialize, PartialEq)]
pub enum Clause {
    Match { optional: bool, pats: Vec<PathPat>, where_: Option<Expr> },
    Unwind { e: Expr, var: String },
    With { p: Proj, where_: Option<Expr> },
    Return { p: Proj },
    Create { pats: Vec<PathPat> },
    Merge { pat: PathPat, on_create: Vec<SetItem>, on_match: Vec<SetItem> },
    Set { items: Vec<SetItem> },
    Remove { items: Vec<RemoveItem> },
    Delete { detach: bool, exprs: Vec<Expr> },
}

#[derive(Debug, Clone, Serialize, Deserialize, PartialEq)]
pub struct RQuery {
    /// one clause list per UNION branch
    pub parts: Vec<Vec<Clause>>,
    pub union_all: bool,
}

impl RQuery {
    pub fn single(clauses: Vec<Clause>) -> RQuery {
        RQuery { parts: vec![clauses], union_all: false }
    }
}
