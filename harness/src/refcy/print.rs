//! Pretty-printer from the reference AST to Cypher text.
//!
//! Parenthesisation is deliberately conservative: only left-nested chains of one
//! associative operator family and arithmetic below comparisons are printed bare, so the
//! text cannot be read differently from the tree (operator chains such as `a < b < c`,
//! `-x IS NULL` or `a + b IN l`, whose grouping differs between grammars, never occur).
use super::ast::*;
use crate::cy;
use crate::pv::PV;

// binding levels, low binds weakest
const L_OR: u8 = 1;
const L_XOR: u8 = 2;
const L_AND: u8 = 3;
const L_NOT: u8 = 4;
const L_CMP: u8 = 5;
const L_ADD: u8 = 6;
const L_MUL: u8 = 7;
const L_POW: u8 = 8;
const L_NEG: u8 = 9;
const L_ATOM: u8 = 11;

fn level(e: &Expr) -> u8 {
    match e {
        Expr::Lit(PV::Int(i)) if *i < 0 => L_NEG,
        Expr::Lit(PV::Float(b)) if f64::from_bits(*b).is_sign_negative() => L_NEG,
        Expr::Bin(op, ..) => match op {
            BinOp::Or => L_OR,
            BinOp::Xor => L_XOR,
            BinOp::And => L_AND,
            BinOp::Eq | BinOp::Ne | BinOp::Lt | BinOp::Le | BinOp::Gt | BinOp::Ge => L_CMP,
            // printed like comparisons so that they are parenthesised inside arithmetic/comparison
            BinOp::In | BinOp::StartsWith | BinOp::EndsWith | BinOp::Contains => L_CMP,
            BinOp::Add | BinOp::Sub => L_ADD,
            BinOp::Mul | BinOp::Div | BinOp::Mod => L_MUL,
            BinOp::Pow => L_POW,
        },
        Expr::Un(op, _) => match op {
            UnOp::Not => L_NOT,
            UnOp::Neg => L_NEG,
            UnOp::IsNull | UnOp::IsNotNull => L_CMP,
        },
        Expr::HasLabel(..) => L_CMP,
        Expr::PatPred(_) => L_CMP,
        _ => L_ATOM,
    }
}

pub fn ident(s: &str) -> String {
    let plain = !s.is_empty()
        && s.chars().all(|c| c.is_ascii_alphanumeric() || c == '_')
        && !s.chars().next().unwrap().is_ascii_digit();
    if plain { s.to_string() } else { format!("`{}`", s.replace('`', "``")) }
}

fn op_text(op: BinOp) -> &'static str {
    match op {
        BinOp::Or => "OR",
        BinOp::Xor => "XOR",
        BinOp::And => "AND",
        BinOp::Eq => "=",
        BinOp::Ne => "<>",
        BinOp::Lt => "<",
        BinOp::Le => "<=",
        BinOp::Gt => ">",
        BinOp::Ge => ">=",
        BinOp::Add => "+",
        BinOp::Sub => "-",
        BinOp::Mul => "*",
        BinOp::Div => "/",
        BinOp::Mod => "%",
        BinOp::Pow => "^",
        BinOp::In => "IN",
        BinOp::StartsWith => "STARTS WITH",
        BinOp::EndsWith => "ENDS WITH",
        BinOp::Contains => "CONTAINS",
    }
}

fn at(e: &Expr, min: u8) -> String {
    let s = expr(e);
    if level(e) < min { format!("({s})") } else { s }
}

pub fn lit(p: &PV) -> String {
    cy::literal(p).unwrap_or_else(|| panic!("value {p:?} has no literal form; the generator must pass it as a parameter"))
}

pub fn agg_name(f: AggF) -> &'static str {
    match f {
        AggF::Count => "count",
        AggF::Sum => "sum",
        AggF::Avg => "avg",
        AggF::Min => "min",
        AggF::Max => "max",
        AggF::Collect => "collect",
    }
}

pub fn expr(e: &Expr) -> String {
    match e {
        Expr::Lit(p) => lit(p),
        Expr::Param(n) => format!("${}", ident(n)),
        Expr::Var(v) => ident(v),
        Expr::Prop(b, k) => format!("{}.{}", at(b, L_ATOM), ident(k)),
        Expr::Un(UnOp::Not, a) => format!("NOT {}", at(a, L_CMP)),
        Expr::Un(UnOp::Neg, a) => format!("-{}", at(a, L_ATOM)),
        Expr::Un(UnOp::IsNull, a) => format!("{} IS NULL", at(a, L_ATOM)),
        Expr::Un(UnOp::IsNotNull, a) => format!("{} IS NOT NULL", at(a, L_ATOM)),
        Expr::Bin(op, a, b) => {
            let (l, r) = match op {
                BinOp::Or | BinOp::Xor | BinOp::And | BinOp::Add | BinOp::Sub | BinOp::Mul | BinOp::Div | BinOp::Mod => {
                    let k = level(e);
                    // left-associative: a left child of the same family needs no parentheses
                    (k, k + 1)
                }
                BinOp::Eq | BinOp::Ne | BinOp::Lt | BinOp::Le | BinOp::Gt | BinOp::Ge => (L_ADD, L_ADD),
                BinOp::Pow => (L_ATOM, L_ATOM),
                BinOp::In | BinOp::StartsWith | BinOp::EndsWith | BinOp::Contains => (L_ATOM, L_ATOM),
            };
            // NOT below AND/OR is fine (`a AND NOT b`), but keep `NOT a AND b` unambiguous
            let ls = if matches!(op, BinOp::Or | BinOp::Xor | BinOp::And) && level(a) == L_NOT { format!("({})", expr(a)) } else { at(a, l) };
            format!("{} {} {}", ls, op_text(*op), at(b, r))
        }
        Expr::Index(a, i) => format!("{}[{}]", at(a, L_ATOM), expr(i)),
        Expr::Slice(a, lo, hi) => format!(
            "{}[{}..{}]",
            at(a, L_ATOM),
            lo.as_ref().map(|x| expr(x)).unwrap_or_default(),
            hi.as_ref().map(|x| expr(x)).unwrap_or_default()
        ),
        Expr::List(l) => format!("[{}]", l.iter().map(expr).collect::<Vec<_>>().join(", ")),
        Expr::Map(m) => format!("{{{}}}", m.iter().map(|(k, v)| format!("{}: {}", ident(k), expr(v))).collect::<Vec<_>>().join(", ")),
        Expr::Func(n, args) => format!("{}({})", n, args.iter().map(expr).collect::<Vec<_>>().join(", ")),
        Expr::Agg { f, distinct, arg } => match arg {
            None => "count(*)".to_string(),
            Some(a) => format!("{}({}{})", agg_name(*f), if *distinct { "DISTINCT " } else { "" }, expr(a)),
        },
        Expr::Case { scrutinee, whens, else_ } => {
            let mut s = String::from("CASE");
            if let Some(x) = scrutinee {
                s.push(' ');
                s.push_str(&at(x, L_ATOM));
            }
            for (w, t) in whens {
                s.push_str(&format!(" WHEN {} THEN {}", expr(w), expr(t)));
            }
            if let Some(x) = else_ {
                s.push_str(&format!(" ELSE {}", expr(x)));
            }
            s.push_str(" END");
            s
        }
        Expr::HasLabel(a, ls) => format!("{}{}", at(a, L_ATOM), ls.iter().map(|l| format!(":{}", ident(l))).collect::<String>()),
        Expr::PatPred(p) => path(p),
    }
}

fn prop_map(props: &[(String, Expr)]) -> String {
    if props.is_empty() {
        String::new()
    } else {
        format!(" {{{}}}", props.iter().map(|(k, v)| format!("{}: {}", ident(k), expr(v))).collect::<Vec<_>>().join(", "))
    }
}

pub fn node(n: &NodePat) -> String {
    let mut s = String::from("(");
    if let Some(v) = &n.var {
        s.push_str(&ident(v));
    }
    for l in &n.labels {
        s.push(':');
        s.push_str(&ident(l));
    }
    let pm = prop_map(&n.props);
    if s.len() == 1 {
        s.push_str(pm.trim_start());
    } else {
        s.push_str(&pm);
    }
    s.push(')');
    s
}

pub fn rel(r: &RelPat) -> String {
    let mut inner = String::new();
    if let Some(v) = &r.var {
        inner.push_str(&ident(v));
    }
    if !r.types.is_empty() {
        inner.push(':');
        inner.push_str(&r.types.iter().map(|t| ident(t)).collect::<Vec<_>>().join("|"));
    }
    if let Some(rg) = &r.range {
        inner.push('*');
        if rg.exact && rg.min.is_some() && rg.min == rg.max {
            inner.push_str(&rg.min.unwrap().to_string());
        } else {
            if let Some(m) = rg.min {
                inner.push_str(&m.to_string());
            }
            if rg.min.is_some() || rg.max.is_some() {
                inner.push_str("..");
            }
            if let Some(m) = rg.max {
                inner.push_str(&m.to_string());
            }
        }
    }
    let pm = prop_map(&r.props);
    if inner.is_empty() {
        inner.push_str(pm.trim_start());
    } else {
        inner.push_str(&pm);
    }
    let body = if inner.is_empty() { String::new() } else { format!("[{inner}]") };
    match r.dir {
        Dir::Out => format!("-{body}->"),
        Dir::In => format!("<-{body}-"),
        Dir::Both => format!("-{body}-"),
    }
}

pub fn path(p: &PathPat) -> String {
    let mut s = node(&p.start);
    for (r, n) in &p.steps {
        s.push_str(&rel(r));
        s.push_str(&node(n));
    }
    s
}

fn proj(p: &Proj) -> String {
    let mut s = String::new();
    if p.distinct {
        s.push_str("DISTINCT ");
    }
    let mut items: Vec<String> = Vec::new();
    if p.star {
        items.push("*".into());
    }
    for (e, a) in &p.items {
        items.push(format!("{} AS {}", expr(e), ident(a)));
    }
    s.push_str(&items.join(", "));
    if !p.order.is_empty() {
        s.push_str(" ORDER BY ");
        s.push_str(&p.order.iter().map(|(e, d)| format!("{}{}", expr(e), if *d { " DESC" } else { "" })).collect::<Vec<_>>().join(", "));
    }
    if let Some(x) = &p.skip {
        s.push_str(&format!(" SKIP {}", expr(x)));
    }
    if let Some(x) = &p.limit {
        s.push_str(&format!(" LIMIT {}", expr(x)));
    }
    s
}

fn set_item(i: &SetItem) -> String {
    match i {
        SetItem::Prop { target, key, value } => format!("{}.{} = {}", ident(target), ident(key), expr(value)),
        SetItem::Replace { target, value } => format!("{} = {}", ident(target), expr(value)),
        SetItem::Merge { target, value } => format!("{} += {}", ident(target), expr(value)),
        SetItem::Labels { target, labels } => format!("{}{}", ident(target), labels.iter().map(|l| format!(":{}", ident(l))).collect::<String>()),
    }
}

pub fn clause(c: &Clause) -> String {
    match c {
        Clause::Match { optional, pats, where_ } => {
            let mut s = format!("{}MATCH {}", if *optional { "OPTIONAL " } else { "" }, pats.iter().map(path).collect::<Vec<_>>().join(", "));
            if let Some(w) = where_ {
                s.push_str(&format!(" WHERE {}", expr(w)));
            }
            s
        }
        Clause::Unwind { e, var } => format!("UNWIND {} AS {}", expr(e), ident(var)),
        Clause::With { p, where_ } => {
            let mut s = format!("WITH {}", proj(p));
            if let Some(w) = where_ {
                s.push_str(&format!(" WHERE {}", expr(w)));
            }
            s
        }
        Clause::Return { p } => format!("RETURN {}", proj(p)),
        Clause::Create { pats } => format!("CREATE {}", pats.iter().map(path).collect::<Vec<_>>().join(", ")),
        Clause::Merge { pat, on_create, on_match } => {
            let mut s = format!("MERGE {}", path(pat));
            if !on_create.is_empty() {
                s.push_str(&format!(" ON CREATE SET {}", on_create.iter().map(set_item).collect::<Vec<_>>().join(", ")));
            }
            if !on_match.is_empty() {
                s.push_str(&format!(" ON MATCH SET {}", on_match.iter().map(set_item).collect::<Vec<_>>().join(", ")));
            }
            s
        }
        Clause::Set { items } => format!("SET {}", items.iter().map(set_item).collect::<Vec<_>>().join(", ")),
        Clause::Remove { items } => format!(
            "REMOVE {}",
            items
                .iter()
                .map(|i| match i {
                    RemoveItem::Prop { target, key } => format!("{}.{}", ident(target), ident(key)),
                    RemoveItem::Labels { target, labels } => format!("{}{}", ident(target), labels.iter().map(|l| format!(":{}", ident(l))).collect::<String>()),
                })
                .collect::<Vec<_>>()
                .join(", ")
        ),
        Clause::Delete { detach, exprs } => format!("{}DELETE {}", if *detach { "DETACH " } else { "" }, exprs.iter().map(expr).collect::<Vec<_>>().join(", ")),
    }
}

pub fn query(q: &RQuery) -> String {
    let sep = if q.union_all { " UNION ALL " } else { " UNION " };
    q.parts.iter().map(|cs| cs.iter().map(clause).collect::<Vec<_>>().join(" ")).collect::<Vec<_>>().join(sep)
}
