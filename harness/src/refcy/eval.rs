//! Direct evaluator of the reference AST over `model::Model` with openCypher 9 semantics.
//!
//! Where two readings are defensible the evaluator is parameterised by `Reading` and records
//! (`Ctx::touched`) which choice points were actually exercised, so the caller can evaluate
//! the alternatives of exactly those and accept either.
use super::ast::*;
use crate::cy::CV;
use crate::model::{Iid, Model};
use crate::pv::PV;
use std::cell::Cell;
use std::cmp::Ordering;
use std::collections::BTreeMap;

#[derive(Clone, Debug, PartialEq, Eq, Hash, PartialOrd, Ord)]
pub struct RelId {
    pub src: Iid,
    pub ty: String,
    pub dst: Iid,
    /// index among the parallel instances of the key
    pub inst: u32,
}

#[derive(Clone, Debug, PartialEq)]
pub enum RV {
    Null,
    Bool(bool),
    Int(i64),
    Float(f64),
    Str(String),
    List(Vec<RV>),
    Map(BTreeMap<String, RV>),
    Node(Iid),
    Rel(RelId),
    /// values the evaluator only passes through (DateTime, Blob)
    Opaque(PV),
}

pub type Row = BTreeMap<String, RV>;

#[derive(Debug, Clone, PartialEq)]
pub enum EvalErr {
    /// Cypher runtime error: the engine has to fail too
    Runtime(String),
    /// intermediate result too large for the reference
    Budget,
    /// outside the fragment the evaluator defines (generator bug if frequent)
    Unsupported(String),
    /// the query has more than one correct answer that the comparison cannot express
    Nondet(String),
}

pub type R<T> = Result<T, EvalErr>;

fn unsup<T>(s: impl Into<String>) -> R<T> {
    Err(EvalErr::Unsupported(s.into()))
}

/// Choice points with two defensible readings. `false` is the base reading.
#[derive(Clone, Copy, Debug, Default, PartialEq, Eq)]
pub struct Reading {
    /// relationship uniqueness counts uses per key against the key's multiplicity
    /// (base: parallel instances are distinct relationships)
    pub uniq_by_key: bool,
    /// with `uniq_by_key`: variable-length steps nevertheless treat parallel instances as
    /// distinct relationships (what the engine does; only accepted for queries in which no
    /// MATCH clause mixes both kinds of step)
    pub uniq_varlen_by_inst: bool,
    /// relationship *values* of parallel instances are different values for `=`/DISTINCT
    /// (base: one value per key, the documented identity)
    pub rel_ident_by_inst: bool,
    /// `1` and `1.0` are one grouping key (base: two)
    pub int_float_equiv: bool,
    /// NaN values are pairwise different grouping keys of an aggregation (base: one)
    pub nan_distinct: bool,
    /// NaN values are pairwise different for DISTINCT / UNION / aggregate DISTINCT (base: one);
    /// separate from `nan_distinct` because the engine treats the two operator families
    /// differently and DESIGN declares NaN keys ambiguous
    pub nan_distinct_in_dedup: bool,
    /// `0.0` and `-0.0` are different grouping keys of an aggregation (base: one)
    pub negzero_distinct: bool,
    /// ... and different values for DISTINCT / UNION / aggregate DISTINCT (base: one)
    pub negzero_distinct_in_dedup: bool,
}

pub const T_UNIQ: u8 = 1;
pub const T_RELID: u8 = 2;
pub const T_INTFLOAT: u8 = 4;
pub const T_NAN: u8 = 8;
pub const T_NEGZERO: u8 = 16;
/// not a choice point of its own: third variant of `T_UNIQ`
pub const T_UNIQ_VARLEN: u8 = 32;
pub const T_NAN_DEDUP: u8 = 64;
pub const T_NEGZERO_DEDUP: u8 = 128;
/// the bits that are choice points of their own
pub const T_CHOICES: u8 = T_UNIQ | T_RELID | T_INTFLOAT | T_NAN | T_NEGZERO | T_NAN_DEDUP | T_NEGZERO_DEDUP;

impl Reading {
    pub fn from_bits(b: u8) -> Reading {
        Reading {
            uniq_by_key: b & T_UNIQ != 0,
            uniq_varlen_by_inst: b & T_UNIQ_VARLEN != 0,
            rel_ident_by_inst: b & T_RELID != 0,
            int_float_equiv: b & T_INTFLOAT != 0,
            nan_distinct: b & T_NAN != 0,
            nan_distinct_in_dedup: b & T_NAN_DEDUP != 0,
            negzero_distinct: b & T_NEGZERO != 0,
            negzero_distinct_in_dedup: b & T_NEGZERO_DEDUP != 0,
        }
    }
}

pub struct Ctx<'a> {
    pub g: &'a Model,
    pub params: &'a BTreeMap<String, RV>,
    pub rd: Reading,
    pub touched: Cell<u8>,
    pub budget: Cell<i64>,
    /// equivalence is currently used for the grouping keys of an aggregation
    pub grouping: Cell<bool>,
}

impl<'a> Ctx<'a> {
    pub fn new(g: &'a Model, params: &'a BTreeMap<String, RV>, rd: Reading) -> Self {
        Ctx { g, params, rd, touched: Cell::new(0), budget: Cell::new(60_000), grouping: Cell::new(false) }
    }
    fn touch(&self, t: u8) {
        self.touched.set(self.touched.get() | t);
    }
    fn spend(&self, n: usize) -> R<()> {
        let b = self.budget.get() - n as i64;
        self.budget.set(b);
        if b < 0 { Err(EvalErr::Budget) } else { Ok(()) }
    }
}

pub fn from_pv(p: &PV) -> RV {
    match p {
        PV::Null => RV::Null,
        PV::Bool(b) => RV::Bool(*b),
        PV::Int(i) => RV::Int(*i),
        PV::Float(b) => RV::Float(f64::from_bits(*b)),
        PV::Str(s) => RV::Str(s.clone()),
        PV::List(l) => RV::List(l.iter().map(from_pv).collect()),
        PV::Map(m) => RV::Map(m.iter().map(|(k, v)| (k.clone(), from_pv(v))).collect()),
        PV::DateTime(_) | PV::Blob(_) => RV::Opaque(p.clone()),
    }
}

/// `None`: the value cannot be stored as a property (node, relationship)
pub fn to_pv(v: &RV) -> Option<PV> {
    Some(match v {
        RV::Null => PV::Null,
        RV::Bool(b) => PV::Bool(*b),
        RV::Int(i) => PV::Int(*i),
        RV::Float(f) => PV::Float(f.to_bits()),
        RV::Str(s) => PV::Str(s.clone()),
        RV::List(l) => PV::List(l.iter().map(to_pv).collect::<Option<Vec<_>>>()?),
        RV::Map(m) => PV::Map(m.iter().map(|(k, v)| to_pv(v).map(|p| (k.clone(), p))).collect::<Option<BTreeMap<_, _>>>()?),
        RV::Opaque(p) => p.clone(),
        RV::Node(_) | RV::Rel(_) => return None,
    })
}

pub fn props_map(m: &BTreeMap<String, PV>) -> BTreeMap<String, RV> {
    m.iter().map(|(k, v)| (k.clone(), from_pv(v))).collect()
}

/// Canonical form used to compare with `cy::read` rows.
pub fn to_cv(g: &Model, v: &RV) -> CV {
    match v {
        RV::Null => CV::Null,
        RV::Bool(b) => CV::Bool(*b),
        RV::Int(i) => CV::Int(*i),
        RV::Float(f) => CV::Float(f.to_bits()),
        RV::Str(s) => CV::Str(s.clone()),
        RV::List(l) => CV::List(l.iter().map(|x| to_cv(g, x)).collect()),
        RV::Map(m) => CV::Map(m.iter().map(|(k, x)| (k.clone(), to_cv(g, x))).collect()),
        RV::Node(n) => match g.nodes.get(n) {
            Some(mn) => CV::Node { id: *n, labels: mn.labels.iter().cloned().collect(), props: mn.props.iter().map(|(k, p)| (k.clone(), CV::from_pv(p))).collect() },
            None => CV::Other(format!("deleted node {n}")),
        },
        RV::Rel(r) => {
            let key = (r.src, r.ty.clone(), r.dst);
            CV::Rel { src: r.src, ty: r.ty.clone(), dst: r.dst, props: g.edge_props.get(&key).map(|m| m.iter().map(|(k, p)| (k.clone(), CV::from_pv(p))).collect()).unwrap_or_default() }
        }
        RV::Opaque(p) => CV::from_pv(p),
    }
}

// ------------------------------------------------------------------ numbers

fn is_num(v: &RV) -> bool {
    matches!(v, RV::Int(_) | RV::Float(_))
}

/// Exact comparison of an integer with a float (`None` for NaN).
pub fn cmp_int_float(i: i64, f: f64) -> Option<Ordering> {
    if f.is_nan() {
        return None;
    }
    if f >= 9223372036854775808.0 {
        return Some(Ordering::Less);
    }
    if f < -9223372036854775808.0 {
        return Some(Ordering::Greater);
    }
    let t = f.trunc();
    let ti = t as i64; // exact: |t| < 2^63 and t is integral
    match i.cmp(&ti) {
        Ordering::Equal => {
            let frac = f - t;
            Some(if frac > 0.0 {
                Ordering::Less
            } else if frac < 0.0 {
                Ordering::Greater
            } else {
                Ordering::Equal
            })
        }
        o => Some(o),
    }
}

/// Exact numeric comparison; `None` if a NaN is involved.
pub fn cmp_num(a: &RV, b: &RV) -> Option<Ordering> {
    match (a, b) {
        (RV::Int(x), RV::Int(y)) => Some(x.cmp(y)),
        (RV::Float(x), RV::Float(y)) => x.partial_cmp(y),
        (RV::Int(x), RV::Float(y)) => cmp_int_float(*x, *y),
        (RV::Float(x), RV::Int(y)) => cmp_int_float(*y, *x).map(|o| o.reverse()),
        _ => None,
    }
}

// ------------------------------------------------------------------ equality, comparison, order, equivalence

fn and3(a: Option<bool>, b: Option<bool>) -> Option<bool> {
    match (a, b) {
        (Some(false), _) | (_, Some(false)) => Some(false),
        (Some(true), Some(true)) => Some(true),
        _ => None,
    }
}

fn or3(a: Option<bool>, b: Option<bool>) -> Option<bool> {
    match (a, b) {
        (Some(true), _) | (_, Some(true)) => Some(true),
        (Some(false), Some(false)) => Some(false),
        _ => None,
    }
}

fn tv(b: Option<bool>) -> RV {
    match b {
        Some(b) => RV::Bool(b),
        None => RV::Null,
    }
}

impl Ctx<'_> {
    fn rel_same(&self, a: &RelId, b: &RelId) -> bool {
        if a.src == b.src && a.ty == b.ty && a.dst == b.dst {
            if a.inst != b.inst {
                self.touch(T_RELID);
                !self.rd.rel_ident_by_inst
            } else {
                true
            }
        } else {
            false
        }
    }

    /// Cypher `=` (None = null)
    pub fn equals(&self, a: &RV, b: &RV) -> Option<bool> {
        match (a, b) {
            (RV::Null, _) | (_, RV::Null) => None,
            (x, y) if is_num(x) && is_num(y) => Some(cmp_num(x, y) == Some(Ordering::Equal)),
            (RV::Bool(x), RV::Bool(y)) => Some(x == y),
            (RV::Str(x), RV::Str(y)) => Some(x == y),
            (RV::List(x), RV::List(y)) => {
                if x.len() != y.len() {
                    return Some(false);
                }
                let mut acc = Some(true);
                for (p, q) in x.iter().zip(y) {
                    acc = and3(acc, self.equals(p, q));
                    if acc == Some(false) {
                        return acc;
                    }
                }
                acc
            }
            (RV::Map(x), RV::Map(y)) => {
                if x.len() != y.len() || !x.keys().eq(y.keys()) {
                    return Some(false);
                }
                let mut acc = Some(true);
                for (p, q) in x.values().zip(y.values()) {
                    acc = and3(acc, self.equals(p, q));
                    if acc == Some(false) {
                        return acc;
                    }
                }
                acc
            }
            (RV::Node(x), RV::Node(y)) => Some(x == y),
            (RV::Rel(x), RV::Rel(y)) => Some(self.rel_same(x, y)),
            (RV::Opaque(x), RV::Opaque(y)) => Some(x == y),
            _ => Some(false),
        }
    }

    /// `<`, `<=`, `>`, `>=`: `test` receives the ordering of comparable operands.
    pub fn compare(&self, a: &RV, b: &RV, test: fn(Ordering) -> bool) -> R<Option<bool>> {
        Ok(match (a, b) {
            (RV::Null, _) | (_, RV::Null) => None,
            (x, y) if is_num(x) && is_num(y) => match cmp_num(x, y) {
                Some(o) => Some(test(o)),
                None => Some(false), // NaN
            },
            (RV::Str(x), RV::Str(y)) => Some(test(x.cmp(y))),
            (RV::Bool(x), RV::Bool(y)) => Some(test(x.cmp(y))),
            (RV::List(_), RV::List(_)) => return unsup("list comparison"),
            (RV::Opaque(_), _) | (_, RV::Opaque(_)) => return unsup("comparison of opaque values"),
            _ => None, // incomparable types
        })
    }

    /// Equivalence used by DISTINCT, grouping and UNION.
    pub fn equiv(&self, a: &RV, b: &RV) -> bool {
        match (a, b) {
            (RV::Null, RV::Null) => true,
            (RV::Int(x), RV::Int(y)) => x == y,
            (RV::Float(x), RV::Float(y)) => {
                if x.is_nan() && y.is_nan() {
                    if self.grouping.get() {
                        self.touch(T_NAN);
                        !self.rd.nan_distinct
                    } else {
                        self.touch(T_NAN_DEDUP);
                        !self.rd.nan_distinct_in_dedup
                    }
                } else if x == y {
                    if x.to_bits() != y.to_bits() {
                        if self.grouping.get() {
                            self.touch(T_NEGZERO);
                            !self.rd.negzero_distinct
                        } else {
                            self.touch(T_NEGZERO_DEDUP);
                            !self.rd.negzero_distinct_in_dedup
                        }
                    } else {
                        true
                    }
                } else {
                    false
                }
            }
            (RV::Int(_), RV::Float(_)) | (RV::Float(_), RV::Int(_)) => {
                if cmp_num(a, b) == Some(Ordering::Equal) {
                    self.touch(T_INTFLOAT);
                    self.rd.int_float_equiv
                } else {
                    false
                }
            }
            (RV::Bool(x), RV::Bool(y)) => x == y,
            (RV::Str(x), RV::Str(y)) => x == y,
            (RV::List(x), RV::List(y)) => x.len() == y.len() && x.iter().zip(y).all(|(p, q)| self.equiv(p, q)),
            (RV::Map(x), RV::Map(y)) => x.len() == y.len() && x.keys().eq(y.keys()) && x.values().zip(y.values()).all(|(p, q)| self.equiv(p, q)),
            (RV::Node(x), RV::Node(y)) => x == y,
            (RV::Rel(x), RV::Rel(y)) => self.rel_same(x, y),
            (RV::Opaque(x), RV::Opaque(y)) => x == y,
            _ => false,
        }
    }

    pub fn rows_equiv(&self, a: &[RV], b: &[RV]) -> bool {
        a.len() == b.len() && a.iter().zip(b).all(|(x, y)| self.equiv(x, y))
    }
}

fn rank(v: &RV) -> u8 {
    match v {
        RV::Map(_) => 0,
        RV::Node(_) => 1,
        RV::Rel(_) => 2,
        RV::List(_) => 3,
        RV::Str(_) => 5,
        RV::Bool(_) => 6,
        RV::Int(_) | RV::Float(_) => 7,
        RV::Opaque(_) => 8,
        RV::Null => 10,
    }
}

/// Orderability (ORDER BY, min, max): total, numbers exact, NaN above every number, null last.
pub fn order_cmp(a: &RV, b: &RV) -> Ordering {
    let (ra, rb) = (rank(a), rank(b));
    if ra != rb {
        return ra.cmp(&rb);
    }
    match (a, b) {
        (x, y) if is_num(x) && is_num(y) => {
            let nan = |v: &RV| matches!(v, RV::Float(f) if f.is_nan());
            match (nan(x), nan(y)) {
                (true, true) => Ordering::Equal,
                (true, false) => Ordering::Greater,
                (false, true) => Ordering::Less,
                _ => cmp_num(x, y).unwrap_or(Ordering::Equal),
            }
        }
        (RV::Str(x), RV::Str(y)) => x.cmp(y),
        (RV::Bool(x), RV::Bool(y)) => x.cmp(y),
        (RV::Node(x), RV::Node(y)) => x.cmp(y),
        (RV::Rel(x), RV::Rel(y)) => (x.src, &x.ty, x.dst).cmp(&(y.src, &y.ty, y.dst)),
        (RV::List(x), RV::List(y)) => {
            for (p, q) in x.iter().zip(y) {
                let o = order_cmp(p, q);
                if o != Ordering::Equal {
                    return o;
                }
            }
            x.len().cmp(&y.len())
        }
        (RV::Map(x), RV::Map(y)) => {
            let ks = x.keys().cmp(y.keys());
            if ks != Ordering::Equal {
                return ks;
            }
            for (p, q) in x.values().zip(y.values()) {
                let o = order_cmp(p, q);
                if o != Ordering::Equal {
                    return o;
                }
            }
            Ordering::Equal
        }
        (RV::Opaque(x), RV::Opaque(y)) => x.cmp(y),
        _ => Ordering::Equal,
    }
}

// ------------------------------------------------------------------ expressions

fn as_bool3(v: &RV) -> R<Option<bool>> {
    match v {
        RV::Null => Ok(None),
        RV::Bool(b) => Ok(Some(*b)),
        o => unsup(format!("boolean operand expected, got {o:?}")),
    }
}

fn arith(op: BinOp, a: &RV, b: &RV) -> R<RV> {
    if matches!(a, RV::Null) || matches!(b, RV::Null) {
        return Ok(RV::Null);
    }
    if op == BinOp::Add {
        match (a, b) {
            (RV::Str(x), RV::Str(y)) => return Ok(RV::Str(format!("{x}{y}"))),
            (RV::List(x), RV::List(y)) => return Ok(RV::List(x.iter().chain(y).cloned().collect())),
            (RV::List(x), y) => {
                let mut l = x.clone();
                l.push(y.clone());
                return Ok(RV::List(l));
            }
            (x, RV::List(y)) => {
                let mut l = vec![x.clone()];
                l.extend(y.iter().cloned());
                return Ok(RV::List(l));
            }
            _ => {}
        }
    }
    match (a, b) {
        (RV::Int(x), RV::Int(y)) => {
            let r = match op {
                BinOp::Add => x.checked_add(*y),
                BinOp::Sub => x.checked_sub(*y),
                BinOp::Mul => x.checked_mul(*y),
                BinOp::Div => {
                    if *y == 0 {
                        return Err(EvalErr::Runtime("/ by zero".into()));
                    }
                    x.checked_div(*y)
                }
                BinOp::Mod => {
                    if *y == 0 {
                        return Err(EvalErr::Runtime("% by zero".into()));
                    }
                    x.checked_rem(*y)
                }
                BinOp::Pow => return Ok(RV::Float((*x as f64).powf(*y as f64))),
                _ => return unsup("arith op"),
            };
            match r {
                Some(v) => Ok(RV::Int(v)),
                None => unsup("integer overflow"),
            }
        }
        (x, y) if is_num(x) && is_num(y) => {
            let f = |v: &RV| match v {
                RV::Int(i) => *i as f64,
                RV::Float(f) => *f,
                _ => unreachable!(),
            };
            let (x, y) = (f(x), f(y));
            Ok(RV::Float(match op {
                BinOp::Add => x + y,
                BinOp::Sub => x - y,
                BinOp::Mul => x * y,
                BinOp::Div => x / y,
                BinOp::Mod => x % y,
                BinOp::Pow => x.powf(y),
                _ => return unsup("arith op"),
            }))
        }
        _ => unsup(format!("arithmetic {op:?} on {a:?}, {b:?}")),
    }
}

fn norm_index(i: i64, len: usize) -> Option<usize> {
    let l = len as i64;
    let j = if i < 0 { l + i } else { i };
    if j < 0 || j >= l { None } else { Some(j as usize) }
}

impl Ctx<'_> {
    pub fn node_props(&self, n: Iid) -> R<&BTreeMap<String, PV>> {
        match self.g.nodes.get(&n) {
            Some(mn) => Ok(&mn.props),
            None => unsup("access to a deleted node"),
        }
    }

    pub fn rel_props(&self, r: &RelId) -> BTreeMap<String, RV> {
        self.g.edge_props.get(&(r.src, r.ty.clone(), r.dst)).map(props_map).unwrap_or_default()
    }

    pub fn prop_of(&self, base: &RV, key: &str) -> R<RV> {
        Ok(match base {
            RV::Null => RV::Null,
            RV::Node(n) => self.node_props(*n)?.get(key).map(from_pv).unwrap_or(RV::Null),
            RV::Rel(r) => self.g.edge_props.get(&(r.src, r.ty.clone(), r.dst)).and_then(|m| m.get(key)).map(from_pv).unwrap_or(RV::Null),
            RV::Map(m) => m.get(key).cloned().unwrap_or(RV::Null),
            o => return unsup(format!("property access on {o:?}")),
        })
    }

    pub fn eval(&self, e: &Expr, row: &Row) -> R<RV> {
        Ok(match e {
            Expr::Lit(p) => from_pv(p),
            Expr::Param(n) => match self.params.get(n) {
                Some(v) => v.clone(),
                None => return unsup(format!("missing parameter {n}")),
            },
            Expr::Var(v) => match row.get(v) {
                Some(x) => x.clone(),
                None => return unsup(format!("unbound variable {v}")),
            },
            Expr::Prop(b, k) => {
                let base = self.eval(b, row)?;
                self.prop_of(&base, k)?
            }
            Expr::Un(op, a) => {
                let v = self.eval(a, row)?;
                match op {
                    UnOp::Not => tv(as_bool3(&v)?.map(|b| !b)),
                    UnOp::IsNull => RV::Bool(matches!(v, RV::Null)),
                    UnOp::IsNotNull => RV::Bool(!matches!(v, RV::Null)),
                    UnOp::Neg => match v {
                        RV::Null => RV::Null,
                        RV::Int(i) => match i.checked_neg() {
                            Some(x) => RV::Int(x),
                            None => return unsup("integer overflow"),
                        },
                        RV::Float(f) => RV::Float(-f),
                        o => return unsup(format!("negation of {o:?}")),
                    },
                }
            }
            Expr::Bin(op, a, b) => {
                let x = self.eval(a, row)?;
                let y = self.eval(b, row)?;
                match op {
                    BinOp::And => tv(and3(as_bool3(&x)?, as_bool3(&y)?)),
                    BinOp::Or => tv(or3(as_bool3(&x)?, as_bool3(&y)?)),
                    BinOp::Xor => match (as_bool3(&x)?, as_bool3(&y)?) {
                        (Some(p), Some(q)) => RV::Bool(p != q),
                        _ => RV::Null,
                    },
                    BinOp::Eq => tv(self.equals(&x, &y)),
                    BinOp::Ne => tv(self.equals(&x, &y).map(|b| !b)),
                    BinOp::Lt => tv(self.compare(&x, &y, |o| o == Ordering::Less)?),
                    BinOp::Le => tv(self.compare(&x, &y, |o| o != Ordering::Greater)?),
                    BinOp::Gt => tv(self.compare(&x, &y, |o| o == Ordering::Greater)?),
                    BinOp::Ge => tv(self.compare(&x, &y, |o| o != Ordering::Less)?),
                    BinOp::Add | BinOp::Sub | BinOp::Mul | BinOp::Div | BinOp::Mod | BinOp::Pow => arith(*op, &x, &y)?,
                    BinOp::In => match y {
                        RV::Null => RV::Null,
                        RV::List(l) => {
                            let mut acc = Some(false);
                            for item in &l {
                                acc = or3(acc, self.equals(&x, item));
                                if acc == Some(true) {
                                    break;
                                }
                            }
                            tv(acc)
                        }
                        o => return unsup(format!("IN on {o:?}")),
                    },
                    BinOp::StartsWith | BinOp::EndsWith | BinOp::Contains => match (&x, &y) {
                        (RV::Str(s), RV::Str(t)) => RV::Bool(match op {
                            BinOp::StartsWith => s.starts_with(t.as_str()),
                            BinOp::EndsWith => s.ends_with(t.as_str()),
                            _ => s.contains(t.as_str()),
                        }),
                        // null or non-string operand: null (TCK "Handling non-string operands")
                        _ => RV::Null,
                    },
                }
            }
            Expr::Index(a, i) => {
                let base = self.eval(a, row)?;
                let ix = self.eval(i, row)?;
                match (&base, &ix) {
                    (RV::Null, _) | (_, RV::Null) => RV::Null,
                    (RV::List(l), RV::Int(i)) => norm_index(*i, l.len()).map(|j| l[j].clone()).unwrap_or(RV::Null),
                    (RV::Map(_) | RV::Node(_) | RV::Rel(_), RV::Str(k)) => self.prop_of(&base, k)?,
                    (b, i) => return unsup(format!("index {b:?}[{i:?}]")),
                }
            }
            Expr::Slice(a, lo, hi) => {
                let base = self.eval(a, row)?;
                let lo = match lo {
                    Some(x) => Some(self.eval(x, row)?),
                    None => None,
                };
                let hi = match hi {
                    Some(x) => Some(self.eval(x, row)?),
                    None => None,
                };
                if matches!(base, RV::Null) || matches!(lo, Some(RV::Null)) || matches!(hi, Some(RV::Null)) {
                    return Ok(RV::Null);
                }
                let RV::List(l) = base else { return unsup("slice of non-list") };
                let len = l.len() as i64;
                let clampi = |v: &Option<RV>, default: i64| -> R<i64> {
                    match v {
                        None => Ok(default),
                        Some(RV::Int(i)) => Ok(if *i < 0 { (len + *i).max(0) } else { (*i).min(len) }),
                        Some(o) => unsup(format!("slice bound {o:?}")),
                    }
                };
                let s = clampi(&lo, 0)?;
                let t = clampi(&hi, len)?;
                if s >= t { RV::List(vec![]) } else { RV::List(l[s as usize..t as usize].to_vec()) }
            }
            Expr::List(l) => RV::List(l.iter().map(|x| self.eval(x, row)).collect::<R<Vec<_>>>()?),
            Expr::Map(m) => {
                let mut out = BTreeMap::new();
                for (k, x) in m {
                    out.insert(k.clone(), self.eval(x, row)?);
                }
                RV::Map(out)
            }
            Expr::Func(name, args) => {
                let vals = args.iter().map(|x| self.eval(x, row)).collect::<R<Vec<_>>>()?;
                self.func(&name.to_ascii_lowercase(), &vals)?
            }
            Expr::Agg { .. } => return unsup("aggregate outside a projection"),
            Expr::Case { scrutinee, whens, else_ } => {
                let s = match scrutinee {
                    Some(x) => Some(self.eval(x, row)?),
                    None => None,
                };
                for (w, t) in whens {
                    let wv = self.eval(w, row)?;
                    let hit = match &s {
                        Some(sv) => self.equals(sv, &wv) == Some(true),
                        None => as_bool3(&wv)? == Some(true),
                    };
                    if hit {
                        return self.eval(t, row);
                    }
                }
                match else_ {
                    Some(x) => self.eval(x, row)?,
                    None => RV::Null,
                }
            }
            Expr::HasLabel(a, ls) => match self.eval(a, row)? {
                RV::Null => RV::Null,
                RV::Node(n) => match self.g.nodes.get(&n) {
                    Some(mn) => RV::Bool(ls.iter().all(|l| mn.labels.contains(l))),
                    None => return unsup("label test on a deleted node"),
                },
                o => return unsup(format!("label test on {o:?}")),
            },
            Expr::PatPred(p) => {
                let pats = [(**p).clone()];
                let found = self.match_patterns(row, &pats, None, Some(1))?;
                RV::Bool(!found.is_empty())
            }
        })
    }

    fn func(&self, name: &str, a: &[RV]) -> R<RV> {
        let arg0 = || a.first().cloned().unwrap_or(RV::Null);
        Ok(match name {
            "coalesce" => a.iter().find(|v| !matches!(v, RV::Null)).cloned().unwrap_or(RV::Null),
            "id" => match arg0() {
                RV::Null => RV::Null,
                RV::Node(n) => RV::Int(n as i64),
                o => return unsup(format!("id({o:?})")),
            },
            "labels" => match arg0() {
                RV::Null => RV::Null,
                RV::Node(n) => match self.g.nodes.get(&n) {
                    Some(mn) => RV::List(mn.labels.iter().map(|l| RV::Str(l.clone())).collect()),
                    None => return unsup("labels of deleted node"),
                },
                o => return unsup(format!("labels({o:?})")),
            },
            "type" => match arg0() {
                RV::Null => RV::Null,
                RV::Rel(r) => RV::Str(r.ty.clone()),
                o => return unsup(format!("type({o:?})")),
            },
            "startnode" | "endnode" => match arg0() {
                RV::Null => RV::Null,
                RV::Rel(r) => RV::Node(if name == "startnode" { r.src } else { r.dst }),
                o => return unsup(format!("{name}({o:?})")),
            },
            "properties" => match arg0() {
                RV::Null => RV::Null,
                RV::Node(n) => RV::Map(props_map(self.node_props(n)?)),
                RV::Rel(r) => RV::Map(self.rel_props(&r)),
                RV::Map(m) => RV::Map(m),
                o => return unsup(format!("properties({o:?})")),
            },
            "keys" => match arg0() {
                RV::Null => RV::Null,
                RV::Node(n) => RV::List(self.node_props(n)?.keys().map(|k| RV::Str(k.clone())).collect()),
                RV::Rel(r) => RV::List(self.rel_props(&r).keys().map(|k| RV::Str(k.clone())).collect()),
                RV::Map(m) => RV::List(m.keys().map(|k| RV::Str(k.clone())).collect()),
                o => return unsup(format!("keys({o:?})")),
            },
            "exists" => match arg0() {
                RV::Null => RV::Bool(false),
                _ => RV::Bool(true),
            },
            "size" => match arg0() {
                RV::Null => RV::Null,
                RV::List(l) => RV::Int(l.len() as i64),
                RV::Str(s) => RV::Int(s.chars().count() as i64),
                o => return unsup(format!("size({o:?})")),
            },
            "head" | "last" => match arg0() {
                RV::Null => RV::Null,
                RV::List(l) => (if name == "head" { l.first() } else { l.last() }).cloned().unwrap_or(RV::Null),
                o => return unsup(format!("{name}({o:?})")),
            },
            "tail" => match arg0() {
                RV::Null => RV::Null,
                RV::List(l) => RV::List(l.iter().skip(1).cloned().collect()),
                o => return unsup(format!("tail({o:?})")),
            },
            "reverse" => match arg0() {
                RV::Null => RV::Null,
                RV::List(mut l) => {
                    l.reverse();
                    RV::List(l)
                }
                RV::Str(s) => RV::Str(s.chars().rev().collect()),
                o => return unsup(format!("reverse({o:?})")),
            },
            "range" => {
                let ints: Option<Vec<i64>> = a.iter().map(|v| if let RV::Int(i) = v { Some(*i) } else { None }).collect();
                let Some(ints) = ints else { return unsup("range with non-integer") };
                let (s, e, st) = match ints.as_slice() {
                    [s, e] => (*s, *e, 1),
                    [s, e, st] => (*s, *e, *st),
                    _ => return unsup("range arity"),
                };
                if st == 0 {
                    return Err(EvalErr::Runtime("range step 0".into()));
                }
                let mut out = Vec::new();
                let mut x = s;
                while (st > 0 && x <= e) || (st < 0 && x >= e) {
                    out.push(RV::Int(x));
                    if out.len() > 10_000 {
                        return Err(EvalErr::Budget);
                    }
                    x += st;
                }
                RV::List(out)
            }
            "abs" => match arg0() {
                RV::Null => RV::Null,
                RV::Int(i) => match i.checked_abs() {
                    Some(x) => RV::Int(x),
                    None => return unsup("integer overflow"),
                },
                RV::Float(f) => RV::Float(f.abs()),
                o => return unsup(format!("abs({o:?})")),
            },
            "sign" => match arg0() {
                RV::Null => RV::Null,
                RV::Int(i) => RV::Int(i.signum()),
                RV::Float(f) => {
                    if f.is_nan() {
                        return unsup("sign(NaN)");
                    }
                    RV::Int(if f > 0.0 { 1 } else if f < 0.0 { -1 } else { 0 })
                }
                o => return unsup(format!("sign({o:?})")),
            },
            "ceil" | "floor" => match arg0() {
                RV::Null => RV::Null,
                RV::Int(i) => RV::Float(i as f64),
                RV::Float(f) => RV::Float(if name == "ceil" { f.ceil() } else { f.floor() }),
                o => return unsup(format!("{name}({o:?})")),
            },
            "tointeger" => match arg0() {
                RV::Null => RV::Null,
                RV::Int(i) => RV::Int(i),
                RV::Float(f) => {
                    if !f.is_finite() || f.abs() >= 9.0e18 {
                        return unsup("toInteger of a non-finite or huge float");
                    }
                    RV::Int(f.trunc() as i64)
                }
                RV::Str(s) => match s.parse::<i64>() {
                    Ok(i) => RV::Int(i),
                    Err(_) => {
                        if s.chars().any(|c| c.is_ascii_digit()) {
                            return unsup("toInteger of a numeric-looking string");
                        }
                        RV::Null
                    }
                },
                o => return unsup(format!("toInteger({o:?})")),
            },
            "tofloat" => match arg0() {
                RV::Null => RV::Null,
                RV::Int(i) => RV::Float(i as f64),
                RV::Float(f) => RV::Float(f),
                RV::Str(s) => {
                    if s.chars().any(|c| c.is_ascii_digit()) || s.to_ascii_lowercase().contains("inf") || s.to_ascii_lowercase().contains("nan") {
                        return unsup("toFloat of a numeric-looking string");
                    }
                    RV::Null
                }
                o => return unsup(format!("toFloat({o:?})")),
            },
            "tostring" => match arg0() {
                RV::Null => RV::Null,
                RV::Int(i) => RV::Str(i.to_string()),
                RV::Bool(b) => RV::Str(b.to_string()),
                RV::Str(s) => RV::Str(s),
                o => return unsup(format!("toString({o:?})")),
            },
            "toboolean" => match arg0() {
                RV::Null => RV::Null,
                RV::Bool(b) => RV::Bool(b),
                RV::Str(s) => match s.to_ascii_lowercase().trim() {
                    "true" => RV::Bool(true),
                    "false" => RV::Bool(false),
                    _ => RV::Null,
                },
                o => return unsup(format!("toBoolean({o:?})")),
            },
            "toupper" | "tolower" | "trim" | "ltrim" | "rtrim" => match arg0() {
                RV::Null => RV::Null,
                RV::Str(s) => {
                    if !s.is_ascii() {
                        return unsup("case mapping / trimming of non-ASCII text");
                    }
                    RV::Str(match name {
                        "toupper" => s.to_ascii_uppercase(),
                        "tolower" => s.to_ascii_lowercase(),
                        "trim" => s.trim_matches(' ').to_string(),
                        "ltrim" => s.trim_start_matches(' ').to_string(),
                        _ => s.trim_end_matches(' ').to_string(),
                    })
                }
                o => return unsup(format!("{name}({o:?})")),
            },
            "substring" | "left" | "right" => {
                if a.iter().any(|v| matches!(v, RV::Null)) {
                    if matches!(arg0(), RV::Null) {
                        return Ok(RV::Null);
                    }
                    return unsup("substring with null position");
                }
                let RV::Str(s) = arg0() else { return unsup("substring of non-string") };
                let chars: Vec<char> = s.chars().collect();
                let ints: Option<Vec<i64>> = a[1..].iter().map(|v| if let RV::Int(i) = v { Some(*i) } else { None }).collect();
                let Some(ints) = ints else { return unsup("substring position type") };
                if ints.iter().any(|i| *i < 0) {
                    return Err(EvalErr::Runtime("negative substring position".into()));
                }
                let n = chars.len();
                let (from, to) = match (name, ints.as_slice()) {
                    ("substring", [st]) => ((*st as usize).min(n), n),
                    ("substring", [st, len]) => ((*st as usize).min(n), ((*st + *len) as usize).min(n)),
                    ("left", [len]) => (0, (*len as usize).min(n)),
                    ("right", [len]) => (n - (*len as usize).min(n), n),
                    _ => return unsup("substring arity"),
                };
                RV::Str(chars[from..to.max(from)].iter().collect())
            }
            "replace" => match (a.first(), a.get(1), a.get(2)) {
                (Some(RV::Str(s)), Some(RV::Str(f)), Some(RV::Str(t))) => {
                    if f.is_empty() {
                        return unsup("replace with empty search string");
                    }
                    RV::Str(s.replace(f.as_str(), t))
                }
                _ if a.iter().any(|v| matches!(v, RV::Null)) => RV::Null,
                _ => return unsup("replace arguments"),
            },
            "split" => match (a.first(), a.get(1)) {
                (Some(RV::Str(s)), Some(RV::Str(d))) => {
                    if d.is_empty() {
                        return unsup("split with empty delimiter");
                    }
                    RV::List(s.split(d.as_str()).map(|x| RV::Str(x.to_string())).collect())
                }
                _ if a.iter().any(|v| matches!(v, RV::Null)) => RV::Null,
                _ => return unsup("split arguments"),
            },
            other => return unsup(format!("function {other}")),
        })
    }

    // -------------------------------------------------------------- pattern matching

    /// All relationship instances adjacent to `n` in the given direction: (instance, other end).
    fn adjacent(&self, n: Iid, dir: Dir, types: &[String]) -> Vec<(RelId, Iid)> {
        let mut out = Vec::new();
        for ((s, t, d), c) in &self.g.edges {
            if !types.is_empty() && !types.contains(t) {
                continue;
            }
            let fwd = *s == n && matches!(dir, Dir::Out | Dir::Both);
            let bwd = *d == n && matches!(dir, Dir::In | Dir::Both);
            // a self loop is found once by an undirected step
            let hits: Vec<Iid> = if *s == *d {
                if fwd || bwd { vec![*s] } else { vec![] }
            } else {
                let mut h = Vec::new();
                if fwd {
                    h.push(*d);
                }
                if bwd {
                    h.push(*s);
                }
                h
            };
            for other in hits {
                for inst in 0..*c {
                    out.push((RelId { src: *s, ty: t.clone(), dst: *d, inst }, other));
                }
            }
        }
        out
    }

    fn rel_usable(&self, used: &[RelId], r: &RelId, varlen: bool) -> bool {
        let same_key: Vec<&RelId> = used.iter().filter(|u| u.src == r.src && u.ty == r.ty && u.dst == r.dst).collect();
        if same_key.is_empty() {
            return true;
        }
        let count = *self.g.edges.get(&(r.src, r.ty.clone(), r.dst)).unwrap_or(&1);
        if count > 1 {
            self.touch(T_UNIQ);
        }
        let by_key = self.rd.uniq_by_key && !(varlen && self.rd.uniq_varlen_by_inst);
        if by_key {
            (same_key.len() as u32) < count
        } else if self.rd.uniq_by_key {
            // mixed mode: earlier fixed steps did not reserve particular instances, so a
            // variable-length step may take as many as are left
            let _ = r.inst;
            (same_key.len() as u32) < count && r.inst >= same_key.len() as u32
        } else {
            !same_key.iter().any(|u| u.inst == r.inst)
        }
    }

    fn node_ok(&self, n: Iid, pat: &NodePat, row: &Row) -> R<bool> {
        let Some(mn) = self.g.nodes.get(&n) else { return Ok(false) };
        if !pat.labels.iter().all(|l| mn.labels.contains(l)) {
            return Ok(false);
        }
        for (k, e) in &pat.props {
            let want = self.eval(e, row)?;
            let have = mn.props.get(k).map(from_pv).unwrap_or(RV::Null);
            if self.equals(&have, &want) != Some(true) {
                return Ok(false);
            }
        }
        Ok(true)
    }

    fn rel_ok(&self, r: &RelId, pat: &RelPat, row: &Row) -> R<bool> {
        for (k, e) in &pat.props {
            let want = self.eval(e, row)?;
            let have = self.prop_of(&RV::Rel(r.clone()), k)?;
            if self.equals(&have, &want) != Some(true) {
                return Ok(false);
            }
        }
        Ok(true)
    }

    /// Binds `pat` to node `n` (checking an existing binding); `None` if impossible.
    fn bind_node(&self, row: &Row, pat: &NodePat, n: Iid) -> R<Option<Row>> {
        if let Some(v) = &pat.var {
            match row.get(v) {
                Some(RV::Node(m)) => {
                    if *m != n {
                        return Ok(None);
                    }
                }
                Some(RV::Null) => return Ok(None),
                Some(o) => return unsup(format!("pattern node variable {v} bound to {o:?}")),
                None => {}
            }
        }
        if !self.node_ok(n, pat, row)? {
            return Ok(None);
        }
        let mut r2 = row.clone();
        if let Some(v) = &pat.var {
            r2.insert(v.clone(), RV::Node(n));
        }
        Ok(Some(r2))
    }

    fn start_candidates(&self, row: &Row, pat: &NodePat) -> R<Vec<Iid>> {
        if let Some(v) = &pat.var {
            match row.get(v) {
                Some(RV::Node(m)) => return Ok(vec![*m]),
                Some(RV::Null) => return Ok(vec![]),
                Some(o) => return unsup(format!("pattern node variable {v} bound to {o:?}")),
                None => {}
            }
        }
        Ok(self.g.nodes.keys().copied().collect())
    }

    fn expand_steps(&self, row: Row, cur: Iid, steps: &[(RelPat, NodePat)], used: Vec<RelId>, out: &mut Vec<(Row, Vec<RelId>)>) -> R<()> {
        let Some(((rp, np), rest)) = steps.split_first() else {
            self.spend(1)?;
            out.push((row, used));
            return Ok(());
        };
        match &rp.range {
            None => {
                // a relationship variable bound by an earlier clause restricts the step
                let bound: Option<RelId> = match rp.var.as_ref().and_then(|v| row.get(v)) {
                    Some(RV::Rel(r)) => Some(r.clone()),
                    Some(RV::Null) => return Ok(()),
                    Some(o) => return unsup(format!("relationship variable bound to {o:?}")),
                    None => None,
                };
                for (r, other) in self.adjacent(cur, rp.dir, &rp.types) {
                    if let Some(b) = &bound {
                        if !(b.src == r.src && b.ty == r.ty && b.dst == r.dst && b.inst == r.inst) {
                            continue;
                        }
                    }
                    if !self.rel_usable(&used, &r, false) || !self.rel_ok(&r, rp, &row)? {
                        continue;
                    }
                    let Some(mut r2) = self.bind_node(&row, np, other)? else { continue };
                    if let Some(v) = &rp.var {
                        r2.insert(v.clone(), RV::Rel(r.clone()));
                    }
                    let mut u2 = used.clone();
                    u2.push(r);
                    self.expand_steps(r2, other, rest, u2, out)?;
                }
            }
            Some(rg) => {
                if rp.var.as_ref().is_some_and(|v| row.contains_key(v)) {
                    return unsup("bound variable-length relationship variable");
                }
                let min = rg.min.unwrap_or(1);
                let max = rg.max.unwrap_or(u32::MAX);
                // depth-first enumeration of trails
                let mut stack: Vec<(Iid, Vec<RelId>, Vec<RelId>)> = vec![(cur, Vec::new(), used.clone())];
                while let Some((at, trail, u)) = stack.pop() {
                    self.spend(1)?;
                    let depth = trail.len() as u32;
                    if depth >= min {
                        if let Some(mut r2) = self.bind_node(&row, np, at)? {
                            if let Some(v) = &rp.var {
                                r2.insert(v.clone(), RV::List(trail.iter().cloned().map(RV::Rel).collect()));
                            }
                            self.expand_steps(r2, at, rest, u.clone(), out)?;
                        }
                    }
                    if depth < max {
                        for (r, other) in self.adjacent(at, rp.dir, &rp.types) {
                            if !self.rel_usable(&u, &r, true) || !self.rel_ok(&r, rp, &row)? {
                                continue;
                            }
                            let mut t2 = trail.clone();
                            t2.push(r.clone());
                            let mut u2 = u.clone();
                            u2.push(r);
                            stack.push((other, t2, u2));
                        }
                    }
                }
            }
        }
        Ok(())
    }

    /// Matches all patterns of one MATCH clause against one input row.
    pub fn match_patterns(&self, row: &Row, pats: &[PathPat], where_: Option<&Expr>, stop_after: Option<usize>) -> R<Vec<Row>> {
        let mut states: Vec<(Row, Vec<RelId>)> = vec![(row.clone(), Vec::new())];
        for p in pats {
            let mut next = Vec::new();
            for (r, used) in states {
                for n in self.start_candidates(&r, &p.start)? {
                    let Some(r2) = self.bind_node(&r, &p.start, n)? else { continue };
                    self.expand_steps(r2, n, &p.steps, used.clone(), &mut next)?;
                }
            }
            states = next;
        }
        let mut out = Vec::new();
        for (r, _) in states {
            let keep = match where_ {
                Some(w) => as_bool3(&self.eval(w, &r)?)? == Some(true),
                None => true,
            };
            if keep {
                out.push(r);
                if stop_after.is_some_and(|k| out.len() >= k) {
                    break;
                }
            }
        }
        Ok(out)
    }
}

pub fn pattern_vars(pats: &[PathPat]) -> Vec<String> {
    let mut v = Vec::new();
    for p in pats {
        if let Some(x) = &p.start.var {
            v.push(x.clone());
        }
        for (r, n) in &p.steps {
            if let Some(x) = &r.var {
                v.push(x.clone());
            }
            if let Some(x) = &n.var {
                v.push(x.clone());
            }
        }
    }
    v
}

// ------------------------------------------------------------------ projection and aggregation

/// One projected row: the values of the new scope plus the scope in which ORDER BY keys are
/// evaluated (new aliases over the old variables where those stay visible).
struct PRow {
    vals: Vec<RV>,
    order_scope: Row,
}

/// Result of a final RETURN, shaped for comparison with an engine result.
#[derive(Debug, Clone)]
pub struct Outcome {
    pub cols: Vec<String>,
    /// all rows after DISTINCT and ORDER BY, before SKIP/LIMIT
    pub full: Vec<Vec<RV>>,
    /// with ORDER BY: tie-group number of every row of `full` (non-decreasing)
    pub groups: Option<Vec<usize>>,
    pub skip: usize,
    pub limit: Option<usize>,
}

impl Outcome {
    pub fn expected_len(&self) -> usize {
        let n = self.full.len().saturating_sub(self.skip);
        match self.limit {
            Some(l) => n.min(l),
            None => n,
        }
    }
    /// the rows a deterministic engine taking the first candidates would return
    pub fn window(&self) -> Vec<Vec<RV>> {
        self.full.iter().skip(self.skip).take(self.limit.unwrap_or(usize::MAX)).cloned().collect()
    }
    pub fn sliced(&self) -> bool {
        self.skip > 0 || self.limit.is_some()
    }
}

impl Ctx<'_> {
    fn agg_value(&self, f: AggF, distinct: bool, arg: Option<&Expr>, rows: &[&Row]) -> R<RV> {
        let Some(arg) = arg else { return Ok(RV::Int(rows.len() as i64)) };
        let mut vals: Vec<RV> = Vec::new();
        for r in rows {
            let v = self.eval(arg, r)?;
            if matches!(v, RV::Null) {
                continue;
            }
            if distinct && vals.iter().any(|x| self.equiv(x, &v)) {
                continue;
            }
            vals.push(v);
        }
        Ok(match f {
            AggF::Count => RV::Int(vals.len() as i64),
            AggF::Collect => RV::List(vals),
            AggF::Sum | AggF::Avg => {
                if vals.is_empty() {
                    return Ok(if f == AggF::Sum { RV::Int(0) } else { RV::Null });
                }
                if !vals.iter().all(is_num) {
                    return unsup("sum/avg over non-numbers");
                }
                let all_int = vals.iter().all(|v| matches!(v, RV::Int(_)));
                if f == AggF::Sum && all_int {
                    let mut s: i64 = 0;
                    for v in &vals {
                        if let RV::Int(i) = v {
                            s = match s.checked_add(*i) {
                                Some(x) => x,
                                None => return unsup("integer overflow in sum"),
                            };
                        }
                    }
                    RV::Int(s)
                } else {
                    let mut s = 0.0f64;
                    for v in &vals {
                        s += match v {
                            RV::Int(i) => *i as f64,
                            RV::Float(x) => *x,
                            _ => unreachable!(),
                        };
                    }
                    if f == AggF::Sum { RV::Float(s) } else { RV::Float(s / vals.len() as f64) }
                }
            }
            AggF::Min | AggF::Max => {
                let mut best: Option<RV> = None;
                for v in vals {
                    best = Some(match best {
                        None => v,
                        Some(b) => {
                            let o = order_cmp(&v, &b);
                            if o == Ordering::Equal && !self.equiv(&v, &b) {
                                // `1` vs `1.0`, `0.0` vs `-0.0`: either representative is right
                                self.touch(T_INTFLOAT);
                            }
                            let better = if f == AggF::Min { o == Ordering::Less } else { o == Ordering::Greater };
                            if better { v } else { b }
                        }
                    });
                }
                best.unwrap_or(RV::Null)
            }
        })
    }

    /// Evaluates an expression that may contain aggregate calls over a group.
    fn eval_grouped(&self, e: &Expr, rows: &[&Row], rep: &Row) -> R<RV> {
        if !e.contains_agg() {
            return self.eval(e, rep);
        }
        match e {
            Expr::Agg { f, distinct, arg } => self.agg_value(*f, *distinct, arg.as_deref(), rows),
            // rebuild the node with its aggregate sub-expressions replaced by their values
            Expr::Bin(op, a, b) => {
                let x = self.eval_grouped(a, rows, rep)?;
                let y = self.eval_grouped(b, rows, rep)?;
                let mut tmp = Row::new();
                tmp.insert("\u{1}x".into(), x);
                tmp.insert("\u{1}y".into(), y);
                self.eval(&Expr::bin(*op, Expr::var("\u{1}x"), Expr::var("\u{1}y")), &tmp)
            }
            Expr::Un(op, a) => {
                let x = self.eval_grouped(a, rows, rep)?;
                let mut tmp = Row::new();
                tmp.insert("\u{1}x".into(), x);
                self.eval(&Expr::un(*op, Expr::var("\u{1}x")), &tmp)
            }
            Expr::Func(n, args) => {
                let mut tmp = Row::new();
                let mut vars = Vec::new();
                for (i, a) in args.iter().enumerate() {
                    let k = format!("\u{1}a{i}");
                    tmp.insert(k.clone(), self.eval_grouped(a, rows, rep)?);
                    vars.push(Expr::Var(k));
                }
                self.eval(&Expr::Func(n.clone(), vars), &tmp)
            }
            Expr::Index(a, b) => {
                let x = self.eval_grouped(a, rows, rep)?;
                let y = self.eval_grouped(b, rows, rep)?;
                let mut tmp = Row::new();
                tmp.insert("\u{1}x".into(), x);
                tmp.insert("\u{1}y".into(), y);
                self.eval(&Expr::Index(Box::new(Expr::var("\u{1}x")), Box::new(Expr::var("\u{1}y"))), &tmp)
            }
            _ => unsup("aggregate nested in an unsupported expression form"),
        }
    }

    fn count_arg(&self, e: &Option<Expr>, what: &str) -> R<Option<usize>> {
        match e {
            None => Ok(None),
            Some(x) => match self.eval(x, &Row::new())? {
                RV::Int(i) if i >= 0 => Ok(Some(i as usize)),
                RV::Int(_) => Err(EvalErr::Runtime(format!("negative {what}"))),
                o => unsup(format!("{what} {o:?}")),
            },
        }
    }

    /// Projection of WITH / RETURN. Returns column names and the outcome.
    fn project(&self, rows: Vec<Row>, p: &Proj) -> R<Outcome> {
        let mut cols: Vec<String> = Vec::new();
        let mut star_cols: Vec<String> = Vec::new();
        if p.star {
            if let Some(r) = rows.first() {
                star_cols = r.keys().cloned().collect();
            }
            cols.extend(star_cols.iter().cloned());
        }
        cols.extend(p.items.iter().map(|(_, a)| a.clone()));
        let mut out: Vec<PRow> = Vec::new();
        let grouped = p.has_agg();
        if grouped {
            // grouping keys: star columns and aggregate-free items
            let key_idx: Vec<usize> = p.items.iter().enumerate().filter(|(_, (e, _))| !e.contains_agg()).map(|(i, _)| i).collect();
            let mut groups: Vec<(Vec<RV>, Vec<&Row>)> = Vec::new();
            for r in &rows {
                let mut key: Vec<RV> = star_cols.iter().map(|c| r[c].clone()).collect();
                for &i in &key_idx {
                    key.push(self.eval(&p.items[i].0, r)?);
                }
                self.grouping.set(true);
                let found = groups.iter_mut().find(|(k, _)| self.rows_equiv(k, &key));
                self.grouping.set(false);
                match found {
                    Some(g) => g.1.push(r),
                    None => groups.push((key, vec![r])),
                }
                self.spend(groups.len() / 8 + 1)?;
            }
            if groups.is_empty() && key_idx.is_empty() && star_cols.is_empty() {
                groups.push((Vec::new(), Vec::new()));
            }
            let empty = Row::new();
            for (key, members) in &groups {
                let rep: &Row = members.first().copied().unwrap_or(&empty);
                let mut vals: Vec<RV> = key[..star_cols.len()].to_vec();
                let mut ki = star_cols.len();
                for (e, _) in &p.items {
                    if e.contains_agg() {
                        vals.push(self.eval_grouped(e, members, rep)?);
                    } else {
                        vals.push(key[ki].clone());
                        ki += 1;
                    }
                }
                out.push(PRow { order_scope: cols.iter().cloned().zip(vals.iter().cloned()).collect(), vals });
            }
        } else {
            for r in &rows {
                let mut vals: Vec<RV> = star_cols.iter().map(|c| r[c].clone()).collect();
                for (e, _) in &p.items {
                    vals.push(self.eval(e, r)?);
                }
                let mut scope = if p.distinct { Row::new() } else { r.clone() };
                for (c, v) in cols.iter().zip(&vals) {
                    scope.insert(c.clone(), v.clone());
                }
                out.push(PRow { vals, order_scope: scope });
            }
            self.spend(rows.len())?;
        }
        if p.distinct {
            let mut kept: Vec<PRow> = Vec::new();
            for r in out {
                if !kept.iter().any(|k| self.rows_equiv(&k.vals, &r.vals)) {
                    kept.push(r);
                }
                self.spend(kept.len() / 8 + 1)?;
            }
            out = kept;
        }
        let mut groups: Option<Vec<usize>> = None;
        if !p.order.is_empty() {
            let mut keyed: Vec<(Vec<RV>, PRow)> = Vec::new();
            for r in out {
                let mut ks = Vec::new();
                for (e, _) in &p.order {
                    ks.push(self.eval(e, &r.order_scope)?);
                }
                keyed.push((ks, r));
            }
            let dirs: Vec<bool> = p.order.iter().map(|(_, d)| *d).collect();
            let cmp_keys = |a: &Vec<RV>, b: &Vec<RV>| -> Ordering {
                for ((x, y), desc) in a.iter().zip(b).zip(&dirs) {
                    let o = order_cmp(x, y);
                    let o = if *desc { o.reverse() } else { o };
                    if o != Ordering::Equal {
                        return o;
                    }
                }
                Ordering::Equal
            };
            keyed.sort_by(|a, b| cmp_keys(&a.0, &b.0));
            let mut g = Vec::with_capacity(keyed.len());
            let mut cur = 0usize;
            for i in 0..keyed.len() {
                if i > 0 && cmp_keys(&keyed[i - 1].0, &keyed[i].0) != Ordering::Equal {
                    cur += 1;
                }
                g.push(cur);
            }
            groups = Some(g);
            out = keyed.into_iter().map(|(_, r)| r).collect();
        }
        let skip = self.count_arg(&p.skip, "SKIP")?.unwrap_or(0);
        let limit = self.count_arg(&p.limit, "LIMIT")?;
        Ok(Outcome { cols, full: out.into_iter().map(|r| r.vals).collect(), groups, skip, limit })
    }

    /// The rows an intermediate WITH passes on; fails with `Nondet` when SKIP/LIMIT cut
    /// through rows the order does not distinguish.
    fn determinate_rows(&self, o: &Outcome) -> R<Vec<Vec<RV>>> {
        if o.sliced() {
            let n = o.full.len();
            let lo = o.skip.min(n);
            let hi = lo + o.expected_len();
            for cut in [lo, hi] {
                if cut == 0 || cut >= n {
                    continue;
                }
                // rows on both sides of the cut must be distinguishable by the order, or identical
                let same_group = match &o.groups {
                    Some(g) => g[cut - 1] == g[cut],
                    None => true,
                };
                if same_group {
                    let (a, b) = match &o.groups {
                        Some(g) => {
                            let gid = g[cut];
                            let a = g.iter().position(|x| *x == gid).unwrap();
                            let b = g.iter().rposition(|x| *x == gid).unwrap() + 1;
                            (a, b)
                        }
                        None => (0, n),
                    };
                    let first = &o.full[a];
                    if !o.full[a..b].iter().all(|r| r.len() == first.len() && r.iter().zip(first).all(|(x, y)| strict_same(x, y))) {
                        return Err(EvalErr::Nondet("SKIP/LIMIT cuts through rows the order does not distinguish".into()));
                    }
                }
            }
        }
        Ok(o.window())
    }

    /// One reading clause (MATCH, OPTIONAL MATCH, UNWIND, WITH) over the incoming rows.
    pub fn run_reading_clause(&self, rows: Vec<Row>, c: &Clause) -> R<Vec<Row>> {
        match c {
            Clause::Match { optional, pats, where_ } => {
                let mut next = Vec::new();
                let vars = pattern_vars(pats);
                for r in &rows {
                    let m = self.match_patterns(r, pats, where_.as_ref(), None)?;
                    if m.is_empty() && *optional {
                        let mut r2 = r.clone();
                        for v in &vars {
                            r2.entry(v.clone()).or_insert(RV::Null);
                        }
                        next.push(r2);
                    } else {
                        next.extend(m);
                    }
                    self.spend(1)?;
                }
                Ok(next)
            }
            Clause::Unwind { e, var } => {
                let mut next = Vec::new();
                for r in &rows {
                    match self.eval(e, r)? {
                        RV::Null => {}
                        RV::List(l) => {
                            self.spend(l.len())?;
                            for x in l {
                                let mut r2 = r.clone();
                                r2.insert(var.clone(), x);
                                next.push(r2);
                            }
                        }
                        o => return unsup(format!("UNWIND of {o:?}")),
                    }
                }
                Ok(next)
            }
            Clause::With { p, where_ } => {
                let o = self.project(rows, p)?;
                let vals = self.determinate_rows(&o)?;
                let mut next = Vec::new();
                for v in vals {
                    let r: Row = o.cols.iter().cloned().zip(v).collect();
                    let keep = match where_ {
                        Some(w) => as_bool3(&self.eval(w, &r)?)? == Some(true),
                        None => true,
                    };
                    if keep {
                        next.push(r);
                    }
                }
                Ok(next)
            }
            _ => unsup("not a reading clause"),
        }
    }

    pub fn run_clauses(&self, clauses: &[Clause]) -> R<Outcome> {
        let mut rows: Vec<Row> = vec![Row::new()];
        for (ci, c) in clauses.iter().enumerate() {
            match c {
                Clause::Return { p } => {
                    if ci + 1 != clauses.len() {
                        return unsup("RETURN before the end");
                    }
                    return self.project(rows, p);
                }
                Clause::Match { .. } | Clause::Unwind { .. } | Clause::With { .. } => rows = self.run_reading_clause(rows, c)?,
                _ => return unsup("update clause in a read query"),
            }
        }
        unsup("read query without RETURN")
    }

    pub fn run_query(&self, q: &RQuery) -> R<Outcome> {
        if q.parts.len() == 1 {
            return self.run_clauses(&q.parts[0]);
        }
        let mut cols: Option<Vec<String>> = None;
        let mut all: Vec<Vec<RV>> = Vec::new();
        for part in &q.parts {
            let o = self.run_clauses(part)?;
            match &cols {
                None => cols = Some(o.cols.clone()),
                Some(c) => {
                    if *c != o.cols {
                        return unsup("UNION with different column names");
                    }
                }
            }
            all.extend(self.determinate_rows(&o)?);
        }
        if !q.union_all {
            let mut kept: Vec<Vec<RV>> = Vec::new();
            for r in all {
                if !kept.iter().any(|k| self.rows_equiv(k, &r)) {
                    kept.push(r);
                }
                self.spend(kept.len() / 8 + 1)?;
            }
            all = kept;
        }
        Ok(Outcome { cols: cols.unwrap_or_default(), full: all, groups: None, skip: 0, limit: None })
    }
}

/// Bit-exact sameness (NaN = NaN), independent of any reading.
pub fn strict_same(a: &RV, b: &RV) -> bool {
    match (a, b) {
        (RV::Float(x), RV::Float(y)) => x.to_bits() == y.to_bits() || (x.is_nan() && y.is_nan()),
        (RV::List(x), RV::List(y)) => x.len() == y.len() && x.iter().zip(y).all(|(p, q)| strict_same(p, q)),
        (RV::Map(x), RV::Map(y)) => x.len() == y.len() && x.keys().eq(y.keys()) && x.values().zip(y.values()).all(|(p, q)| strict_same(p, q)),
        (RV::Rel(x), RV::Rel(y)) => x.src == y.src && x.ty == y.ty && x.dst == y.dst,
        (x, y) => x == y,
    }
}
