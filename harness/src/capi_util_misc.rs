//! Small safe wrapper around the C ABI (`nervusdb-capi`, linked as an rlib) used by C34.
//! Self-contained on purpose (agent `cywrite` has a similar file; merge at will).
use std::ffi::{CStr, CString, c_char};
use std::path::Path;
use std::ptr;

pub const CAT_NONE: i32 = 0;
pub const CAT_SYNTAX: i32 = 1;
pub const CAT_EXECUTION: i32 = 2;
pub const CAT_STORAGE: i32 = 3;
pub const CAT_COMPATIBILITY: i32 = 4;

#[derive(Debug, Clone, PartialEq)]
pub struct CErr {
    pub code: i32,
    pub category: i32,
    pub message: String,
}

fn last_error(code: i32) -> CErr {
    let category = capi::ndb_last_error_category();
    let need = capi::ndb_last_error_message(ptr::null_mut(), 0);
    let mut buf = vec![0u8; need + 1];
    capi::ndb_last_error_message(buf.as_mut_ptr().cast::<c_char>(), buf.len());
    let message = CStr::from_bytes_until_nul(&buf).map(|c| c.to_string_lossy().into_owned()).unwrap_or_default();
    CErr { code, category, message }
}

pub fn category_name(c: i32) -> &'static str {
    match c {
        CAT_NONE => "none",
        CAT_SYNTAX => "syntax",
        CAT_EXECUTION => "execution",
        CAT_STORAGE => "storage",
        CAT_COMPATIBILITY => "compatibility",
        _ => "unknown",
    }
}

/// An open database handle of the C ABI. Not `Send`: use it on the thread that opened it.
pub struct CDb {
    raw: *mut capi::ndb_db_t,
}

impl CDb {
    pub fn open(path: &Path) -> Result<CDb, CErr> {
        let p = CString::new(path.to_string_lossy().as_bytes()).expect("path without NUL");
        let mut raw: *mut capi::ndb_db_t = ptr::null_mut();
        let rc = capi::ndb_open(p.as_ptr(), &mut raw);
        if rc != capi::NDB_OK {
            return Err(last_error(rc));
        }
        Ok(CDb { raw })
    }

    /// `ndb_query` + `ndb_result_to_json`: the parsed JSON document (an array of row objects).
    pub fn query(&self, cypher: &str, params_json: Option<&str>) -> Result<serde_json::Value, CErr> {
        let (Ok(q), Ok(p)) = (CString::new(cypher), params_json.map(CString::new).transpose()) else {
            return Err(CErr { code: -1, category: -1, message: "harness: NUL in statement or parameters".into() });
        };
        let mut res: *mut capi::ndb_result_t = ptr::null_mut();
        let rc = capi::ndb_query(self.raw, q.as_ptr(), p.as_ref().map_or(ptr::null(), |c| c.as_ptr()), &mut res);
        if rc != capi::NDB_OK {
            return Err(last_error(rc));
        }
        let mut text: *mut c_char = ptr::null_mut();
        let rc = capi::ndb_result_to_json(res, &mut text);
        if rc != capi::NDB_OK {
            let e = last_error(rc);
            capi::ndb_result_free(res);
            return Err(e);
        }
        let s = unsafe { CStr::from_ptr(text) }.to_string_lossy().into_owned();
        capi::ndb_string_free(text);
        capi::ndb_result_free(res);
        serde_json::from_str(&s).map_err(|e| CErr { code: -2, category: -1, message: format!("harness: result is not JSON: {e}: {s}") })
    }

    /// `ndb_execute_write`: the reported change count.
    pub fn execute_write(&self, cypher: &str, params_json: Option<&str>) -> Result<u32, CErr> {
        let (Ok(q), Ok(p)) = (CString::new(cypher), params_json.map(CString::new).transpose()) else {
            return Err(CErr { code: -1, category: -1, message: "harness: NUL in statement or parameters".into() });
        };
        let mut n: u32 = 0;
        let rc = capi::ndb_execute_write(self.raw, q.as_ptr(), p.as_ref().map_or(ptr::null(), |c| c.as_ptr()), &mut n);
        if rc != capi::NDB_OK {
            return Err(last_error(rc));
        }
        Ok(n)
    }

    pub fn close(mut self) -> Result<(), CErr> {
        let raw = std::mem::replace(&mut self.raw, ptr::null_mut());
        let rc = capi::ndb_close(raw);
        if rc != capi::NDB_OK {
            return Err(last_error(rc));
        }
        Ok(())
    }
}

impl Drop for CDb {
    fn drop(&mut self) {
        if !self.raw.is_null() {
            let _ = capi::ndb_close(self.raw);
            self.raw = ptr::null_mut();
        }
    }
}
