//! Safe wrappers around the C ABI (`nervusdb-capi`, crate `capi` in this harness).
//!
//! * `CDb`   – an open database handle (`ndb_open` .. `ndb_close`; closed on drop).
//! * `CTxn`  – an explicit write transaction (`ndb_begin_write`, `ndb_txn_query`,
//!   `ndb_txn_commit` / `ndb_txn_rollback`; rolled back on drop if still active).
//! * `CStmt` – a prepared statement (`ndb_prepare_read/write`, binds, `ndb_stmt_step`,
//!   `ndb_stmt_column_json`; finalized on drop).
//! * `CErr`  – return code + `ndb_last_error_*` of the calling thread.
//!
//! All strings go through `CString` (an interior NUL is reported as a `CErr` with code -1
//! without calling into the library), every returned buffer/result is freed here.
//!
//! NOTE: the C entry points are `extern "C"` functions; a Rust panic inside one of them
//! aborts the process (it cannot be caught), so keep statements sent through this module
//! inside what the Rust API (`cy::write`/`cy::read`) is known not to panic on.
use capi::*;
use nervusdb::Db;
use serde_json::Value as J;
use std::ffi::{CStr, CString, c_char, c_int};
use std::marker::PhantomData;
use std::path::Path;
use std::ptr;

#[derive(Debug, Clone, PartialEq)]
pub struct CErr {
    /// return code of the failed call (`NDB_ERR_*`), -1 for wrapper-side failures
    pub code: i32,
    /// `ndb_last_error_code()` (should equal `code`)
    pub last_code: i32,
    /// `ndb_last_error_category()` (`NDB_ERRCAT_*`)
    pub category: i32,
    pub message: String,
}

impl std::fmt::Display for CErr {
    fn fmt(&self, f: &mut std::fmt::Formatter<'_>) -> std::fmt::Result {
        write!(f, "capi error {} (category {}): {}", self.code, self.category, self.message)
    }
}

/// Message of the calling thread's last error (two-step: length query, then copy).
pub fn last_error_message() -> String {
    let need = ndb_last_error_message(ptr::null_mut(), 0);
    let mut buf = vec![0 as c_char; need + 1];
    ndb_last_error_message(buf.as_mut_ptr(), buf.len());
    unsafe { CStr::from_ptr(buf.as_ptr()) }.to_string_lossy().into_owned()
}

fn last_err(code: c_int) -> CErr {
    CErr {
        code,
        last_code: ndb_last_error_code(),
        category: ndb_last_error_category(),
        message: last_error_message(),
    }
}

fn check(code: c_int) -> Result<(), CErr> {
    if code == NDB_OK { Ok(()) } else { Err(last_err(code)) }
}

fn cstring(s: &str, what: &str) -> Result<CString, CErr> {
    CString::new(s).map_err(|_| CErr {
        code: -1,
        last_code: 0,
        category: 0,
        message: format!("{what} contains an interior NUL"),
    })
}

fn opt_cstring(s: Option<&str>, what: &str) -> Result<Option<CString>, CErr> {
    s.map(|s| cstring(s, what)).transpose()
}

fn opt_ptr(s: &Option<CString>) -> *const c_char {
    s.as_ref().map(|c| c.as_ptr()).unwrap_or(ptr::null())
}

pub struct CDb {
    ptr: *mut ndb_db_t,
}

// The handle is only ever used by the thread that owns the wrapper (not Sync).
unsafe impl Send for CDb {}

impl CDb {
    pub fn open(path: &Path) -> Result<CDb, CErr> {
        let p = cstring(&path.to_string_lossy(), "path")?;
        let mut db: *mut ndb_db_t = ptr::null_mut();
        check(ndb_open(p.as_ptr(), &mut db))?;
        Ok(CDb { ptr: db })
    }

    pub fn raw(&self) -> *mut ndb_db_t {
        self.ptr
    }

    /// The `Db` behind the handle (verification hook `capi::verif_db`): lets the harness
    /// dump the in-process state through the Rust read interfaces.
    pub fn db(&self) -> &Db {
        unsafe { capi::verif_db(self.ptr) }.expect("open handle")
    }

    /// `ndb_execute_write`: one auto-commit write statement; returns the change count.
    pub fn execute_write(&self, cypher: &str, params_json: Option<&str>) -> Result<u32, CErr> {
        let q = cstring(cypher, "cypher")?;
        let p = opt_cstring(params_json, "params_json")?;
        let mut n: u32 = 0;
        check(ndb_execute_write(self.ptr, q.as_ptr(), opt_ptr(&p), &mut n))?;
        Ok(n)
    }

    /// `ndb_query` + `ndb_result_to_json`: the rows as a JSON array of objects.
    pub fn query_json(&self, cypher: &str, params_json: Option<&str>) -> Result<J, CErr> {
        let text = self.query_text(cypher, params_json)?;
        serde_json::from_str(&text).map_err(|e| CErr {
            code: -1,
            last_code: 0,
            category: 0,
            message: format!("result is not JSON: {e}: {text}"),
        })
    }

    /// `ndb_query` + `ndb_result_to_json`: the raw JSON text.
    pub fn query_text(&self, cypher: &str, params_json: Option<&str>) -> Result<String, CErr> {
        let q = cstring(cypher, "cypher")?;
        let p = opt_cstring(params_json, "params_json")?;
        let mut res: *mut ndb_result_t = ptr::null_mut();
        check(ndb_query(self.ptr, q.as_ptr(), opt_ptr(&p), &mut res))?;
        let mut js: *mut c_char = ptr::null_mut();
        let rc = ndb_result_to_json(res, &mut js);
        if rc != NDB_OK {
            let e = last_err(rc);
            ndb_result_free(res);
            return Err(e);
        }
        let text = unsafe { CStr::from_ptr(js) }.to_string_lossy().into_owned();
        ndb_string_free(js);
        ndb_result_free(res);
        Ok(text)
    }

    /// `ndb_begin_write`: blocks until the writer lock is free.
    pub fn begin_write(&self) -> Result<CTxn<'_>, CErr> {
        let mut t: *mut ndb_txn_t = ptr::null_mut();
        check(ndb_begin_write(self.ptr, &mut t))?;
        Ok(CTxn { ptr: t, _db: PhantomData })
    }

    pub fn compact(&self) -> Result<(), CErr> {
        check(ndb_compact(self.ptr))
    }

    pub fn checkpoint(&self) -> Result<(), CErr> {
        check(ndb_checkpoint(self.ptr))
    }

    pub fn create_index(&self, label: &str, property: &str) -> Result<(), CErr> {
        let l = cstring(label, "label")?;
        let p = cstring(property, "property")?;
        check(ndb_create_index(self.ptr, l.as_ptr(), p.as_ptr()))
    }

    pub fn prepare_read(&self, cypher: &str) -> Result<CStmt<'_>, CErr> {
        let q = cstring(cypher, "cypher")?;
        let mut s: *mut ndb_stmt_t = ptr::null_mut();
        check(ndb_prepare_read(self.ptr, q.as_ptr(), &mut s))?;
        Ok(CStmt { ptr: s, _db: PhantomData })
    }

    pub fn prepare_write(&self, cypher: &str) -> Result<CStmt<'_>, CErr> {
        let q = cstring(cypher, "cypher")?;
        let mut s: *mut ndb_stmt_t = ptr::null_mut();
        check(ndb_prepare_write(self.ptr, q.as_ptr(), &mut s))?;
        Ok(CStmt { ptr: s, _db: PhantomData })
    }

    /// `ndb_close` (checkpoint-on-close). On `NDB_ERR_BUSY` the handle stays open and is
    /// leaked by this wrapper (the caller still holds a transaction, which is a harness bug).
    pub fn close(mut self) -> Result<(), CErr> {
        let p = std::mem::replace(&mut self.ptr, ptr::null_mut());
        check(ndb_close(p))
    }
}

impl Drop for CDb {
    fn drop(&mut self) {
        if !self.ptr.is_null() {
            let _ = ndb_close(self.ptr);
            self.ptr = ptr::null_mut();
        }
    }
}

/// Explicit write transaction. Borrowing the `CDb` keeps the handle open while it lives.
pub struct CTxn<'a> {
    ptr: *mut ndb_txn_t,
    _db: PhantomData<&'a CDb>,
}

impl CTxn<'_> {
    pub fn raw(&self) -> *mut ndb_txn_t {
        self.ptr
    }

    /// `ndb_txn_query`: one write statement inside the transaction.
    pub fn query(&mut self, cypher: &str, params_json: Option<&str>) -> Result<(), CErr> {
        let q = cstring(cypher, "cypher")?;
        let p = opt_cstring(params_json, "params_json")?;
        check(ndb_txn_query(self.ptr, q.as_ptr(), opt_ptr(&p)))
    }

    /// `ndb_txn_commit` (consumes the transaction whatever the outcome, like the C call).
    pub fn commit(mut self) -> Result<(), CErr> {
        let p = std::mem::replace(&mut self.ptr, ptr::null_mut());
        check(ndb_txn_commit(p))
    }

    pub fn rollback(mut self) -> Result<(), CErr> {
        let p = std::mem::replace(&mut self.ptr, ptr::null_mut());
        check(ndb_txn_rollback(p))
    }
}

impl Drop for CTxn<'_> {
    fn drop(&mut self) {
        if !self.ptr.is_null() {
            let _ = ndb_txn_rollback(self.ptr);
            self.ptr = ptr::null_mut();
        }
    }
}

#[derive(Debug, Clone, Copy, PartialEq, Eq)]
pub enum Step {
    Row,
    Done,
}

/// Prepared statement (`ndb_stmt_t`).
pub struct CStmt<'a> {
    ptr: *mut ndb_stmt_t,
    _db: PhantomData<&'a CDb>,
}

impl CStmt<'_> {
    pub fn raw(&self) -> *mut ndb_stmt_t {
        self.ptr
    }
    pub fn bind_null(&mut self, name: &str) -> Result<(), CErr> {
        let n = cstring(name, "name")?;
        check(ndb_stmt_bind_null(self.ptr, n.as_ptr()))
    }
    pub fn bind_bool(&mut self, name: &str, v: bool) -> Result<(), CErr> {
        let n = cstring(name, "name")?;
        check(ndb_stmt_bind_bool(self.ptr, n.as_ptr(), v as c_int))
    }
    pub fn bind_int64(&mut self, name: &str, v: i64) -> Result<(), CErr> {
        let n = cstring(name, "name")?;
        check(ndb_stmt_bind_int64(self.ptr, n.as_ptr(), v))
    }
    pub fn bind_double(&mut self, name: &str, v: f64) -> Result<(), CErr> {
        let n = cstring(name, "name")?;
        check(ndb_stmt_bind_double(self.ptr, n.as_ptr(), v))
    }
    pub fn bind_string(&mut self, name: &str, v: &str) -> Result<(), CErr> {
        let n = cstring(name, "name")?;
        let v = cstring(v, "value")?;
        check(ndb_stmt_bind_string(self.ptr, n.as_ptr(), v.as_ptr()))
    }
    /// `v` must be a JSON array.
    pub fn bind_list_json(&mut self, name: &str, v: &str) -> Result<(), CErr> {
        let n = cstring(name, "name")?;
        let v = cstring(v, "value_json")?;
        check(ndb_stmt_bind_list(self.ptr, n.as_ptr(), v.as_ptr()))
    }
    /// `v` must be a JSON object.
    pub fn bind_map_json(&mut self, name: &str, v: &str) -> Result<(), CErr> {
        let n = cstring(name, "name")?;
        let v = cstring(v, "value_json")?;
        check(ndb_stmt_bind_map(self.ptr, n.as_ptr(), v.as_ptr()))
    }
    pub fn step(&mut self) -> Result<Step, CErr> {
        let mut st: c_int = 0;
        check(ndb_stmt_step(self.ptr, &mut st))?;
        match st {
            NDB_STEP_ROW => Ok(Step::Row),
            NDB_STEP_DONE => Ok(Step::Done),
            other => Err(CErr { code: -1, last_code: 0, category: 0, message: format!("unexpected step state {other}") }),
        }
    }
    pub fn column_count(&self) -> usize {
        ndb_stmt_column_count(self.ptr)
    }
    /// `NDB_COL_*`
    pub fn column_type(&self, col: usize) -> i32 {
        ndb_stmt_column_type(self.ptr, col)
    }
    pub fn column_json(&self, col: usize) -> Result<J, CErr> {
        let mut js: *mut c_char = ptr::null_mut();
        check(ndb_stmt_column_json(self.ptr, col, &mut js))?;
        let text = unsafe { CStr::from_ptr(js) }.to_string_lossy().into_owned();
        ndb_string_free(js);
        serde_json::from_str(&text).map_err(|e| CErr { code: -1, last_code: 0, category: 0, message: format!("column is not JSON: {e}: {text}") })
    }
    pub fn write_count(&self) -> Result<u32, CErr> {
        let mut n = 0u32;
        check(ndb_stmt_write_count(self.ptr, &mut n))?;
        Ok(n)
    }
    pub fn reset(&mut self) -> Result<(), CErr> {
        check(ndb_stmt_reset(self.ptr))
    }
    /// All remaining rows as JSON values per column.
    pub fn collect_rows(&mut self) -> Result<Vec<Vec<J>>, CErr> {
        let mut out = Vec::new();
        while self.step()? == Step::Row {
            let n = self.column_count();
            let mut row = Vec::with_capacity(n);
            for c in 0..n {
                row.push(self.column_json(c)?);
            }
            out.push(row);
        }
        Ok(out)
    }
}

impl Drop for CStmt<'_> {
    fn drop(&mut self) {
        if !self.ptr.is_null() {
            let _ = ndb_stmt_finalize(self.ptr);
            self.ptr = ptr::null_mut();
        }
    }
}
