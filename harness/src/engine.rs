//! Seeded, sharded property runner with replay, known-findings protocol and evidence.
//!
//! A property module calls `ctx.explore(section, cases, strategy, test)` one or more
//! times and finally `ctx.finish()`. The same code path serves exploration, replay of a
//! saved counterexample (`--replay`), the regression tier (`replays/<ID>/*.json`) and the
//! reproducers of `known_findings.json`.

use proptest::strategy::{Strategy, ValueTree};
use proptest::test_runner::{Config, RngAlgorithm, TestCaseError, TestError, TestRng, TestRunner};
use serde::de::DeserializeOwned;
use serde::{Deserialize, Serialize};
use serde_json::{Value as J, json};
use std::cell::RefCell;
use std::collections::{BTreeMap, HashSet};
use std::hash::{Hash, Hasher};
use std::path::{Path, PathBuf};
use std::sync::Mutex;
use std::sync::atomic::{AtomicBool, AtomicU64, Ordering};
use std::time::Instant;

pub const SHARDS: u64 = 16;

#[derive(Debug, Clone, Copy, PartialEq, Eq)]
pub enum Tier {
    Quick,
    Thorough,
}

impl Tier {
    pub fn name(self) -> &'static str {
        match self {
            Tier::Quick => "quick",
            Tier::Thorough => "thorough",
        }
    }
    /// `q` in quick, `t` in thorough.
    pub fn pick<T>(self, q: T, t: T) -> T {
        match self {
            Tier::Quick => q,
            Tier::Thorough => t,
        }
    }
}

#[derive(Debug, Clone)]
pub struct Failure {
    /// Stable, specific classification of the failure (used to match known findings).
    pub signature: String,
    pub message: String,
}

impl Failure {
    pub fn new(signature: impl Into<String>, message: impl Into<String>) -> Self {
        Failure {
            signature: signature.into(),
            message: message.into(),
        }
    }
}

pub type CaseResult = Result<(), Failure>;

#[macro_export]
macro_rules! fail {
    ($sig:expr, $($arg:tt)*) => {
        return Err($crate::engine::Failure::new($sig, format!($($arg)*)))
    };
}

/// Per-case observations recorded by the test body.
#[derive(Default)]
pub struct Obs {
    nontrivial: bool,
    classes: Vec<String>,
    /// additional sub-evaluations performed by this case (crash points, queries, ...)
    extra_evals: u64,
    /// fingerprints of distinct non-trivial sub-evaluations
    sub_fingerprints: Vec<u64>,
    counters: Vec<(String, u64)>,
    sample: Option<J>,
    excluded: Vec<String>,
}

impl Obs {
    pub fn nontrivial(&mut self) {
        self.nontrivial = true;
    }
    pub fn set_nontrivial(&mut self, b: bool) {
        self.nontrivial = self.nontrivial || b;
    }
    pub fn class(&mut self, c: &str) {
        if !self.classes.iter().any(|x| x == c) {
            self.classes.push(c.to_string());
        }
    }
    pub fn class_if(&mut self, cond: bool, c: &str) {
        if cond {
            self.class(c);
        }
    }
    /// One more oracle evaluation inside this case; `fp` identifies it if non-trivial.
    pub fn sub_eval(&mut self, nontrivial_fp: Option<u64>) {
        self.extra_evals += 1;
        if let Some(fp) = nontrivial_fp {
            self.sub_fingerprints.push(fp);
        }
    }
    pub fn count(&mut self, name: &str, n: u64) {
        self.counters.push((name.to_string(), n));
    }
    /// Replace the default sample (the serialized case) by something more readable.
    pub fn sample(&mut self, v: J) {
        self.sample = Some(v);
    }
    /// The case (or a part of it) was excluded by construction because of a known finding.
    pub fn excluded(&mut self, why: &str) {
        self.excluded.push(why.to_string());
    }
}

pub fn fp<T: Hash>(t: &T) -> u64 {
    let mut h = std::collections::hash_map::DefaultHasher::new();
    t.hash(&mut h);
    h.finish()
}

pub fn fp_str(s: &str) -> u64 {
    fp(&s)
}

#[derive(Debug, Clone, Serialize, Deserialize)]
pub struct KnownFinding {
    pub status: String, // "open" | "fixed"
    pub property: String,
    pub signature: String,
    pub what: String,
    #[serde(default)]
    pub section: Option<String>,
    #[serde(default)]
    pub repro: Option<J>,
    #[serde(default)]
    pub commit: Option<String>,
    /// name of the trigger class the generator excludes by construction while this
    /// finding is open
    #[serde(default)]
    pub excludes: Option<String>,
}

#[derive(Debug, Clone, Serialize, Deserialize)]
pub struct ReplayFile {
    pub property: String,
    pub section: String,
    pub seed: u64,
    pub signature: String,
    pub message: String,
    pub case: J,
}

#[derive(Default)]
struct Agg {
    evaluations: u64,
    cases: u64,
    nontrivial: HashSet<u64>,
    classes: BTreeMap<String, u64>,
    counters: BTreeMap<String, u64>,
    excluded: BTreeMap<String, u64>,
    known_hits: BTreeMap<String, u64>,
    samples: Vec<J>,
    failure: Option<(J, Failure)>,
}

#[derive(Clone, Debug)]
pub enum Mode {
    Explore,
    Replay(PathBuf),
}

pub struct SectionReport {
    pub name: String,
    pub rule: String,
    pub evaluations: u64,
    pub cases: u64,
    pub distinct_nontrivial: u64,
    pub classes: BTreeMap<String, u64>,
    pub counters: BTreeMap<String, u64>,
    pub excluded: BTreeMap<String, u64>,
    pub known_hits: BTreeMap<String, u64>,
    pub samples: Vec<J>,
    pub exhaustive: bool,
}

pub struct RunCtx {
    pub id: &'static str,
    pub level: &'static str,
    pub tier: Tier,
    pub seed: u64,
    pub mode: Mode,
    pub verif_root: PathBuf,
    pub scratch_root: PathBuf,
    known: Vec<KnownFinding>,
    sections: Vec<SectionReport>,
    violations: Vec<(String, String)>, // (replay path, message)
    known_lines: Vec<String>,
    notes: Vec<String>,
    assumptions: Vec<String>,
    start: Instant,
    strict: bool,
    /// proptest shrink budget for the following sections (expensive cases lower it)
    pub shrink_iters: u32,
}

static DIR_COUNTER: AtomicU64 = AtomicU64::new(0);
static SCRATCH: std::sync::OnceLock<PathBuf> = std::sync::OnceLock::new();

/// Fresh scratch directory (tmpfs when available), removed on drop.
pub fn temp_dir() -> TempDir {
    let root = SCRATCH.get().expect("scratch root");
    let n = DIR_COUNTER.fetch_add(1, Ordering::Relaxed);
    let p = root.join(format!("c{n}"));
    std::fs::create_dir_all(&p).expect("case dir");
    TempDir(p)
}

/// Scratch directory removed on drop.
pub struct TempDir(pub PathBuf);

impl TempDir {
    pub fn path(&self) -> &Path {
        &self.0
    }
    pub fn join(&self, s: &str) -> PathBuf {
        self.0.join(s)
    }
}

impl Drop for TempDir {
    fn drop(&mut self) {
        let _ = std::fs::remove_dir_all(&self.0);
    }
}

thread_local! {
    static LAST_PANIC: RefCell<Option<(String, String)>> = const { RefCell::new(None) };
    static QUIET_PANICS: RefCell<bool> = const { RefCell::new(false) };
    /// The case under test on this thread and how to serialise it (for the abort path below).
    static CUR_CASE: std::cell::Cell<Option<(*const (), fn(*const ()) -> String)>> = const { std::cell::Cell::new(None) };
}

/// (property id, /verif root, seed, section) of the running check, for the abort path.
static ABORT_CTX: Mutex<Option<(String, PathBuf, u64, String)>> = Mutex::new(None);

fn ser_case<C: Serialize>(p: *const ()) -> String {
    // SAFETY: `p` was taken from a `&C` that outlives the test call during which the hook can run
    serde_json::to_string(unsafe { &*(p as *const C) }).unwrap_or_else(|_| "null".into())
}

/// A panic inside an `extern "C"` function of the C API cannot unwind: the runtime calls the
/// panic hook once more ("panic in a function that cannot unwind") and aborts the process.
/// `catch` never sees it, so the hook itself reports the violation with the unshrunk case.
fn report_abort(original: Option<(String, String)>) -> ! {
    use std::io::Write;
    let (loc, msg) = original.unwrap_or(("?".into(), "?".into()));
    let ctx = ABORT_CTX.lock().map(|g| g.clone()).unwrap_or(None);
    let (id, root, seed, section) = ctx.unwrap_or(("?".into(), std::env::temp_dir(), 0, "?".into()));
    let case: J = CUR_CASE
        .with(|c| c.get())
        .map(|(p, f)| serde_json::from_str(&f(p)).unwrap_or(J::Null))
        .unwrap_or(J::Null);
    let rf = ReplayFile {
        property: id.clone(),
        section: section.clone(),
        seed,
        signature: format!("abort:panic-in-extern-c@{loc}"),
        message: format!("the process aborts: panic at {loc} inside a function that cannot unwind: {msg} (case not shrunk)"),
        case,
    };
    let dir = root.join("replays").join(&id);
    let _ = std::fs::create_dir_all(&dir);
    let path = dir.join(format!("{section}-{seed}-abort-{:016x}.json", fp(&(rf.case.to_string(), &rf.signature))));
    let _ = std::fs::write(&path, serde_json::to_string_pretty(&rf).unwrap_or_default());
    println!("VIOLATION property={id} replay={}", path.display());
    println!("  detail: {} :: {}", rf.signature, rf.message);
    let _ = std::io::stdout().flush();
    std::process::exit(1);
}

pub fn install_panic_hook() {
    let default = std::panic::take_hook();
    std::panic::set_hook(Box::new(move |info| {
        let loc = info
            .location()
            .map(|l| {
                let f = l.file();
                // keep the path relative to the crate so signatures survive relocation
                let f = f.rsplit_once("/repo/").map(|x| x.1).unwrap_or(f);
                format!("{}:{}", f, l.line())
            })
            .unwrap_or_else(|| "?".into());
        let msg = if let Some(s) = info.payload().downcast_ref::<&str>() {
            s.to_string()
        } else if let Some(s) = info.payload().downcast_ref::<String>() {
            s.clone()
        } else {
            "<non-string panic>".to_string()
        };
        if msg.contains("cannot unwind") {
            report_abort(LAST_PANIC.with(|p| p.borrow_mut().take()));
        }
        let quiet = QUIET_PANICS.with(|q| *q.borrow());
        LAST_PANIC.with(|p| *p.borrow_mut() = Some((loc, msg)));
        if !quiet {
            default(info);
        }
    }));
}

/// Runs `f`, converting a panic into `Err((location, message))`.
pub fn catch<T>(f: impl FnOnce() -> T) -> Result<T, (String, String)> {
    let prev = QUIET_PANICS.with(|q| std::mem::replace(&mut *q.borrow_mut(), true));
    LAST_PANIC.with(|p| *p.borrow_mut() = None);
    let r = std::panic::catch_unwind(std::panic::AssertUnwindSafe(f));
    QUIET_PANICS.with(|q| *q.borrow_mut() = prev);
    match r {
        Ok(v) => Ok(v),
        Err(_) => Err(LAST_PANIC
            .with(|p| p.borrow_mut().take())
            .unwrap_or(("?".into(), "?".into()))),
    }
}

fn mix(seed: u64, id: &str, section: &str, shard: u64) -> [u8; 32] {
    let mut out = [0u8; 32];
    for (i, chunk) in out.chunks_mut(8).enumerate() {
        let v = fp(&(seed, id, section, shard, i as u64, 0x9e3779b97f4a7c15u64));
        chunk.copy_from_slice(&v.to_le_bytes());
    }
    out
}

impl RunCtx {
    pub fn new(id: &'static str, level: &'static str, tier: Tier, seed: u64, mode: Mode) -> Self {
        let verif_root = std::env::var("NVCHECK_ROOT")
            .map(PathBuf::from)
            .unwrap_or_else(|_| PathBuf::from(concat!(env!("CARGO_MANIFEST_DIR"), "/..")));
        let verif_root = std::fs::canonicalize(&verif_root).unwrap_or(verif_root);
        let base = if Path::new("/dev/shm").is_dir() {
            PathBuf::from("/dev/shm")
        } else {
            std::env::temp_dir()
        };
        let scratch_root = base.join(format!("nvcheck-{}-{}", id, std::process::id()));
        let _ = std::fs::remove_dir_all(&scratch_root);
        std::fs::create_dir_all(&scratch_root).expect("scratch dir");
        let _ = SCRATCH.set(scratch_root.clone());
        let known: Vec<KnownFinding> = std::fs::read_to_string(verif_root.join("known_findings.json"))
            .ok()
            .and_then(|s| serde_json::from_str::<Vec<KnownFinding>>(&s).ok())
            .unwrap_or_default()
            .into_iter()
            .filter(|k| k.property == id)
            .collect();
        RunCtx {
            id,
            level,
            tier,
            seed,
            mode,
            verif_root,
            scratch_root,
            known,
            sections: Vec::new(),
            violations: Vec::new(),
            known_lines: Vec::new(),
            notes: Vec::new(),
            assumptions: Vec::new(),
            start: Instant::now(),
            strict: std::env::var("NVCHECK_STRICT").is_ok(),
            shrink_iters: 4000,
        }
    }

    pub fn assume(&mut self, s: &str) {
        self.assumptions.push(s.to_string());
    }

    pub fn note(&mut self, s: impl Into<String>) {
        self.notes.push(s.into());
    }

    pub fn temp_dir(&self) -> TempDir {
        let n = DIR_COUNTER.fetch_add(1, Ordering::Relaxed);
        let p = self.scratch_root.join(format!("c{n}"));
        std::fs::create_dir_all(&p).expect("case dir");
        TempDir(p)
    }

    /// Is `sig` an open known finding of this property? (strict mode: never)
    pub fn is_known(&self, sig: &str) -> bool {
        !self.strict
            && self
                .known
                .iter()
                .any(|k| k.status == "open" && sig_matches(&k.signature, sig))
    }

    /// Is the trigger class `name` excluded by construction (an open finding names it)?
    pub fn excluding(&self, name: &str) -> bool {
        !self.strict && self.known.iter().any(|k| k.status == "open" && k.excludes.as_deref() == Some(name))
    }

    pub fn has_open(&self, sig_prefix: &str) -> bool {
        self.known
            .iter()
            .any(|k| k.status == "open" && k.signature.starts_with(sig_prefix))
    }

    fn run_one<C: Serialize>(
        &self,
        c: &C,
        test: &(impl Fn(&C, &mut Obs) -> CaseResult + Sync),
    ) -> (CaseResult, Obs) {
        let mut obs = Obs::default();
        CUR_CASE.with(|cur| cur.set(Some((c as *const C as *const (), ser_case::<C> as fn(*const ()) -> String))));
        let r = catch(|| test(c, &mut obs));
        CUR_CASE.with(|cur| cur.set(None));
        let r = match r {
            Ok(r) => r,
            Err((loc, msg)) => Err(Failure::new(
                format!("panic@{loc}"),
                format!("panic at {loc}: {msg}"),
            )),
        };
        (r, obs)
    }

    fn save_replay(&mut self, section: &str, case: &J, f: &Failure) -> String {
        let dir = self.verif_root.join("replays").join(self.id);
        let _ = std::fs::create_dir_all(&dir);
        let name = format!(
            "{}-{}-{:016x}.json",
            section,
            self.seed,
            fp(&(case.to_string(), &f.signature))
        );
        let path = dir.join(name);
        let rf = ReplayFile {
            property: self.id.to_string(),
            section: section.to_string(),
            seed: self.seed,
            signature: f.signature.clone(),
            message: f.message.clone(),
            case: case.clone(),
        };
        let _ = std::fs::write(&path, serde_json::to_string_pretty(&rf).unwrap());
        path.display().to_string()
    }

    /// Deterministic fixed cases (exhaustive enumerations, hand-written regression cases)
    /// go through the same protocol as generated ones.
    pub fn explore<C, S>(
        &mut self,
        section: &str,
        rule: &str,
        cases: u64,
        strategy: impl Fn() -> S + Sync,
        test: impl Fn(&C, &mut Obs) -> CaseResult + Sync,
    ) where
        C: std::fmt::Debug + Clone + Serialize + DeserializeOwned + Send,
        S: Strategy<Value = C>,
    {
        self.explore_with(section, rule, cases, Vec::new(), false, strategy, test)
    }

    #[allow(clippy::too_many_arguments)]
    pub fn explore_with<C, S>(
        &mut self,
        section: &str,
        rule: &str,
        cases: u64,
        fixed: Vec<C>,
        exhaustive: bool,
        strategy: impl Fn() -> S + Sync,
        test: impl Fn(&C, &mut Obs) -> CaseResult + Sync,
    ) where
        C: std::fmt::Debug + Clone + Serialize + DeserializeOwned + Send,
        S: Strategy<Value = C>,
    {
        if let Ok(mut g) = ABORT_CTX.lock() {
            *g = Some((self.id.to_string(), self.verif_root.clone(), self.seed, section.to_string()));
        }
        // ---- replay mode: only the named file
        if let Mode::Replay(path) = self.mode.clone() {
            let Ok(txt) = std::fs::read_to_string(&path) else {
                return;
            };
            let Ok(rf) = serde_json::from_str::<ReplayFile>(&txt) else {
                return;
            };
            if rf.section != section {
                return;
            }
            match serde_json::from_value::<C>(rf.case.clone()) {
                Ok(c) => {
                    let (r, _) = self.run_one(&c, &test);
                    match r {
                        Ok(()) => println!("REPLAY-PASS property={} section={}", self.id, section),
                        Err(f) => {
                            println!(
                                "REPLAY-FAIL property={} section={} signature={} :: {}",
                                self.id, section, f.signature, f.message
                            );
                            self.violations.push((path.display().to_string(), f.message));
                        }
                    }
                }
                Err(e) => println!("REPLAY-ERROR cannot decode case: {e}"),
            }
            return;
        }

        let mut agg = Agg::default();

        // ---- 1. known findings' reproducers and fixed entries
        let known = self.known.clone();
        for k in known.iter().filter(|k| k.section.as_deref() == Some(section)) {
            let Some(repro) = &k.repro else { continue };
            let c: C = match serde_json::from_value(repro.clone()) {
                Ok(c) => c,
                Err(e) => {
                    self.note(format!("known finding {} has undecodable repro: {e}", k.signature));
                    continue;
                }
            };
            let (r, _) = self.run_one(&c, &test);
            agg.evaluations += 1;
            match (k.status.as_str(), r) {
                ("open", Err(f)) if sig_matches(&k.signature, &f.signature) => {
                    self.known_lines.push(format!(
                        "KNOWN-FINDING: property={} {} [{}]",
                        self.id, k.what, k.signature
                    ));
                }
                ("open", Ok(())) => {
                    self.note(format!(
                        "open known finding no longer reproduces: {}",
                        k.signature
                    ));
                }
                (_, Err(f)) => {
                    // fixed entry failing again, or open entry failing differently
                    let p = self.save_replay(section, repro, &f);
                    self.violations.push((p, format!("{} :: {}", f.signature, f.message)));
                }
                (_, Ok(())) => {}
            }
        }

        // ---- 2. regression tier: saved replays of this section
        let rdir = self.verif_root.join("replays").join(self.id);
        if let Ok(rd) = std::fs::read_dir(&rdir) {
            let mut files: Vec<PathBuf> = rd.flatten().map(|e| e.path()).collect();
            files.sort();
            for p in files {
                let Ok(txt) = std::fs::read_to_string(&p) else { continue };
                let Ok(rf) = serde_json::from_str::<ReplayFile>(&txt) else { continue };
                if rf.section != section {
                    continue;
                }
                let Ok(c) = serde_json::from_value::<C>(rf.case.clone()) else { continue };
                let (r, _) = self.run_one(&c, &test);
                agg.evaluations += 1;
                if let Err(f) = r {
                    if self.is_known(&f.signature) {
                        *agg.known_hits.entry(f.signature.clone()).or_default() += 1;
                    } else {
                        self.violations
                            .push((p.display().to_string(), format!("{} :: {}", f.signature, f.message)));
                    }
                }
            }
        }

        // ---- 3. fixed cases
        for c in &fixed {
            let (r, obs) = self.run_one(c, &test);
            let cj = serde_json::to_value(c).unwrap_or(J::Null);
            absorb(&mut agg, &cj, obs);
            if let Err(f) = r {
                if self.is_known(&f.signature) {
                    *agg.known_hits.entry(f.signature.clone()).or_default() += 1;
                } else if agg.failure.is_none() {
                    agg.failure = Some((cj, f));
                }
            }
        }

        // ---- 4. generated cases, sharded
        if agg.failure.is_none() && cases > 0 {
            let stop = AtomicBool::new(false);
            let shared = Mutex::new(agg);
            let this: &RunCtx = self;
            let test = &test;
            std::thread::scope(|s| {
                for shard in 0..SHARDS {
                    let n = cases / SHARDS + u64::from(shard < cases % SHARDS);
                    if n == 0 {
                        continue;
                    }
                    let strategy = &strategy;
                    let stop = &stop;
                    let shared = &shared;
                    std::thread::Builder::new()
                        .stack_size(64 << 20)
                        .spawn_scoped(s, move || {
                            let seed = mix(this.seed, this.id, section, shard);
                            let cfg = Config {
                                cases: n as u32,
                                failure_persistence: None,
                                max_shrink_iters: this.shrink_iters,
                                max_shrink_time: 120_000,
                                max_global_rejects: 1_000_000,
                                ..Config::default()
                            };
                            let rng = TestRng::from_seed(RngAlgorithm::ChaCha, &seed);
                            let mut runner = TestRunner::new_with_rng(cfg, rng);
                            let local = RefCell::new(Agg::default());
                            let failed = std::cell::Cell::new(false);
                            let last_fail: RefCell<Option<Failure>> = RefCell::new(None);
                            let strategy = strategy();
                            let res = runner.run(&strategy, |c| {
                                if stop.load(Ordering::Relaxed) && !failed.get() {
                                    return Ok(());
                                }
                                let (r, obs) = this.run_one(&c, test);
                                if !failed.get() {
                                    let cj = serde_json::to_value(&c).unwrap_or(J::Null);
                                    absorb(&mut local.borrow_mut(), &cj, obs);
                                }
                                match r {
                                    Ok(()) => Ok(()),
                                    Err(f) => {
                                        if this.is_known(&f.signature) {
                                            if !failed.get() {
                                                *local
                                                    .borrow_mut()
                                                    .known_hits
                                                    .entry(f.signature.clone())
                                                    .or_default() += 1;
                                            }
                                            Ok(())
                                        } else {
                                            failed.set(true);
                                            stop.store(true, Ordering::Relaxed);
                                            let msg = f.message.clone();
                                            *last_fail.borrow_mut() = Some(f);
                                            Err(TestCaseError::fail(msg))
                                        }
                                    }
                                }
                            });
                            let mut l = local.into_inner();
                            if let Err(TestError::Fail(_, minimal)) = res {
                                // re-run the minimal case to obtain its own failure record
                                let (r, _) = this.run_one(&minimal, test);
                                let f = match r {
                                    Err(f) if !this.is_known(&f.signature) => f,
                                    _ => last_fail.into_inner().unwrap_or(Failure::new("?", "?")),
                                };
                                l.failure =
                                    Some((serde_json::to_value(&minimal).unwrap_or(J::Null), f));
                            } else if let Err(TestError::Abort(reason)) = res {
                                l.counters.insert(format!("aborted:{reason}"), 1);
                            }
                            merge(&mut shared.lock().unwrap(), l);
                        })
                        .expect("spawn shard");
                }
            });
            agg = shared.into_inner().unwrap();
        }

        if let Some((cj, f)) = agg.failure.take() {
            let p = self.save_replay(section, &cj, &f);
            self.violations
                .push((p, format!("{} :: {}", f.signature, f.message)));
        }

        self.sections.push(SectionReport {
            name: section.to_string(),
            rule: rule.to_string(),
            evaluations: agg.evaluations,
            cases: agg.cases,
            distinct_nontrivial: agg.nontrivial.len() as u64,
            classes: agg.classes,
            counters: agg.counters,
            excluded: agg.excluded,
            known_hits: agg.known_hits,
            samples: agg.samples,
            exhaustive,
        });
    }

    /// Writes evidence, prints the verdict lines and returns the process exit code.
    pub fn finish(mut self) -> i32 {
        let wall = self.start.elapsed().as_secs_f64();
        let _ = std::fs::remove_dir_all(&self.scratch_root);
        for l in &self.known_lines {
            println!("{l}");
        }
        if let Mode::Replay(_) = self.mode {
            return if self.violations.is_empty() { 0 } else { 1 };
        }
        let evaluations: u64 = self.sections.iter().map(|s| s.evaluations).sum();
        let distinct: u64 = self.sections.iter().map(|s| s.distinct_nontrivial).sum();
        let rule = self
            .sections
            .iter()
            .map(|s| format!("[{}] {}", s.name, s.rule))
            .collect::<Vec<_>>()
            .join(" || ");
        let mut samples: Vec<J> = Vec::new();
        for s in &self.sections {
            for x in s.samples.iter().take(4) {
                samples.push(json!({"section": s.name, "case": x}));
            }
        }
        let sections: Vec<J> = self
            .sections
            .iter()
            .map(|s| {
                json!({
                    "section": s.name,
                    "cases": s.cases,
                    "evaluations": s.evaluations,
                    "distinct_nontrivial": s.distinct_nontrivial,
                    "classes": s.classes,
                    "counters": s.counters,
                    "excluded_by_known_finding": s.excluded,
                    "known_finding_hits": s.known_hits,
                    "exhaustive": s.exhaustive,
                })
            })
            .collect();
        let all_exhaustive = !self.sections.is_empty() && self.sections.iter().all(|s| s.exhaustive);
        let ev = json!({
            "property_id": self.id,
            "tier": self.tier.name(),
            "seed": self.seed,
            "level": self.level,
            "coverage": {
                "evaluations": evaluations,
                "distinct_nontrivial": distinct,
                "rule": rule,
                "samples": samples,
                "exhaustive": all_exhaustive,
                "sections": sections,
                "known_findings_reported": self.known_lines,
                "notes": self.notes,
            },
            "assumptions": self.assumptions,
            "wall_s": wall,
            "violations": self.violations.len(),
        });
        let evdir = self.verif_root.join("evidence");
        let _ = std::fs::create_dir_all(&evdir);
        let _ = std::fs::write(
            evdir.join(format!("{}.json", self.id)),
            serde_json::to_string_pretty(&ev).unwrap(),
        );
        println!(
            "SUMMARY property={} tier={} seed={} evaluations={} distinct_nontrivial={} violations={} wall_s={:.1}",
            self.id,
            self.tier.name(),
            self.seed,
            evaluations,
            distinct,
            self.violations.len(),
            wall
        );
        for s in &self.sections {
            println!(
                "  section {} cases={} evals={} nontrivial={} classes={:?} known_hits={:?} excluded={:?}",
                s.name, s.cases, s.evaluations, s.distinct_nontrivial, s.classes, s.known_hits, s.excluded
            );
        }
        for (p, m) in &self.violations {
            println!("VIOLATION property={} replay={}", self.id, p);
            println!("  detail: {}", truncate(m, 2000));
        }
        if self.violations.is_empty() { 0 } else { 1 }
    }
}

fn truncate(s: &str, n: usize) -> String {
    if s.len() <= n {
        s.to_string()
    } else {
        let mut e = n;
        while !s.is_char_boundary(e) {
            e -= 1;
        }
        format!("{}…", &s[..e])
    }
}

/// Known-finding signatures may end in `*` (prefix match).
pub fn sig_matches(pattern: &str, sig: &str) -> bool {
    if let Some(p) = pattern.strip_suffix('*') {
        sig.starts_with(p)
    } else {
        pattern == sig
    }
}

fn absorb(agg: &mut Agg, case: &J, obs: Obs) {
    agg.cases += 1;
    agg.evaluations += 1 + obs.extra_evals;
    let case_fp = fp_str(&case.to_string());
    if obs.nontrivial {
        agg.nontrivial.insert(case_fp);
        if agg.samples.len() < 4 {
            agg.samples.push(obs.sample.clone().unwrap_or_else(|| shorten(case)));
        }
    }
    for f in obs.sub_fingerprints {
        agg.nontrivial.insert(fp(&(case_fp, f)));
    }
    for c in obs.classes {
        *agg.classes.entry(c).or_default() += 1;
    }
    for (k, n) in obs.counters {
        *agg.counters.entry(k).or_default() += n;
    }
    for e in obs.excluded {
        *agg.excluded.entry(e).or_default() += 1;
    }
}

fn shorten(j: &J) -> J {
    let s = j.to_string();
    if s.len() <= 1500 {
        j.clone()
    } else {
        J::String(truncate(&s, 1500))
    }
}

fn merge(a: &mut Agg, b: Agg) {
    a.evaluations += b.evaluations;
    a.cases += b.cases;
    a.nontrivial.extend(b.nontrivial);
    for (k, v) in b.classes {
        *a.classes.entry(k).or_default() += v;
    }
    for (k, v) in b.counters {
        *a.counters.entry(k).or_default() += v;
    }
    for (k, v) in b.excluded {
        *a.excluded.entry(k).or_default() += v;
    }
    for (k, v) in b.known_hits {
        *a.known_hits.entry(k).or_default() += v;
    }
    for s in b.samples {
        if a.samples.len() < 6 {
            a.samples.push(s);
        }
    }
    if a.failure.is_none() {
        a.failure = b.failure;
    }
}

/// Simplify a strategy value without a runner (used by a few fixed-case builders).
pub fn sample_one<S: Strategy>(s: &S, seed: u64) -> S::Value {
    let rng = TestRng::from_seed(RngAlgorithm::ChaCha, &mix(seed, "sample", "one", 0));
    let mut runner = TestRunner::new_with_rng(Config::default(), rng);
    s.new_tree(&mut runner).expect("tree").current()
}

/// Monotone index mapping (keeps proptest shrinking effective).
pub fn idx(i: u16, len: usize) -> usize {
    if len == 0 {
        0
    } else {
        ((i as usize) * len) >> 16
    }
}
