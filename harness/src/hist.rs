//! Storage-level operation histories: generator, resolution against the model, execution
//! against a real database.
use crate::engine::{CaseResult, Failure, Obs, catch, idx};
use crate::model::{self, EKey, Iid, Model, Universe};
use crate::pv::{self, PV};
use nervusdb::query::WriteableGraph;
use nervusdb::Db;
use proptest::prelude::*;
use serde::{Deserialize, Serialize};
use std::collections::BTreeSet;
use std::path::{Path, PathBuf};

pub const LABELS: [&str; 4] = ["A", "B", "C", "D"];
/// "A" is deliberately both a label and a relationship type (shared name space).
pub const TYPES: [&str; 3] = ["R", "S", "A"];
pub const KEYS: [&str; 5] = ["p", "q", "name", "k4", "k5"];

pub fn keys_vec() -> Vec<String> {
    KEYS.iter().map(|s| s.to_string()).collect()
}
pub fn types_vec() -> Vec<String> {
    TYPES.iter().map(|s| s.to_string()).collect()
}

#[derive(Debug, Clone, Serialize, Deserialize, PartialEq)]
pub enum W {
    CreateNode { labels: Vec<u8> },
    AddLabel { n: u16, l: u8 },
    RemoveLabel { n: u16, l: u8 },
    CreateEdge { s: u16, t: u8, d: u16 },
    DeleteEdge { e: u16 },
    DeleteNode { n: u16 },
    /// tombstone a node without first tombstoning its relationships (the storage API
    /// documents that a deleted node's relationships are hidden)
    TombstoneNodeOnly { n: u16 },
    SetNodeProp { n: u16, k: u8, v: PV },
    RemoveNodeProp { n: u16, k: u8 },
    SetEdgeProp { e: u16, k: u8, v: PV },
    RemoveEdgeProp { e: u16, k: u8 },
}

#[derive(Debug, Clone, Serialize, Deserialize, PartialEq)]
pub enum Op {
    Tx { ws: Vec<W>, commit: bool },
    /// one transaction creating `n` nodes (crosses node-table page boundaries)
    ManyNodes { n: u16, l: u8 },
    Compact,
    Checkpoint,
    CloseReopen,
    DropReopen,
    CreateIndex { l: u8, k: u8 },
}

impl Op {
    pub fn is_compaction(&self) -> bool {
        matches!(self, Op::Compact | Op::Checkpoint)
    }
    pub fn is_reopen(&self) -> bool {
        matches!(self, Op::CloseReopen | Op::DropReopen)
    }
}

/// Concrete write, after resolving indices against the model.
#[derive(Debug, Clone, Serialize, Deserialize, PartialEq)]
pub enum RW {
    CreateNode { ext: u64, labels: Vec<String>, iid: Iid },
    AddLabel { n: Iid, l: String },
    RemoveLabel { n: Iid, l: String },
    CreateEdge { s: Iid, t: String, d: Iid },
    DeleteEdgeKey { s: Iid, t: String, d: Iid },
    TombstoneNode { n: Iid },
    SetNodeProp { n: Iid, k: String, v: PV },
    RemoveNodeProp { n: Iid, k: String },
    SetEdgeProp { s: Iid, t: String, d: Iid, k: String, v: PV },
    RemoveEdgeProp { s: Iid, t: String, d: Iid, k: String },
}

#[derive(Debug, Clone)]
pub struct Profile {
    pub ops: std::ops::Range<usize>,
    pub ws: std::ops::Range<usize>,
    pub w_tx: u32,
    pub w_abandon: u32,
    pub w_compact: u32,
    pub w_reopen: u32,
    pub w_index: u32,
    pub w_many: u32,
    pub many_max: u16,
    pub nested_values: bool,
}

impl Profile {
    pub fn base() -> Self {
        Profile {
            ops: 1..14,
            ws: 1..8,
            w_tx: 12,
            w_abandon: 0,
            w_compact: 0,
            w_reopen: 0,
            w_index: 0,
            w_many: 0,
            many_max: 700,
            nested_values: true,
        }
    }
}

pub fn prop_value(nested: bool) -> BoxedStrategy<PV> {
    if nested {
        prop_oneof![5 => pv::scalar_pv(), 1 => pv::any_pv(2, 3)].boxed()
    } else {
        pv::scalar_pv().boxed()
    }
}

pub fn write_op(nested: bool) -> impl Strategy<Value = W> + Clone {
    let n = any::<u16>();
    let k = 0u8..KEYS.len() as u8;
    prop_oneof![
        6 => prop::collection::vec(0u8..LABELS.len() as u8, 0..=3).prop_map(|labels| W::CreateNode { labels }),
        2 => (n, 0u8..LABELS.len() as u8).prop_map(|(n, l)| W::AddLabel { n, l }),
        2 => (n, 0u8..LABELS.len() as u8).prop_map(|(n, l)| W::RemoveLabel { n, l }),
        7 => (n, 0u8..TYPES.len() as u8, n).prop_map(|(s, t, d)| W::CreateEdge { s, t, d }),
        3 => n.prop_map(|e| W::DeleteEdge { e }),
        2 => n.prop_map(|n| W::DeleteNode { n }),
        1 => n.prop_map(|n| W::TombstoneNodeOnly { n }),
        6 => (n, k.clone(), prop_value(nested)).prop_map(|(n, k, v)| W::SetNodeProp { n, k, v }),
        2 => (n, k.clone()).prop_map(|(n, k)| W::RemoveNodeProp { n, k }),
        4 => (n, k.clone(), prop_value(nested)).prop_map(|(e, k, v)| W::SetEdgeProp { e, k, v }),
        2 => (n, k).prop_map(|(e, k)| W::RemoveEdgeProp { e, k }),
    ]
}

pub fn history(p: &Profile) -> BoxedStrategy<Vec<Op>> {
    let ws = prop::collection::vec(write_op(p.nested_values), p.ws.clone());
    let mut alts: Vec<(u32, BoxedStrategy<Op>)> = vec![(p.w_tx, ws.clone().prop_map(|ws| Op::Tx { ws, commit: true }).boxed())];
    if p.w_abandon > 0 {
        alts.push((p.w_abandon, ws.prop_map(|ws| Op::Tx { ws, commit: false }).boxed()));
    }
    if p.w_compact > 0 {
        alts.push((p.w_compact, prop_oneof![3 => Just(Op::Compact), 1 => Just(Op::Checkpoint)].boxed()));
    }
    if p.w_reopen > 0 {
        alts.push((p.w_reopen, prop_oneof![Just(Op::CloseReopen), Just(Op::DropReopen)].boxed()));
    }
    if p.w_index > 0 {
        alts.push((p.w_index, (0u8..LABELS.len() as u8, 0u8..KEYS.len() as u8).prop_map(|(l, k)| Op::CreateIndex { l, k }).boxed()));
    }
    if p.w_many > 0 {
        let mx = p.many_max;
        alts.push((p.w_many, (1u16..mx, 0u8..LABELS.len() as u8).prop_map(|(n, l)| Op::ManyNodes { n, l }).boxed()));
    }
    prop::collection::vec(proptest::strategy::Union::new_weighted(alts), p.ops.clone()).boxed()
}

/// Exclusions by construction for open known findings (each counted in evidence).
#[derive(Debug, Clone, Default)]
pub struct Excl {
    /// skip DeleteNode when a compaction follows later in the history
    pub node_delete_then_compact: bool,
    /// skip DeleteEdge of a key that lives in a compacted segment when a compaction follows
    pub compacted_edge_delete_then_compact: bool,
    /// skip removal/overwrite of a property that was sunk into the property tree when a compaction follows
    pub sunk_prop_change_then_compact: bool,
    /// skip label changes of existing nodes when a compaction + reopen may follow
    pub label_change_then_checkpoint_reopen: bool,
    /// skip re-creating a relationship key deleted earlier in the same transaction
    pub same_tx_delete_recreate: bool,
}

#[derive(Debug, Clone, Default)]
pub struct TxFlags {
    pub deletes: bool,
    pub same_key_delete_create: bool,
    pub label_mutation: bool,
    pub prop_removal: bool,
    pub writes: usize,
}

/// State that tells which hazards of open findings a write would trigger.
#[derive(Debug, Clone, Default)]
pub struct Hazard {
    pub later_compact: bool,
    pub later_reopen: bool,
    pub segment_keys: BTreeSet<EKey>,
    pub sunk_node_props: BTreeSet<(Iid, String)>,
    pub sunk_edge_props: BTreeSet<(EKey, String)>,
}

/// Resolves a transaction body against `m` (mutating it) and returns the concrete writes.
pub fn resolve_tx(m: &mut Model, ws: &[W], excl: &Excl, hz: &Hazard, obs: &mut Obs, flags: &mut TxFlags) -> Vec<RW> {
    let mut out = Vec::new();
    let mut label_touched: BTreeSet<(Iid, String)> = BTreeSet::new();
    let mut deleted_keys: BTreeSet<EKey> = BTreeSet::new();
    let created_in_tx_from = m.next_iid;
    for w in ws {
        let nodes = m.live_nodes();
        let keys = m.live_keys();
        match w {
            W::CreateNode { labels } => {
                let mut ls: Vec<String> = Vec::new();
                for l in labels {
                    let name = LABELS[*l as usize % LABELS.len()].to_string();
                    if !ls.contains(&name) {
                        ls.push(name);
                    }
                }
                let iid = m.create_node(&ls);
                let ext = m.nodes[&iid].ext;
                for l in &ls {
                    label_touched.insert((iid, l.clone()));
                }
                out.push(RW::CreateNode { ext, labels: ls, iid });
            }
            W::AddLabel { n, l } | W::RemoveLabel { n, l } => {
                if nodes.is_empty() {
                    continue;
                }
                let n = nodes[idx(*n, nodes.len())];
                let name = LABELS[*l as usize % LABELS.len()].to_string();
                if !label_touched.insert((n, name.clone())) {
                    // label operations take effect in the order they are issued (repaired in
                    // /repo 1cfe9cd; before that this class was outside the generated domain)
                    obs.class("same-tx-repeated-label-op");
                }
                if excl.label_change_then_checkpoint_reopen && n < created_in_tx_from && hz.later_reopen {
                    obs.excluded("label-change-of-existing-node-before-reopen");
                    continue;
                }
                flags.label_mutation = true;
                let node = m.nodes.get_mut(&n).unwrap();
                if matches!(w, W::AddLabel { .. }) {
                    node.labels.insert(name.clone());
                    out.push(RW::AddLabel { n, l: name });
                } else {
                    node.labels.remove(&name);
                    out.push(RW::RemoveLabel { n, l: name });
                }
            }
            W::CreateEdge { s, t, d } => {
                if nodes.is_empty() {
                    continue;
                }
                let s = nodes[idx(*s, nodes.len())];
                let d = nodes[idx(*d, nodes.len())];
                let t = TYPES[*t as usize % TYPES.len()].to_string();
                let key = (s, t.clone(), d);
                if deleted_keys.contains(&key) {
                    if excl.same_tx_delete_recreate {
                        obs.excluded("same-tx-delete-recreate");
                        continue;
                    }
                    flags.same_key_delete_create = true;
                }
                *m.edges.entry(key).or_insert(0) += 1;
                out.push(RW::CreateEdge { s, t, d });
            }
            W::DeleteEdge { e } => {
                if keys.is_empty() {
                    continue;
                }
                let k = keys[idx(*e, keys.len())].clone();
                if excl.compacted_edge_delete_then_compact && hz.later_compact && hz.segment_keys.contains(&k) {
                    obs.excluded("delete-of-compacted-edge-before-compaction");
                    continue;
                }
                flags.deletes = true;
                push_delete_key(m, &k, &mut out);
                deleted_keys.insert(k);
            }
            W::DeleteNode { n } => {
                if nodes.is_empty() {
                    continue;
                }
                let n = nodes[idx(*n, nodes.len())];
                if excl.node_delete_then_compact && hz.later_compact {
                    obs.excluded("node-delete-before-compaction");
                    continue;
                }
                if excl.compacted_edge_delete_then_compact && hz.later_compact && m.incident_keys(n).iter().any(|k| hz.segment_keys.contains(k)) {
                    obs.excluded("delete-of-compacted-edge-before-compaction");
                    continue;
                }
                flags.deletes = true;
                for k in m.incident_keys(n) {
                    push_delete_key(m, &k, &mut out);
                    deleted_keys.insert(k);
                }
                m.delete_node(n);
                out.push(RW::TombstoneNode { n });
            }
            W::TombstoneNodeOnly { n } => {
                if nodes.is_empty() {
                    continue;
                }
                let n = nodes[idx(*n, nodes.len())];
                if excl.node_delete_then_compact && hz.later_compact {
                    obs.excluded("node-delete-before-compaction");
                    continue;
                }
                flags.deletes = true;
                for k in m.incident_keys(n) {
                    deleted_keys.insert(k);
                }
                m.delete_node(n);
                out.push(RW::TombstoneNode { n });
            }
            W::SetNodeProp { n, k, v } => {
                if nodes.is_empty() {
                    continue;
                }
                let n = nodes[idx(*n, nodes.len())];
                let k = KEYS[*k as usize % KEYS.len()].to_string();
                if excl.sunk_prop_change_then_compact && hz.later_compact && hz.sunk_node_props.contains(&(n, k.clone())) {
                    obs.excluded("change-of-sunk-property-before-compaction");
                    continue;
                }
                m.nodes.get_mut(&n).unwrap().props.insert(k.clone(), v.clone());
                out.push(RW::SetNodeProp { n, k, v: v.clone() });
            }
            W::RemoveNodeProp { n, k } => {
                if nodes.is_empty() {
                    continue;
                }
                let n = nodes[idx(*n, nodes.len())];
                let k = KEYS[*k as usize % KEYS.len()].to_string();
                if excl.sunk_prop_change_then_compact && hz.later_compact && hz.sunk_node_props.contains(&(n, k.clone())) {
                    obs.excluded("change-of-sunk-property-before-compaction");
                    continue;
                }
                flags.prop_removal = true;
                m.nodes.get_mut(&n).unwrap().props.remove(&k);
                out.push(RW::RemoveNodeProp { n, k });
            }
            W::SetEdgeProp { e, k, v } => {
                if keys.is_empty() {
                    continue;
                }
                let key = keys[idx(*e, keys.len())].clone();
                let k = KEYS[*k as usize % KEYS.len()].to_string();
                if excl.sunk_prop_change_then_compact && hz.later_compact && hz.sunk_edge_props.contains(&(key.clone(), k.clone())) {
                    obs.excluded("change-of-sunk-property-before-compaction");
                    continue;
                }
                m.edge_props.entry(key.clone()).or_default().insert(k.clone(), v.clone());
                out.push(RW::SetEdgeProp { s: key.0, t: key.1, d: key.2, k, v: v.clone() });
            }
            W::RemoveEdgeProp { e, k } => {
                if keys.is_empty() {
                    continue;
                }
                let key = keys[idx(*e, keys.len())].clone();
                let k = KEYS[*k as usize % KEYS.len()].to_string();
                if excl.sunk_prop_change_then_compact && hz.later_compact && hz.sunk_edge_props.contains(&(key.clone(), k.clone())) {
                    obs.excluded("change-of-sunk-property-before-compaction");
                    continue;
                }
                flags.prop_removal = true;
                if let Some(p) = m.edge_props.get_mut(&key) {
                    p.remove(&k);
                    if p.is_empty() {
                        m.edge_props.remove(&key);
                    }
                }
                out.push(RW::RemoveEdgeProp { s: key.0, t: key.1, d: key.2, k });
            }
        }
    }
    flags.writes = out.len();
    out
}

/// Deleting a relationship key: the plain property graph forgets the relationship's
/// properties, so the history removes them explicitly before the tombstone (the storage
/// API keeps properties per key and never clears them on its own).
fn push_delete_key(m: &mut Model, k: &EKey, out: &mut Vec<RW>) {
    if let Some(props) = m.edge_props.get(k) {
        for pk in props.keys() {
            out.push(RW::RemoveEdgeProp { s: k.0, t: k.1.clone(), d: k.2, k: pk.clone() });
        }
    }
    m.delete_edge_key(k);
    out.push(RW::DeleteEdgeKey { s: k.0, t: k.1.clone(), d: k.2 });
}

pub fn estr(e: impl std::fmt::Display) -> String {
    e.to_string()
}

/// Executes concrete writes in one transaction. `Err` carries the step that failed.
pub fn exec_tx(db: &Db, rws: &[RW], commit: bool) -> Result<(), (String, String)> {
    let mut tx = db.begin_write();
    for rw in rws {
        match rw {
            RW::CreateNode { ext, labels, iid } => {
                let first = match labels.first() {
                    Some(l) => tx.get_or_create_label(l).map_err(|e| ("get_or_create_label".to_string(), estr(e)))?,
                    None => u32::MAX,
                };
                let got = tx.create_node(*ext, first).map_err(|e| ("create_node".to_string(), estr(e)))?;
                if got != *iid {
                    return Err(("create_node".into(), format!("internal id {got} allocated, model expected {iid}")));
                }
                for l in labels.iter().skip(1) {
                    let lid = tx.get_or_create_label(l).map_err(|e| ("get_or_create_label".to_string(), estr(e)))?;
                    WriteableGraph::add_node_label(&mut tx, got, lid).map_err(|e| ("add_node_label".to_string(), estr(e)))?;
                }
            }
            RW::AddLabel { n, l } => {
                let lid = tx.get_or_create_label(l).map_err(|e| ("get_or_create_label".to_string(), estr(e)))?;
                WriteableGraph::add_node_label(&mut tx, *n, lid).map_err(|e| ("add_node_label".to_string(), estr(e)))?;
            }
            RW::RemoveLabel { n, l } => {
                let lid = tx.get_or_create_label(l).map_err(|e| ("get_or_create_label".to_string(), estr(e)))?;
                WriteableGraph::remove_node_label(&mut tx, *n, lid).map_err(|e| ("remove_node_label".to_string(), estr(e)))?;
            }
            RW::CreateEdge { s, t, d } => {
                let tid = tx.get_or_create_rel_type(t).map_err(|e| ("get_or_create_rel_type".to_string(), estr(e)))?;
                tx.create_edge(*s, tid, *d);
            }
            RW::DeleteEdgeKey { s, t, d } => {
                let tid = tx.get_or_create_rel_type(t).map_err(|e| ("get_or_create_rel_type".to_string(), estr(e)))?;
                tx.tombstone_edge(*s, tid, *d);
            }
            RW::TombstoneNode { n } => tx.tombstone_node(*n),
            RW::SetNodeProp { n, k, v } => tx.set_node_property(*n, k.clone(), v.to_api()).map_err(|e| ("set_node_property".to_string(), estr(e)))?,
            RW::RemoveNodeProp { n, k } => tx.remove_node_property(*n, k).map_err(|e| ("remove_node_property".to_string(), estr(e)))?,
            RW::SetEdgeProp { s, t, d, k, v } => {
                let tid = tx.get_or_create_rel_type(t).map_err(|e| ("get_or_create_rel_type".to_string(), estr(e)))?;
                tx.set_edge_property(*s, tid, *d, k.clone(), v.to_api()).map_err(|e| ("set_edge_property".to_string(), estr(e)))?;
            }
            RW::RemoveEdgeProp { s, t, d, k } => {
                let tid = tx.get_or_create_rel_type(t).map_err(|e| ("get_or_create_rel_type".to_string(), estr(e)))?;
                tx.remove_edge_property(*s, tid, *d, k).map_err(|e| ("remove_edge_property".to_string(), estr(e)))?;
            }
        }
    }
    if commit {
        tx.commit().map_err(|e| ("commit".to_string(), estr(e)))?;
    } else {
        drop(tx);
    }
    Ok(())
}

pub fn many_nodes_rws(m: &mut Model, n: u16, l: u8) -> Vec<RW> {
    let label = LABELS[l as usize % LABELS.len()].to_string();
    (0..n)
        .map(|_| {
            let iid = m.create_node(std::slice::from_ref(&label));
            RW::CreateNode { ext: m.nodes[&iid].ext, labels: vec![label.clone()], iid }
        })
        .collect()
}

#[derive(Debug, Clone, PartialEq, Eq)]
pub enum StepKind {
    Committed,
    Abandoned,
    Compacted,
    Reopened,
    Indexed,
    Noop,
}

/// A database under test together with its model.
pub struct Runner {
    pub base: PathBuf,
    pub db: Option<Db>,
    pub model: Model,
    /// commit-ordered model states; `states[0]` is the empty graph
    pub states: Vec<Model>,
    pub excl: Excl,
    pub hz: Hazard,
    pub compactions: u32,
    pub reopens: u32,
    pub last_flags: TxFlags,
    pub last_rws: Vec<RW>,
    pub keys: Vec<String>,
    pub types: Vec<String>,
    pub log: Vec<String>,
}

fn op_fail(what: &str, loc_msg: String) -> Failure {
    // keep signatures stable: drop numbers from the message
    let norm: String = loc_msg.chars().map(|c| if c.is_ascii_digit() { '#' } else { c }).take(80).collect();
    Failure::new(format!("op-error:{what}:{norm}"), format!("{what} failed: {loc_msg}"))
}

pub fn open_db(base: &Path) -> Result<Db, Failure> {
    // The page file is flock'ed by an open handle. A child process forked by another thread of
    // this harness shares our descriptors until it execs, so a just-dropped handle's lock
    // can linger for a moment: retry briefly (a leaked lock would outlast the retries).
    let mut r = catch(|| Db::open(base));
    for _ in 0..20 {
        match &r {
            Ok(Err(e)) if e.to_string().contains("already open for writing") => {
                std::thread::sleep(std::time::Duration::from_millis(50));
                r = catch(|| Db::open(base));
            }
            _ => break,
        }
    }
    match r {
        Ok(Ok(db)) => Ok(db),
        Ok(Err(e)) => Err(op_fail("open", e.to_string())),
        Err((loc, msg)) => Err(Failure::new(format!("panic@{loc}"), format!("open panicked at {loc}: {msg}"))),
    }
}

impl Runner {
    pub fn new(base: PathBuf, excl: Excl) -> Result<Self, Failure> {
        let db = open_db(&base)?;
        Ok(Runner {
            base,
            db: Some(db),
            model: Model::new(),
            states: vec![Model::new()],
            excl,
            hz: Hazard::default(),
            compactions: 0,
            reopens: 0,
            last_flags: TxFlags::default(),
            last_rws: Vec::new(),
            keys: keys_vec(),
            types: types_vec(),
            log: Vec::new(),
        })
    }

    pub fn db(&self) -> &Db {
        self.db.as_ref().expect("db open")
    }

    pub fn uni(&self) -> Universe<'_> {
        Universe { keys: &self.keys, types: &self.types }
    }

    /// `later` describes the rest of the history (for exclusions by construction).
    pub fn apply(&mut self, op: &Op, later_compact: bool, later_reopen: bool, obs: &mut Obs) -> Result<StepKind, Failure> {
        self.hz.later_compact = later_compact;
        self.hz.later_reopen = later_reopen;
        match op {
            Op::Tx { ws, commit } => {
                let mut m2 = self.model.clone();
                let mut flags = TxFlags::default();
                let rws = resolve_tx(&mut m2, ws, &self.excl, &self.hz, obs, &mut flags);
                self.log.push(format!("Tx(commit={commit}) {rws:?}"));
                let r = catch(|| exec_tx(self.db(), &rws, *commit));
                self.last_flags = flags;
                self.last_rws = rws;
                match r {
                    Err((loc, msg)) => Err(Failure::new(format!("panic@{loc}"), format!("transaction panicked at {loc}: {msg}"))),
                    Ok(Err((what, e))) => Err(op_fail(&what, e)),
                    Ok(Ok(())) => {
                        if *commit {
                            // ids of abandoned transactions are never consumed
                            self.model = m2;
                            self.states.push(self.model.clone());
                            Ok(StepKind::Committed)
                        } else {
                            // external ids may be burnt by an abandoned transaction; keep them unique
                            self.model.next_ext = m2.next_ext;
                            Ok(StepKind::Abandoned)
                        }
                    }
                }
            }
            Op::ManyNodes { n, l } => {
                let mut m2 = self.model.clone();
                let rws = many_nodes_rws(&mut m2, *n, *l);
                self.log.push(format!("ManyNodes({n})"));
                let r = catch(|| exec_tx(self.db(), &rws, true));
                self.last_flags = TxFlags { writes: rws.len(), ..Default::default() };
                self.last_rws = Vec::new();
                match r {
                    Err((loc, msg)) => Err(Failure::new(format!("panic@{loc}"), format!("transaction panicked at {loc}: {msg}"))),
                    Ok(Err((what, e))) => Err(op_fail(&what, e)),
                    Ok(Ok(())) => {
                        self.model = m2;
                        self.states.push(self.model.clone());
                        Ok(StepKind::Committed)
                    }
                }
            }
            Op::Compact | Op::Checkpoint => {
                self.log.push(format!("{op:?}"));
                let is_cp = matches!(op, Op::Checkpoint);
                let r = catch(|| if is_cp { self.db().checkpoint() } else { self.db().compact() });
                match r {
                    Err((loc, msg)) => Err(Failure::new(format!("panic@{loc}"), format!("compaction panicked at {loc}: {msg}"))),
                    Ok(Err(e)) => Err(op_fail("compact", e.to_string())),
                    Ok(Ok(())) => {
                        self.compactions += 1;
                        self.note_compacted();
                        Ok(StepKind::Compacted)
                    }
                }
            }
            Op::CloseReopen | Op::DropReopen => {
                self.log.push(format!("{op:?}"));
                let db = self.db.take().expect("db open");
                if matches!(op, Op::CloseReopen) {
                    match catch(|| db.close()) {
                        Err((loc, msg)) => return Err(Failure::new(format!("panic@{loc}"), format!("close panicked at {loc}: {msg}"))),
                        Ok(Err(e)) => return Err(op_fail("close", e.to_string())),
                        Ok(Ok(())) => {}
                    }
                } else {
                    drop(db);
                }
                self.db = Some(open_db(&self.base)?);
                self.reopens += 1;
                Ok(StepKind::Reopened)
            }
            Op::CreateIndex { l, k } => {
                let label = LABELS[*l as usize % LABELS.len()];
                let key = KEYS[*k as usize % KEYS.len()];
                self.log.push(format!("CreateIndex({label}.{key})"));
                match catch(|| self.db().create_index(label, key)) {
                    Err((loc, msg)) => Err(Failure::new(format!("panic@{loc}"), format!("create_index panicked at {loc}: {msg}"))),
                    Ok(Err(e)) => Err(op_fail("create_index", e.to_string())),
                    Ok(Ok(())) => Ok(StepKind::Indexed),
                }
            }
        }
    }

    /// Everything live now is in a segment / the property tree after a compaction.
    pub fn note_compacted(&mut self) {
        self.hz.segment_keys.extend(self.model.edges.keys().cloned());
        for (n, node) in &self.model.nodes {
            for k in node.props.keys() {
                self.hz.sunk_node_props.insert((*n, k.clone()));
            }
        }
        for (ek, props) in &self.model.edge_props {
            for k in props.keys() {
                self.hz.sunk_edge_props.insert((ek.clone(), k.clone()));
            }
        }
    }

    pub fn check(&self) -> CaseResult {
        let d = model::dump_db(self.db(), &self.uni(), &self.model.dead)?;
        model::diff(&self.model, &d, &self.uni())
    }

    pub fn fail_with_log(&self, f: Failure) -> Failure {
        let tail: Vec<&String> = self.log.iter().rev().take(12).rev().collect();
        Failure::new(f.signature, format!("{}\n  history tail: {:#?}", f.message, tail))
    }
}

pub fn suffix_flags(ops: &[Op]) -> Vec<(bool, bool)> {
    let mut v = vec![(false, false); ops.len()];
    let (mut c, mut r) = (false, false);
    for i in (0..ops.len()).rev() {
        v[i] = (c, r);
        c |= ops[i].is_compaction();
        r |= ops[i].is_reopen();
    }
    v
}

/// (appended for C07/C28) Applies concrete writes to an open transaction without ending it,
/// so that callers can add further calls (e.g. `set_vector`) before commit or abandon.
/// Same behaviour as the loop inside `exec_tx`.
pub fn apply_rws(tx: &mut nervusdb::WriteTxn<'_>, rws: &[RW]) -> Result<(), (String, String)> {
    for rw in rws {
        match rw {
            RW::CreateNode { ext, labels, iid } => {
                let first = match labels.first() {
                    Some(l) => tx.get_or_create_label(l).map_err(|e| ("get_or_create_label".to_string(), estr(e)))?,
                    None => u32::MAX,
                };
                let got = tx.create_node(*ext, first).map_err(|e| ("create_node".to_string(), estr(e)))?;
                if got != *iid {
                    return Err(("create_node".into(), format!("internal id {got} allocated, model expected {iid}")));
                }
                for l in labels.iter().skip(1) {
                    let lid = tx.get_or_create_label(l).map_err(|e| ("get_or_create_label".to_string(), estr(e)))?;
                    WriteableGraph::add_node_label(tx, got, lid).map_err(|e| ("add_node_label".to_string(), estr(e)))?;
                }
            }
            RW::AddLabel { n, l } => {
                let lid = tx.get_or_create_label(l).map_err(|e| ("get_or_create_label".to_string(), estr(e)))?;
                WriteableGraph::add_node_label(tx, *n, lid).map_err(|e| ("add_node_label".to_string(), estr(e)))?;
            }
            RW::RemoveLabel { n, l } => {
                let lid = tx.get_or_create_label(l).map_err(|e| ("get_or_create_label".to_string(), estr(e)))?;
                WriteableGraph::remove_node_label(tx, *n, lid).map_err(|e| ("remove_node_label".to_string(), estr(e)))?;
            }
            RW::CreateEdge { s, t, d } => {
                let tid = tx.get_or_create_rel_type(t).map_err(|e| ("get_or_create_rel_type".to_string(), estr(e)))?;
                tx.create_edge(*s, tid, *d);
            }
            RW::DeleteEdgeKey { s, t, d } => {
                let tid = tx.get_or_create_rel_type(t).map_err(|e| ("get_or_create_rel_type".to_string(), estr(e)))?;
                tx.tombstone_edge(*s, tid, *d);
            }
            RW::TombstoneNode { n } => tx.tombstone_node(*n),
            RW::SetNodeProp { n, k, v } => tx.set_node_property(*n, k.clone(), v.to_api()).map_err(|e| ("set_node_property".to_string(), estr(e)))?,
            RW::RemoveNodeProp { n, k } => tx.remove_node_property(*n, k).map_err(|e| ("remove_node_property".to_string(), estr(e)))?,
            RW::SetEdgeProp { s, t, d, k, v } => {
                let tid = tx.get_or_create_rel_type(t).map_err(|e| ("get_or_create_rel_type".to_string(), estr(e)))?;
                tx.set_edge_property(*s, tid, *d, k.clone(), v.to_api()).map_err(|e| ("set_edge_property".to_string(), estr(e)))?;
            }
            RW::RemoveEdgeProp { s, t, d, k } => {
                let tid = tx.get_or_create_rel_type(t).map_err(|e| ("get_or_create_rel_type".to_string(), estr(e)))?;
                tx.remove_edge_property(*s, tid, *d, k).map_err(|e| ("remove_edge_property".to_string(), estr(e)))?;
            }
        }
    }
    Ok(())
}
