//! Cypher write-statement templates whose effect on the reference graph is computed
//! directly (no general Cypher evaluator), plus a `World` that drives one database through
//! the C ABI (`capi_util`) and the Rust API (`cy`) and compares it with the model.
//!
//! Every node carries a unique integer property `k`; statements address nodes through it
//! (`MATCH (n {k: ..})`). Multi-row statements are `UNWIND [<literal maps>] AS r ...`, so the
//! row order (and with it the position of a poisoned row) is under the generator's control.
//!
//! Flow: generated `Op` (indices) --`resolve`--> `RS` (concrete keys) --`render`--> text,
//! `RS::apply(model)` = the statement's specified effect or `Err(MustFail)`.
use crate::capi_util::{CDb, CErr, CTxn, Step};
use crate::cy;
use crate::engine::{CaseResult, Failure, TempDir, idx};
use crate::model::{self, Iid, Model, Universe};
use crate::pv::PV;
use nervusdb::{Db, GraphSnapshot};
use proptest::prelude::*;
use serde::{Deserialize, Serialize};
use std::collections::{BTreeMap, BTreeSet};
use std::path::PathBuf;

pub const LABELS: [&str; 3] = ["A", "B", "C"];
pub const TYPES: [&str; 3] = ["R", "S", "T"];

pub fn uni_keys() -> Vec<String> {
    ["k", "p", "q", "w"].iter().map(|s| s.to_string()).collect()
}
pub fn uni_types() -> Vec<String> {
    TYPES.iter().map(|s| s.to_string()).collect()
}

fn label(i: u8) -> String {
    LABELS[i as usize % LABELS.len()].to_string()
}
fn rtype(i: u8) -> String {
    TYPES[i as usize % TYPES.len()].to_string()
}

// ---------------------------------------------------------------- generated operations

/// Target selector: an index into the candidate nodes; `recent` prefers nodes written
/// earlier in the current transaction (this is how dependencies are constructed).
#[derive(Debug, Clone, Copy, Serialize, Deserialize, PartialEq)]
pub struct Sel {
    pub recent: bool,
    pub i: u16,
}

#[derive(Debug, Clone, Serialize, Deserialize, PartialEq)]
pub enum Val {
    Null,
    Int(i64),
    Str(String),
    Bool(bool),
    Ints(Vec<i64>),
}

impl Val {
    pub fn pv(&self) -> PV {
        match self {
            Val::Null => PV::Null,
            Val::Int(i) => PV::Int(*i),
            Val::Str(s) => PV::Str(s.clone()),
            Val::Bool(b) => PV::Bool(*b),
            Val::Ints(v) => PV::List(v.iter().map(|i| PV::Int(*i)).collect()),
        }
    }
}

#[derive(Debug, Clone, Copy, Serialize, Deserialize, PartialEq, Eq, Hash)]
pub enum CtdMode {
    /// `CREATE (a)-[r]->(b) DELETE a` -- must fail
    DeleteA,
    /// `... DELETE b` -- must fail
    DeleteB,
    /// `... DELETE a, b` (relationship not deleted) -- must fail
    DeleteBoth,
    /// `... DELETE r, a` -- legal, b stays
    RelAndA,
    /// `... DELETE r, a, b` -- legal, nothing stays
    RelAndBoth,
    /// `... DETACH DELETE a` -- legal, b stays, no relationship
    DetachA,
    /// `... DETACH DELETE b`
    DetachB,
}

#[derive(Debug, Clone, Copy, Serialize, Deserialize, PartialEq, Eq, Hash)]
pub enum PoisonKind {
    /// `toInteger(r.v)` with a list
    ToInteger,
    /// `toBoolean(r.v)` with an integer
    ToBoolean,
    /// `r.v[0]` with a non-list
    Index,
    /// `labels(r.v)` with a non-node
    Labels,
    /// `range(1, r.v)` beyond the collection limit
    Range,
    /// a node as property value (unstorable); only where a node variable is in scope
    NodeProp,
}

#[derive(Debug, Clone, Serialize, Deserialize, PartialEq)]
pub enum Op {
    CreateNodes { labels: Vec<u8>, vals: Vec<Val> },
    CreatePairs { la: u8, lb: u8, ty: u8, w: Option<i8>, n: u8 },
    Link { pairs: Vec<(Sel, Sel)>, ty: u8 },
    SetProp { rows: Vec<(Sel, Val)>, q: bool },
    RemoveProp { targets: Vec<Sel>, q: bool },
    AddLabel {
        targets: Vec<Sel>,
        label: u8,
        /// `REMOVE n:L` instead of `SET n:L`
        #[serde(default)]
        remove: bool,
    },
    Delete { targets: Vec<Sel>, detach: bool },
    DeleteRel { which: Vec<u16> },
    Merge { existing: Vec<Sel>, fresh: u8, fresh_label: u8, on_create: bool, on_match: bool, val: i64 },
    CreateThenDelete { la: u8, lb: u8, ty: u8, mode: CtdMode },
    LinkThenDelete { target: Sel, lb: u8, ty: u8, detach: bool },
}

/// Relative weights of the operation kinds (0 = never generated).
#[derive(Debug, Clone, Default)]
pub struct Mix {
    pub create_nodes: u32,
    pub create_pairs: u32,
    pub link: u32,
    pub set_prop: u32,
    pub remove_prop: u32,
    pub add_label: u32,
    pub delete: u32,
    pub detach_delete: u32,
    pub delete_rel: u32,
    pub merge: u32,
    pub ctd: u32,
    pub ltd: u32,
    /// probability (in 1/8) that a selector prefers nodes written in the current transaction
    pub recent_8: u32,
    pub max_rows: usize,
}

pub fn sel(recent_8: u32) -> impl Strategy<Value = Sel> + Clone {
    (0u32..8, any::<u16>()).prop_map(move |(r, i)| Sel { recent: r < recent_8, i })
}

pub fn val() -> impl Strategy<Value = Val> + Clone {
    prop_oneof![
        1 => Just(Val::Null),
        5 => (-5i64..50).prop_map(Val::Int),
        1 => prop::sample::select(vec![i64::MAX, i64::MIN + 1, 1i64 << 53, -(1i64 << 40)]).prop_map(Val::Int),
        3 => "[a-c]{0,3}".prop_map(Val::Str),
        1 => prop::sample::select(vec!["a b", "é中", "Zz-9", "x.y"]).prop_map(|s| Val::Str(s.to_string())),
        2 => any::<bool>().prop_map(Val::Bool),
        1 => prop::collection::vec(-3i64..4, 0..3).prop_map(Val::Ints),
    ]
}

fn nonnull_val() -> impl Strategy<Value = Val> + Clone {
    val().prop_map(|v| if v == Val::Null { Val::Int(0) } else { v })
}

pub fn ctd_mode() -> impl Strategy<Value = CtdMode> + Clone {
    prop::sample::select(vec![
        CtdMode::DeleteA,
        CtdMode::DeleteA,
        CtdMode::DeleteB,
        CtdMode::DeleteBoth,
        CtdMode::RelAndA,
        CtdMode::RelAndBoth,
        CtdMode::DetachA,
        CtdMode::DetachB,
    ])
}

pub fn op(mix: &Mix) -> BoxedStrategy<Op> {
    let r = mix.recent_8;
    let rows = mix.max_rows.max(1);
    let mut alts: Vec<(u32, BoxedStrategy<Op>)> = Vec::new();
    let mut add = |w: u32, s: BoxedStrategy<Op>| {
        if w > 0 {
            alts.push((w, s));
        }
    };
    add(
        mix.create_nodes,
        (prop::collection::vec(0u8..3, 0..3), prop::collection::vec(val(), 1..=rows))
            .prop_map(|(mut labels, vals)| {
                labels.dedup();
                let mut seen = Vec::new();
                labels.retain(|l| {
                    if seen.contains(l) {
                        false
                    } else {
                        seen.push(*l);
                        true
                    }
                });
                Op::CreateNodes { labels, vals }
            })
            .boxed(),
    );
    add(
        mix.create_pairs,
        (0u8..3, 0u8..3, 0u8..3, prop::option::of(-3i8..9), 1u8..=(rows.min(3) as u8))
            .prop_map(|(la, lb, ty, w, n)| Op::CreatePairs { la, lb, ty, w, n })
            .boxed(),
    );
    add(
        mix.link,
        (prop::collection::vec((sel(r), sel(r)), 1..=rows.min(3)), 0u8..3).prop_map(|(pairs, ty)| Op::Link { pairs, ty }).boxed(),
    );
    add(
        mix.set_prop,
        (prop::collection::vec((sel(r), nonnull_val()), 1..=rows), any::<bool>()).prop_map(|(rows, q)| Op::SetProp { rows, q }).boxed(),
    );
    add(
        mix.remove_prop,
        (prop::collection::vec(sel(r), 1..=rows.min(3)), any::<bool>()).prop_map(|(targets, q)| Op::RemoveProp { targets, q }).boxed(),
    );
    add(
        mix.add_label,
        (prop::collection::vec(sel(r), 1..=rows.min(3)), 0u8..3, prop::bool::weighted(0.35)).prop_map(|(targets, label, remove)| Op::AddLabel { targets, label, remove }).boxed(),
    );
    add(
        mix.delete,
        prop::collection::vec(sel(r), 1..=rows.min(3)).prop_map(|targets| Op::Delete { targets, detach: false }).boxed(),
    );
    add(
        mix.detach_delete,
        prop::collection::vec(sel(r), 1..=rows.min(2)).prop_map(|targets| Op::Delete { targets, detach: true }).boxed(),
    );
    add(mix.delete_rel, prop::collection::vec(any::<u16>(), 1..=2).prop_map(|which| Op::DeleteRel { which }).boxed());
    add(
        mix.merge,
        (prop::collection::vec(sel(r), 0..=2), 0u8..=2, 0u8..3, any::<bool>(), any::<bool>(), -5i64..50)
            .prop_map(|(existing, fresh, fresh_label, on_create, on_match, val)| Op::Merge { existing, fresh, fresh_label, on_create, on_match, val })
            .boxed(),
    );
    add(mix.ctd, (0u8..3, 0u8..3, 0u8..3, ctd_mode()).prop_map(|(la, lb, ty, mode)| Op::CreateThenDelete { la, lb, ty, mode }).boxed());
    add(
        mix.ltd,
        (sel(r), 0u8..3, 0u8..3, any::<bool>()).prop_map(|(target, lb, ty, detach)| Op::LinkThenDelete { target, lb, ty, detach }).boxed(),
    );
    assert!(!alts.is_empty());
    proptest::strategy::Union::new_weighted(alts).boxed()
}

// ---------------------------------------------------------------- resolved statements

#[derive(Debug, Clone, Serialize, Deserialize, PartialEq)]
pub struct Px {
    /// 0-based row that raises
    pub at: usize,
    pub kind: PoisonKind,
}

/// A statement with concrete keys. `rows` carry `(k, value)`.
#[derive(Debug, Clone, PartialEq)]
pub enum RS {
    /// a valid multi-row write followed by a tail whose SKIP/LIMIT argument is only known (and
    /// refused, with a "syntax error" message) at run time, after the writes were applied
    WriteThenBadTail { labels: Vec<String>, rows: Vec<(i64, PV)>, set_key: Option<(i64, String)>, tail: u8 },
    CreateNodes { labels: Vec<String>, rows: Vec<(i64, PV)>, px: Option<Px> },
    CreatePairs { la: String, lb: String, ty: String, w: Option<i64>, rows: Vec<(i64, i64)> },
    Link { ty: String, rows: Vec<(i64, i64)> },
    /// `then_delete`: `... SET n.<key> = .. DELETE n` (the SET is applied before the DELETE is refused)
    SetProp { key: String, rows: Vec<(i64, PV)>, px: Option<Px>, then_delete: bool },
    RemoveProp { key: String, ks: Vec<i64> },
    AddLabel { label: String, ks: Vec<i64>, remove: bool },
    /// `MATCH (n {k}) <REMOVE n.key | SET n:L | REMOVE n:L> DELETE n`: the mutation is applied before the DELETE is refused
    MutThenDelete { mutation: Mut, ks: Vec<i64> },
    Delete { ks: Vec<i64>, detach: bool },
    DeleteRel { rows: Vec<(i64, String, i64)> },
    Merge { label: String, rows: Vec<(i64, PV)>, on_create: bool, on_match: bool, px: Option<Px> },
    CreateThenDelete { la: String, lb: String, ty: String, ka: i64, kb: i64, mode: CtdMode },
    LinkThenDelete { kx: i64, lb: String, kb: i64, ty: String, detach: bool },
    /// text that the parser refuses
    Syntax,
}

#[derive(Debug, Clone, PartialEq)]
pub enum Mut {
    RemoveProp(String),
    AddLabel(String),
    RemoveLabel(String),
}

/// The statement is specified to fail (and then to have no effect).
#[derive(Debug, Clone, PartialEq)]
pub struct MustFail(pub &'static str);

pub fn k_of(m: &Model, n: Iid) -> Option<i64> {
    match m.nodes.get(&n)?.props.get("k") {
        Some(PV::Int(k)) => Some(*k),
        _ => None,
    }
}

pub fn nodes_with_k(m: &Model, k: i64) -> Vec<Iid> {
    m.nodes.iter().filter(|(_, n)| n.props.get("k") == Some(&PV::Int(k))).map(|(i, _)| *i).collect()
}

fn new_node(m: &mut Model, labels: &[String], k: i64) -> Iid {
    let id = m.create_node(labels);
    let n = m.nodes.get_mut(&id).unwrap();
    n.ext = 0; // adopted from the database after the statement
    n.props.insert("k".into(), PV::Int(k));
    id
}

fn add_edge(m: &mut Model, s: Iid, t: &str, d: Iid) {
    *m.edges.entry((s, t.to_string(), d)).or_default() += 1;
}

impl RS {
    pub fn poison(&self) -> Option<&Px> {
        match self {
            RS::CreateNodes { px, .. } | RS::SetProp { px, .. } | RS::Merge { px, .. } => px.as_ref(),
            _ => None,
        }
    }

    /// Rows the statement processes (1 for single-row templates).
    pub fn row_count(&self) -> usize {
        match self {
            RS::CreateNodes { rows, .. } | RS::SetProp { rows, .. } | RS::Merge { rows, .. } => rows.len(),
            RS::CreatePairs { rows, .. } | RS::Link { rows, .. } => rows.len(),
            RS::DeleteRel { rows } => rows.len(),
            RS::RemoveProp { ks, .. } | RS::AddLabel { ks, .. } | RS::Delete { ks, .. } | RS::MutThenDelete { ks, .. } => ks.len(),
            _ => 1,
        }
    }

    /// Keys of existing nodes the statement reads (its dependencies).
    pub fn reads(&self) -> Vec<i64> {
        match self {
            RS::Link { rows, .. } => rows.iter().flat_map(|(a, b)| [*a, *b]).collect(),
            RS::SetProp { rows, .. } | RS::Merge { rows, .. } => rows.iter().map(|r| r.0).collect(),
            RS::RemoveProp { ks, .. } | RS::AddLabel { ks, .. } | RS::Delete { ks, .. } | RS::MutThenDelete { ks, .. } => ks.clone(),
            RS::DeleteRel { rows } => rows.iter().flat_map(|(a, _, b)| [*a, *b]).collect(),
            RS::LinkThenDelete { kx, .. } => vec![*kx],
            _ => vec![],
        }
    }

    /// Specified effect. On `Err` the model is unchanged.
    pub fn apply(&self, m: &mut Model) -> Result<(), MustFail> {
        if self.poison().is_some() {
            return Err(MustFail("poisoned row"));
        }
        let mut w = m.clone();
        self.apply_inner(&mut w)?;
        *m = w;
        Ok(())
    }

    fn apply_inner(&self, m: &mut Model) -> Result<(), MustFail> {
        match self {
            RS::Syntax => return Err(MustFail("syntax error")),
            RS::WriteThenBadTail { .. } => return Err(MustFail("run-time SKIP/LIMIT argument error")),
            RS::CreateNodes { labels, rows, .. } => {
                for (k, v) in rows {
                    let id = new_node(m, labels, *k);
                    if *v != PV::Null {
                        m.nodes.get_mut(&id).unwrap().props.insert("p".into(), v.clone());
                    }
                }
            }
            RS::CreatePairs { la, lb, ty, w, rows } => {
                for (ka, kb) in rows {
                    let a = new_node(m, std::slice::from_ref(la), *ka);
                    let b = new_node(m, std::slice::from_ref(lb), *kb);
                    add_edge(m, a, ty, b);
                    if let Some(w) = w {
                        m.edge_props.entry((a, ty.clone(), b)).or_default().insert("w".into(), PV::Int(*w));
                    }
                }
            }
            RS::Link { ty, rows } => {
                let read = m.clone();
                for (ka, kb) in rows {
                    for x in nodes_with_k(&read, *ka) {
                        for y in nodes_with_k(&read, *kb) {
                            add_edge(m, x, ty, y);
                        }
                    }
                }
            }
            RS::SetProp { key, rows, then_delete, .. } => {
                let mut targets = Vec::new();
                for (k, v) in rows {
                    for n in nodes_with_k(m, *k) {
                        m.nodes.get_mut(&n).unwrap().props.insert(key.clone(), v.clone());
                        targets.push(n);
                    }
                }
                if *then_delete {
                    for n in &targets {
                        if !m.incident_keys(*n).is_empty() {
                            return Err(MustFail("non-DETACH delete of a connected node"));
                        }
                    }
                    for n in targets {
                        if m.nodes.contains_key(&n) {
                            m.delete_node(n);
                        }
                    }
                }
            }
            RS::RemoveProp { key, ks } => {
                for k in ks {
                    for n in nodes_with_k(m, *k) {
                        m.nodes.get_mut(&n).unwrap().props.remove(key);
                    }
                }
            }
            RS::AddLabel { label, ks, remove } => {
                for k in ks {
                    for n in nodes_with_k(m, *k) {
                        let labels = &mut m.nodes.get_mut(&n).unwrap().labels;
                        if *remove {
                            labels.remove(label);
                        } else {
                            labels.insert(label.clone());
                        }
                    }
                }
            }
            RS::MutThenDelete { mutation, ks } => {
                let mut targets = Vec::new();
                for k in ks {
                    for n in nodes_with_k(m, *k) {
                        let node = m.nodes.get_mut(&n).unwrap();
                        match mutation {
                            Mut::RemoveProp(key) => {
                                node.props.remove(key);
                            }
                            Mut::AddLabel(l) => {
                                node.labels.insert(l.clone());
                            }
                            Mut::RemoveLabel(l) => {
                                node.labels.remove(l);
                            }
                        }
                        targets.push(n);
                    }
                }
                for n in &targets {
                    if !m.incident_keys(*n).is_empty() {
                        return Err(MustFail("non-DETACH delete of a connected node"));
                    }
                }
                for n in targets {
                    if m.nodes.contains_key(&n) {
                        m.delete_node(n);
                    }
                }
            }
            RS::Delete { ks, detach } => {
                let mut targets = BTreeSet::new();
                for k in ks {
                    targets.extend(nodes_with_k(m, *k));
                }
                if !*detach {
                    for n in &targets {
                        if !m.incident_keys(*n).is_empty() {
                            return Err(MustFail("non-DETACH delete of a connected node"));
                        }
                    }
                }
                for n in targets {
                    m.delete_node(n);
                }
            }
            RS::DeleteRel { rows } => {
                let read = m.clone();
                for (ka, ty, kb) in rows {
                    for x in nodes_with_k(&read, *ka) {
                        for y in nodes_with_k(&read, *kb) {
                            m.delete_edge_key(&(x, ty.clone(), y));
                        }
                    }
                }
            }
            RS::Merge { label, rows, on_create, on_match, .. } => {
                for (k, v) in rows {
                    let hits: Vec<Iid> = nodes_with_k(m, *k).into_iter().filter(|n| m.nodes[n].labels.contains(label)).collect();
                    if hits.is_empty() {
                        let id = new_node(m, std::slice::from_ref(label), *k);
                        if *on_create {
                            m.nodes.get_mut(&id).unwrap().props.insert("p".into(), v.clone());
                        }
                    } else if *on_match {
                        for n in hits {
                            m.nodes.get_mut(&n).unwrap().props.insert("q".into(), v.clone());
                        }
                    }
                }
            }
            RS::CreateThenDelete { la, lb, ty, ka, kb, mode } => {
                let a = new_node(m, std::slice::from_ref(la), *ka);
                let b = new_node(m, std::slice::from_ref(lb), *kb);
                add_edge(m, a, ty, b);
                match mode {
                    CtdMode::DeleteA | CtdMode::DeleteB | CtdMode::DeleteBoth => {
                        return Err(MustFail("non-DETACH delete of a node with a relationship created in the same statement"));
                    }
                    CtdMode::RelAndA | CtdMode::DetachA => m.delete_node(a),
                    CtdMode::DetachB => m.delete_node(b),
                    CtdMode::RelAndBoth => {
                        m.delete_node(a);
                        m.delete_node(b);
                    }
                }
            }
            RS::LinkThenDelete { kx, lb, kb, ty, detach } => {
                let xs = nodes_with_k(m, *kx);
                for x in &xs {
                    let b = new_node(m, std::slice::from_ref(lb), *kb);
                    add_edge(m, *x, ty, b);
                }
                if !xs.is_empty() && !*detach {
                    return Err(MustFail("non-DETACH delete of a node that got a relationship in the same statement"));
                }
                for x in xs {
                    m.delete_node(x);
                }
            }
        }
        Ok(())
    }

    pub fn render(&self) -> String {
        fn lit(v: &PV) -> String {
            cy::literal(v).expect("template values have literals")
        }
        fn labels(ls: &[String]) -> String {
            ls.iter().map(|l| format!(":{l}")).collect()
        }
        /// rows `{k: .., v: .., bad: ..}` with the poison value in place, and the value expression
        fn rows_and_expr(rows: &[(i64, PV)], px: &Option<Px>, node_var: &str) -> (String, String) {
            let kind = px.as_ref().map(|p| p.kind);
            let mut parts = Vec::new();
            for (i, (k, v)) in rows.iter().enumerate() {
                let bad = px.as_ref().is_some_and(|p| p.at == i);
                let v = match (kind, bad) {
                    (None, _) => lit(v),
                    (Some(PoisonKind::ToInteger), false) => lit(v),
                    (Some(PoisonKind::ToInteger), true) => "[1]".into(),
                    (Some(PoisonKind::ToBoolean), false) => lit(v),
                    (Some(PoisonKind::ToBoolean), true) => "1".into(),
                    (Some(PoisonKind::Index), false) => format!("[{}]", lit(v)),
                    (Some(PoisonKind::Index), true) => "7".into(),
                    (Some(PoisonKind::Labels), _) => lit(v),
                    (Some(PoisonKind::Range), false) => lit(v),
                    (Some(PoisonKind::Range), true) => "100000000".into(),
                    (Some(PoisonKind::NodeProp), _) => lit(v),
                };
                parts.push(format!("{{k: {k}, v: {v}, bad: {bad}}}"));
            }
            let expr = match kind {
                None => "r.v".to_string(),
                Some(PoisonKind::ToInteger) => "toInteger(r.v)".into(),
                Some(PoisonKind::ToBoolean) => "toBoolean(r.v)".into(),
                Some(PoisonKind::Index) => "r.v[0]".into(),
                Some(PoisonKind::Labels) => "CASE r.bad WHEN true THEN size(labels(r.v)) ELSE r.v END".into(),
                Some(PoisonKind::Range) => "size(range(1, r.v))".into(),
                Some(PoisonKind::NodeProp) => format!("CASE r.bad WHEN true THEN {node_var} ELSE r.v END"),
            };
            (format!("[{}]", parts.join(", ")), expr)
        }
        match self {
            RS::Syntax => "CREATE (:A {k: 1".into(),
            RS::WriteThenBadTail { labels: ls, rows, set_key, tail } => {
                let (list, _) = rows_and_expr(rows, &None, "r");
                let tails = [
                    "RETURN r.k AS k LIMIT toInteger('-1')",
                    "RETURN r.k AS k SKIP toInteger('-1')",
                    "WITH r SKIP toFloat('1.5') RETURN r.k AS k",
                    "WITH r LIMIT toFloat('0.5') RETURN r.k AS k",
                ];
                let t = tails[*tail as usize % tails.len()];
                match set_key {
                    Some((k, key)) => format!("UNWIND {list} AS r MATCH (n {{k: {k}}}) SET n.{key} = r.k CREATE ({} {{k: r.k}}) {t}", labels(ls)),
                    None => format!("UNWIND {list} AS r CREATE ({} {{k: r.k}}) {t}", labels(ls)),
                }
            }
            RS::CreateNodes { labels: ls, rows, px } => {
                let (list, expr) = rows_and_expr(rows, px, "r");
                format!("UNWIND {list} AS r CREATE ({} {{k: r.k, p: {expr}}})", labels(ls))
            }
            RS::CreatePairs { la, lb, ty, w, rows } => {
                let list: Vec<String> = rows.iter().map(|(a, b)| format!("{{a: {a}, b: {b}}}")).collect();
                let w = w.map(|w| format!(" {{w: {w}}}")).unwrap_or_default();
                format!("UNWIND [{}] AS r CREATE (:{la} {{k: r.a}})-[:{ty}{w}]->(:{lb} {{k: r.b}})", list.join(", "))
            }
            RS::Link { ty, rows } => {
                let list: Vec<String> = rows.iter().map(|(a, b)| format!("{{a: {a}, b: {b}}}")).collect();
                format!("UNWIND [{}] AS r MATCH (x {{k: r.a}}), (y {{k: r.b}}) CREATE (x)-[:{ty}]->(y)", list.join(", "))
            }
            RS::SetProp { key, rows, px, then_delete } => {
                let (list, expr) = rows_and_expr(rows, px, "n");
                let tail = if *then_delete { " DELETE n" } else { "" };
                format!("UNWIND {list} AS r MATCH (n {{k: r.k}}) SET n.{key} = {expr}{tail}")
            }
            RS::RemoveProp { key, ks } => {
                let list: Vec<String> = ks.iter().map(|k| k.to_string()).collect();
                format!("UNWIND [{}] AS x MATCH (n {{k: x}}) REMOVE n.{key}", list.join(", "))
            }
            RS::AddLabel { label, ks, remove } => {
                let list: Vec<String> = ks.iter().map(|k| k.to_string()).collect();
                format!("UNWIND [{}] AS x MATCH (n {{k: x}}) {} n:{label}", list.join(", "), if *remove { "REMOVE" } else { "SET" })
            }
            RS::MutThenDelete { mutation, ks } => {
                let list: Vec<String> = ks.iter().map(|k| k.to_string()).collect();
                let mutation = match mutation {
                    Mut::RemoveProp(key) => format!("REMOVE n.{key}"),
                    Mut::AddLabel(l) => format!("SET n:{l}"),
                    Mut::RemoveLabel(l) => format!("REMOVE n:{l}"),
                };
                format!("UNWIND [{}] AS x MATCH (n {{k: x}}) {mutation} DELETE n", list.join(", "))
            }
            RS::Delete { ks, detach } => {
                let list: Vec<String> = ks.iter().map(|k| k.to_string()).collect();
                format!("UNWIND [{}] AS x MATCH (n {{k: x}}) {}DELETE n", list.join(", "), if *detach { "DETACH " } else { "" })
            }
            RS::DeleteRel { rows } => {
                // one type per statement (the resolver guarantees it)
                let ty = &rows[0].1;
                let list: Vec<String> = rows.iter().map(|(a, _, b)| format!("{{a: {a}, b: {b}}}")).collect();
                format!("UNWIND [{}] AS r MATCH (x {{k: r.a}})-[e:{ty}]->(y {{k: r.b}}) DELETE e", list.join(", "))
            }
            RS::Merge { label, rows, on_create, on_match, px } => {
                let (list, expr) = rows_and_expr(rows, px, "n");
                let oc = if *on_create { format!(" ON CREATE SET n.p = {expr}") } else { String::new() };
                let om = if *on_match { format!(" ON MATCH SET n.q = {expr}") } else { String::new() };
                format!("UNWIND {list} AS r MERGE (n:{label} {{k: r.k}}){oc}{om}")
            }
            RS::CreateThenDelete { la, lb, ty, ka, kb, mode } => {
                let tail = match mode {
                    CtdMode::DeleteA => "DELETE a",
                    CtdMode::DeleteB => "DELETE b",
                    CtdMode::DeleteBoth => "DELETE a, b",
                    CtdMode::RelAndA => "DELETE r, a",
                    CtdMode::RelAndBoth => "DELETE r, a, b",
                    CtdMode::DetachA => "DETACH DELETE a",
                    CtdMode::DetachB => "DETACH DELETE b",
                };
                format!("CREATE (a:{la} {{k: {ka}}})-[r:{ty}]->(b:{lb} {{k: {kb}}}) {tail}")
            }
            RS::LinkThenDelete { kx, lb, kb, ty, detach } => {
                format!("MATCH (x {{k: {kx}}}) CREATE (x)-[:{ty}]->(b:{lb} {{k: {kb}}}) {}DELETE x", if *detach { "DETACH " } else { "" })
            }
        }
    }
}

/// Which nodes a selector may pick.
pub struct Pool<'a> {
    /// restrict to these nodes (e.g. the committed ones); `None` = every live node
    pub only: Option<&'a BTreeSet<Iid>>,
    /// nodes written earlier in the current transaction
    pub recent: &'a BTreeSet<Iid>,
}

fn pick(m: &Model, pool: &Pool<'_>, s: Sel) -> Option<(Iid, i64)> {
    let base: Vec<Iid> = m.nodes.keys().copied().filter(|n| pool.only.is_none_or(|o| o.contains(n)) && k_of(m, *n).is_some()).collect();
    let rec: Vec<Iid> = base.iter().copied().filter(|n| pool.recent.contains(n)).collect();
    let c = if s.recent && !rec.is_empty() { rec } else { base };
    if c.is_empty() {
        return None;
    }
    let n = c[idx(s.i, c.len())];
    Some((n, k_of(m, n).unwrap()))
}

fn fresh(next_k: &mut i64) -> i64 {
    let k = *next_k;
    *next_k += 1;
    k
}

/// Resolves indices against the (sequential) model. `None`: the operation has no target in
/// this state (nothing to address) and is skipped.
pub fn resolve(op: &Op, m: &Model, pool: &Pool<'_>, next_k: &mut i64) -> Option<RS> {
    Some(match op {
        Op::CreateNodes { labels, vals } => RS::CreateNodes {
            labels: labels.iter().map(|l| label(*l)).collect(),
            rows: vals.iter().map(|v| (fresh(next_k), v.pv())).collect(),
            px: None,
        },
        Op::CreatePairs { la, lb, ty, w, n } => RS::CreatePairs {
            la: label(*la),
            lb: label(*lb),
            ty: rtype(*ty),
            w: w.map(|w| w as i64),
            rows: (0..*n).map(|_| (fresh(next_k), fresh(next_k))).collect(),
        },
        Op::Link { pairs, ty } => {
            let rows: Vec<(i64, i64)> = pairs.iter().filter_map(|(a, b)| Some((pick(m, pool, *a)?.1, pick(m, pool, *b)?.1))).collect();
            if rows.is_empty() {
                return None;
            }
            RS::Link { ty: rtype(*ty), rows }
        }
        Op::SetProp { rows, q } => {
            let rows: Vec<(i64, PV)> = rows.iter().filter_map(|(s, v)| Some((pick(m, pool, *s)?.1, v.pv()))).collect();
            if rows.is_empty() {
                return None;
            }
            RS::SetProp { key: if *q { "q" } else { "p" }.into(), rows, px: None, then_delete: false }
        }
        Op::RemoveProp { targets, q } => {
            let ks: Vec<i64> = targets.iter().filter_map(|s| Some(pick(m, pool, *s)?.1)).collect();
            if ks.is_empty() {
                return None;
            }
            RS::RemoveProp { key: if *q { "q" } else { "p" }.into(), ks }
        }
        Op::AddLabel { targets, label: l, remove } => {
            let ks: Vec<i64> = targets.iter().filter_map(|s| Some(pick(m, pool, *s)?.1)).collect();
            if ks.is_empty() {
                return None;
            }
            RS::AddLabel { label: label(*l), ks, remove: *remove }
        }
        Op::Delete { targets, detach } => {
            let mut ks: Vec<i64> = targets.iter().filter_map(|s| Some(pick(m, pool, *s)?.1)).collect();
            let mut seen = BTreeSet::new();
            ks.retain(|k| seen.insert(*k));
            if ks.is_empty() {
                return None;
            }
            RS::Delete { ks, detach: *detach }
        }
        Op::DeleteRel { which } => {
            let keys: Vec<&model::EKey> = m
                .edges
                .keys()
                .filter(|(s, _, d)| pool.only.is_none_or(|o| o.contains(s) && o.contains(d)) && k_of(m, *s).is_some() && k_of(m, *d).is_some())
                // excluded by construction: deleting a relationship that has properties and creating
                // the same (src, type, dst) again brings the old properties back (also in auto-commit
                // mode; a Cypher-update defect outside C13/C14/C24/C32)
                .filter(|k| m.edge_props.get(*k).is_none_or(|p| p.is_empty()))
                .collect();
            if keys.is_empty() {
                return None;
            }
            let first = keys[idx(which[0], keys.len())];
            let mut rows = vec![(k_of(m, first.0).unwrap(), first.1.clone(), k_of(m, first.2).unwrap())];
            for w in &which[1..] {
                let e = keys[idx(*w, keys.len())];
                if e.1 == first.1 && e != first {
                    rows.push((k_of(m, e.0).unwrap(), e.1.clone(), k_of(m, e.2).unwrap()));
                }
            }
            RS::DeleteRel { rows }
        }
        Op::Merge { existing, fresh: nf, fresh_label, on_create, on_match, val } => {
            // one label per statement: the label of the first existing target (so that the
            // merge really matches it), else the generated one
            let picked: Vec<(Iid, i64)> = existing.iter().filter_map(|s| pick(m, pool, *s)).collect();
            let lab = picked.iter().find_map(|(n, _)| m.nodes[n].labels.iter().next().cloned()).unwrap_or_else(|| label(*fresh_label));
            let mut rows: Vec<(i64, PV)> = Vec::new();
            let mut seen = BTreeSet::new();
            for (i, (_, k)) in picked.iter().enumerate() {
                if seen.insert(*k) {
                    rows.push((*k, PV::Int(*val + i as i64)));
                }
            }
            for i in 0..*nf {
                rows.push((fresh(next_k), PV::Int(*val + 10 + i as i64)));
            }
            if rows.is_empty() {
                rows.push((fresh(next_k), PV::Int(*val)));
            }
            RS::Merge { label: lab, rows, on_create: *on_create, on_match: *on_match, px: None }
        }
        Op::CreateThenDelete { la, lb, ty, mode } => {
            RS::CreateThenDelete { la: label(*la), lb: label(*lb), ty: rtype(*ty), ka: fresh(next_k), kb: fresh(next_k), mode: *mode }
        }
        Op::LinkThenDelete { target, lb, ty, detach } => {
            let (_, kx) = pick(m, pool, *target)?;
            RS::LinkThenDelete { kx, lb: label(*lb), kb: fresh(next_k), ty: rtype(*ty), detach: *detach }
        }
    })
}

// ---------------------------------------------------------------- the database under test

/// How an auto-commit statement reaches the engine.
#[derive(Debug, Clone, Copy, Serialize, Deserialize, PartialEq, Eq, Hash)]
pub enum Route {
    /// `ndb_execute_write`
    CapiWrite,
    /// Rust API: prepare + execute_mixed + commit (`cy::write`)
    RustWrite,
    /// `ndb_prepare_write` + `ndb_stmt_step`
    CapiStmt,
}

pub fn route() -> impl Strategy<Value = Route> + Clone {
    prop::sample::select(vec![Route::CapiWrite, Route::CapiWrite, Route::RustWrite, Route::CapiStmt])
}

pub struct World {
    _dir: TempDir,
    pub path: PathBuf,
    pub cdb: Option<CDb>,
    pub model: Model,
    pub next_k: i64,
    pub log: Vec<String>,
    /// every external id ever observed -> the node it belongs to
    pub all_ext: BTreeMap<u64, Iid>,
    keys: Vec<String>,
    types: Vec<String>,
}

fn cerr(what: &str, e: CErr) -> Failure {
    Failure::new(format!("capi-call-failed:{what}"), format!("{what}: {e}"))
}

impl World {
    pub fn new() -> Result<World, Failure> {
        let dir = crate::engine::temp_dir();
        let path = dir.join("db");
        let cdb = CDb::open(&path).map_err(|e| cerr("ndb_open", e))?;
        Ok(World {
            _dir: dir,
            path,
            cdb: Some(cdb),
            model: Model::new(),
            next_k: 1,
            log: Vec::new(),
            all_ext: BTreeMap::new(),
            keys: uni_keys(),
            types: uni_types(),
        })
    }

    pub fn cdb(&self) -> &CDb {
        self.cdb.as_ref().expect("open")
    }

    pub fn db(&self) -> &Db {
        self.cdb().db()
    }

    pub fn fail_with_log(&self, mut f: Failure) -> Failure {
        f.message = format!("{}\n--- statements ---\n{}", f.message, self.log.join("\n"));
        f
    }

    /// One auto-commit statement; `Err(text)` = the statement returned an error.
    pub fn exec_auto(&mut self, route: Route, text: &str) -> Result<Result<u32, String>, Failure> {
        self.log.push(format!("auto[{route:?}] {text}"));
        let r = match route {
            Route::CapiWrite => self.cdb().execute_write(text, None).map_err(|e| e.message),
            Route::RustWrite => match cy::write(self.db(), text, &Default::default()) {
                Ok(n) => Ok(n),
                Err(cy::QErr::Panic(l, m)) => return Err(Failure::new(format!("panic@{l}"), format!("statement panicked at {l}: {m}\n{text}"))),
                Err(e) => Err(e.text()),
            },
            Route::CapiStmt => {
                let cdb = self.cdb();
                match cdb.prepare_write(text) {
                    Err(e) => Err(e.message),
                    Ok(mut st) => match st.step() {
                        Ok(Step::Done) | Ok(Step::Row) => Ok(st.write_count().unwrap_or(0)),
                        Err(e) => Err(e.message),
                    },
                }
            }
        };
        if let Err(e) = &r {
            self.log.push(format!("  -> error: {e}"));
        }
        Ok(r)
    }

    /// Records the external ids of nodes the model has not seen yet; they must exist, be
    /// non-zero and never have been used before.
    pub fn adopt_ext(&mut self) -> CaseResult {
        let todo: Vec<Iid> = self.model.nodes.iter().filter(|(_, n)| n.ext == 0).map(|(i, _)| *i).collect();
        if todo.is_empty() {
            return Ok(());
        }
        let snap = self.db().snapshot();
        for n in todo {
            let Some(e) = snap.resolve_external(n) else {
                // the node itself is missing or has no identity; the dump reports which
                continue;
            };
            if let Some(prev) = self.all_ext.get(&e)
                && *prev != n
            {
                fail!("external-id-reused", "node {n} got external id {e}, which node {prev} already had");
            }
            self.all_ext.insert(e, n);
            self.model.nodes.get_mut(&n).unwrap().ext = e;
        }
        Ok(())
    }

    /// Full dump through the Rust read interfaces compared with the model.
    pub fn check(&mut self) -> CaseResult {
        self.adopt_ext()?;
        let uni = Universe { keys: &self.keys, types: &self.types };
        let d = model::dump_db(self.db(), &uni, &self.model.dead)?;
        model::diff(&self.model, &d, &uni)
    }

    pub fn compact(&mut self) -> CaseResult {
        self.log.push("compact".into());
        self.cdb().compact().map_err(|e| cerr("ndb_compact", e))
    }

    pub fn reopen(&mut self) -> CaseResult {
        self.log.push("close + open".into());
        let c = self.cdb.take().expect("open");
        c.close().map_err(|e| cerr("ndb_close", e))?;
        self.cdb = Some(CDb::open(&self.path).map_err(|e| cerr("ndb_open", e))?);
        Ok(())
    }

    /// Nodes currently in the model (used as the "committed" pool before a transaction).
    pub fn live(&self) -> BTreeSet<Iid> {
        self.model.nodes.keys().copied().collect()
    }
}

/// Statement inside an explicit transaction; logs it.
pub fn txn_stmt(log: &mut Vec<String>, t: &mut CTxn<'_>, text: &str) -> Result<(), String> {
    log.push(format!("txn  {text}"));
    match t.query(text, None) {
        Ok(()) => Ok(()),
        Err(e) => {
            log.push(format!("  -> error: {}", e.message));
            Err(e.message)
        }
    }
}

/// Nodes whose state differs between two models (created, changed or deleted).
pub fn touched(before: &Model, after: &Model) -> BTreeSet<Iid> {
    let mut s = BTreeSet::new();
    for (i, n) in &after.nodes {
        if before.nodes.get(i) != Some(n) {
            s.insert(*i);
        }
    }
    for (k, c) in &after.edges {
        if before.edges.get(k) != Some(c) {
            s.insert(k.0);
            s.insert(k.2);
        }
    }
    for (k, c) in &before.edges {
        if after.edges.get(k) != Some(c) {
            s.insert(k.0);
            s.insert(k.2);
        }
    }
    s.retain(|n| after.nodes.contains_key(n));
    s
}

// ---------------------------------------------------------------- failing statements (C13)

#[derive(Debug, Clone, Copy, Serialize, Deserialize, PartialEq, Eq, Hash)]
pub enum BadBase {
    CreateNodes,
    SetProp,
    Merge,
}

/// A statement constructed to fail.
#[derive(Debug, Clone, Serialize, Deserialize, PartialEq)]
pub enum Bad {
    /// multi-row statement whose row `at` raises
    Rows { base: BadBase, n: u8, at: u16, kind: PoisonKind, label: u8 },
    /// `UNWIND .. MATCH (n {k}) SET n.q = .. DELETE n` with one connected node among the rows
    SetThenDelete {
        n: u8,
        at: u16,
        /// 0: `SET n.q = ..`, 1: `REMOVE n.p`, 2: `SET n:L`, 3: `REMOVE n:L` (a label the connected node has)
        #[serde(default)]
        what: u8,
    },
    /// non-DETACH delete whose targets include a connected node
    RefusedDelete { n: u8, at: u16 },
    CreateThenDelete { la: u8, lb: u8, ty: u8, both: bool, b: bool },
    LinkThenDelete { target: u16, lb: u8, ty: u8 },
    Syntax,
    /// valid writes, then a SKIP/LIMIT argument that is refused at run time
    BadTail { n: u8, label: u8, tail: u8, touch: u16 },
}

pub fn poison_kind() -> impl Strategy<Value = PoisonKind> + Clone {
    prop::sample::select(vec![
        PoisonKind::ToInteger,
        PoisonKind::ToInteger,
        PoisonKind::ToBoolean,
        PoisonKind::Index,
        PoisonKind::Labels,
        PoisonKind::Range,
        PoisonKind::NodeProp,
    ])
}

pub fn bad() -> impl Strategy<Value = Bad> + Clone {
    prop_oneof![
        12 => (prop::sample::select(vec![BadBase::CreateNodes, BadBase::SetProp, BadBase::Merge]), 1u8..=6, any::<u16>(), poison_kind(), 0u8..3)
            .prop_map(|(base, n, at, kind, label)| Bad::Rows { base, n, at, kind, label }),
        5 => (1u8..=4, any::<u16>(), 0u8..4).prop_map(|(n, at, what)| Bad::SetThenDelete { n, at, what }),
        2 => (1u8..=3, any::<u16>()).prop_map(|(n, at)| Bad::RefusedDelete { n, at }),
        2 => (0u8..3, 0u8..3, 0u8..3, any::<bool>(), any::<bool>()).prop_map(|(la, lb, ty, both, b)| Bad::CreateThenDelete { la, lb, ty, both, b }),
        2 => (any::<u16>(), 0u8..3, 0u8..3).prop_map(|(target, lb, ty)| Bad::LinkThenDelete { target, lb, ty }),
        1 => Just(Bad::Syntax),
        3 => (1u8..=4, 0u8..3, 0u8..4, any::<u16>()).prop_map(|(n, label, tail, touch)| Bad::BadTail { n, label, tail, touch }),
    ]
}

/// Concrete failing statement over the nodes of `pool` (usually the committed ones).
/// Returns the statement and the 0-based row at which it is constructed to fail
/// (`None`: the failure is not tied to a row).
pub fn resolve_bad(b: &Bad, m: &Model, only: &BTreeSet<Iid>, next_k: &mut i64) -> (RS, Option<usize>) {
    let cands: Vec<Iid> = m.nodes.keys().copied().filter(|n| only.contains(n) && k_of(m, *n).is_some()).collect();
    let connected: Vec<Iid> = cands.iter().copied().filter(|n| !m.incident_keys(*n).is_empty()).collect();
    let free: Vec<Iid> = cands.iter().copied().filter(|n| m.incident_keys(*n).is_empty()).collect();
    let kk = |n: Iid| k_of(m, n).unwrap();
    match b {
        Bad::Syntax => (RS::Syntax, None),
        Bad::BadTail { n, label: l, tail, touch } => {
            let rows: Vec<(i64, PV)> = (0..*n as usize).map(|_| (fresh(next_k), PV::Null)).collect();
            let set_key = if cands.is_empty() || touch % 2 == 0 { None } else { Some((kk(cands[idx(*touch, cands.len())]), "q".to_string())) };
            (RS::WriteThenBadTail { labels: vec![label(*l)], rows, set_key, tail: *tail }, Some(*n as usize))
        }
        Bad::Rows { base, n, at, kind, label: l } => {
            let mut base = *base;
            let mut kind = *kind;
            if cands.is_empty() && base == BadBase::SetProp {
                base = BadBase::CreateNodes;
            }
            if base == BadBase::CreateNodes && kind == PoisonKind::NodeProp {
                kind = PoisonKind::ToInteger; // no node variable in scope
            }
            let n = match base {
                BadBase::SetProp => (*n as usize).min(cands.len()),
                _ => *n as usize,
            };
            let at = idx(*at, n);
            let value = |i: usize| match kind {
                PoisonKind::ToBoolean => PV::Bool(i % 2 == 0),
                PoisonKind::Range => PV::Int((i % 4) as i64),
                _ => PV::Int(100 + i as i64),
            };
            // distinct existing targets, spread over the candidates
            let existing = |i: usize| kk(cands[(i * cands.len()) / n.max(1)]);
            let px = Some(Px { at, kind });
            let rs = match base {
                BadBase::CreateNodes => RS::CreateNodes { labels: vec![label(*l)], rows: (0..n).map(|i| (fresh(next_k), value(i))).collect(), px },
                BadBase::SetProp => RS::SetProp { key: "q".into(), rows: (0..n).map(|i| (existing(i), value(i))).collect(), px, then_delete: false },
                BadBase::Merge => {
                    // alternate existing and fresh keys so that both branches run before the failure
                    let mut rows = Vec::new();
                    let mut lab = label(*l);
                    let mut used = BTreeSet::new();
                    for i in 0..n {
                        if i % 2 == 0 && !cands.is_empty() {
                            let node = cands[(i * cands.len()) / n.max(1)];
                            if used.insert(node) {
                                if i == 0 && let Some(l0) = m.nodes[&node].labels.iter().next() {
                                    lab = l0.clone();
                                }
                                rows.push((kk(node), value(i)));
                                continue;
                            }
                        }
                        rows.push((fresh(next_k), value(i)));
                    }
                    RS::Merge { label: lab, rows, on_create: true, on_match: true, px }
                }
            };
            (rs, Some(at))
        }
        Bad::SetThenDelete { n, at, what } => {
            let Some(&c) = connected.first() else {
                return (RS::Syntax, None);
            };
            let n = (*n as usize).min(free.len() + 1).max(1);
            let at = idx(*at, n);
            let mut rows = Vec::new();
            let mut fi = 0;
            for i in 0..n {
                if i == at {
                    rows.push((kk(c), PV::Int(77)));
                } else {
                    rows.push((kk(free[fi]), PV::Int(77)));
                    fi += 1;
                }
            }
            let mutation = match what {
                1 => Some(Mut::RemoveProp("p".into())),
                2 => Some(Mut::AddLabel(label((at % 3) as u8))),
                3 => Some(Mut::RemoveLabel(m.nodes[&c].labels.iter().next().cloned().unwrap_or_else(|| label(0)))),
                _ => None,
            };
            match mutation {
                Some(mutation) => (RS::MutThenDelete { mutation, ks: rows.iter().map(|r| r.0).collect() }, Some(at)),
                None => (RS::SetProp { key: "q".into(), rows, px: None, then_delete: true }, Some(at)),
            }
        }
        Bad::RefusedDelete { n, at } => {
            let Some(&c) = connected.last() else {
                return (RS::Syntax, None);
            };
            let n = (*n as usize).min(free.len() + 1).max(1);
            let at = idx(*at, n);
            let mut ks = Vec::new();
            let mut fi = 0;
            for i in 0..n {
                if i == at {
                    ks.push(kk(c));
                } else {
                    ks.push(kk(free[fi]));
                    fi += 1;
                }
            }
            (RS::Delete { ks, detach: false }, Some(at))
        }
        Bad::CreateThenDelete { la, lb, ty, both, b } => {
            let mode = if *both {
                CtdMode::DeleteBoth
            } else if *b {
                CtdMode::DeleteB
            } else {
                CtdMode::DeleteA
            };
            (RS::CreateThenDelete { la: label(*la), lb: label(*lb), ty: rtype(*ty), ka: fresh(next_k), kb: fresh(next_k), mode }, None)
        }
        Bad::LinkThenDelete { target, lb, ty } => {
            if cands.is_empty() {
                return (RS::Syntax, None);
            }
            let x = cands[idx(*target, cands.len())];
            (RS::LinkThenDelete { kx: kk(x), lb: label(*lb), kb: fresh(next_k), ty: rtype(*ty), detach: false }, None)
        }
    }
}
