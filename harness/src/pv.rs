//! Serializable mirror of `PropertyValue` and its generators.
use nervusdb_api::PropertyValue;
use proptest::prelude::*;
use serde::{Deserialize, Serialize};
use std::collections::BTreeMap;

#[derive(Debug, Clone, Serialize, Deserialize, PartialEq, Eq, Hash, PartialOrd, Ord)]
pub enum PV {
    Null,
    Bool(bool),
    Int(i64),
    /// IEEE-754 bits (keeps NaN payloads and the sign of zero through JSON)
    Float(u64),
    Str(String),
    DateTime(i64),
    Blob(Vec<u8>),
    List(Vec<PV>),
    Map(BTreeMap<String, PV>),
}

impl PV {
    pub fn f(x: f64) -> PV {
        PV::Float(x.to_bits())
    }
    pub fn to_api(&self) -> PropertyValue {
        match self {
            PV::Null => PropertyValue::Null,
            PV::Bool(b) => PropertyValue::Bool(*b),
            PV::Int(i) => PropertyValue::Int(*i),
            PV::Float(b) => PropertyValue::Float(f64::from_bits(*b)),
            PV::Str(s) => PropertyValue::String(s.clone()),
            PV::DateTime(i) => PropertyValue::DateTime(*i),
            PV::Blob(b) => PropertyValue::Blob(b.clone()),
            PV::List(l) => PropertyValue::List(l.iter().map(|x| x.to_api()).collect()),
            PV::Map(m) => PropertyValue::Map(m.iter().map(|(k, v)| (k.clone(), v.to_api())).collect()),
        }
    }
    pub fn from_api(v: &PropertyValue) -> PV {
        match v {
            PropertyValue::Null => PV::Null,
            PropertyValue::Bool(b) => PV::Bool(*b),
            PropertyValue::Int(i) => PV::Int(*i),
            PropertyValue::Float(f) => PV::Float(f.to_bits()),
            PropertyValue::String(s) => PV::Str(s.clone()),
            PropertyValue::DateTime(i) => PV::DateTime(*i),
            PropertyValue::Blob(b) => PV::Blob(b.clone()),
            PropertyValue::List(l) => PV::List(l.iter().map(PV::from_api).collect()),
            PropertyValue::Map(m) => PV::Map(m.iter().map(|(k, v)| (k.clone(), PV::from_api(v))).collect()),
        }
    }
    /// Bit-exact equality except that any NaN equals any NaN.
    pub fn same(&self, other: &PV) -> bool {
        match (self, other) {
            (PV::Float(a), PV::Float(b)) => {
                a == b || (f64::from_bits(*a).is_nan() && f64::from_bits(*b).is_nan())
            }
            (PV::List(a), PV::List(b)) => a.len() == b.len() && a.iter().zip(b).all(|(x, y)| x.same(y)),
            (PV::Map(a), PV::Map(b)) => {
                a.len() == b.len() && a.iter().zip(b).all(|((ka, va), (kb, vb))| ka == kb && va.same(vb))
            }
            (a, b) => a == b,
        }
    }
    pub fn depth(&self) -> usize {
        match self {
            PV::List(l) => 1 + l.iter().map(|x| x.depth()).max().unwrap_or(0),
            PV::Map(m) => 1 + m.values().map(|x| x.depth()).max().unwrap_or(0),
            _ => 0,
        }
    }
}

pub fn boundary_i64() -> impl Strategy<Value = i64> + Clone {
    prop_oneof![
        4 => any::<i64>(),
        3 => -1000i64..1000,
        2 => prop::sample::select(vec![
            i64::MIN, i64::MIN + 1, i64::MAX, i64::MAX - 1, 0, 1, -1,
            (1i64 << 53) - 1, 1i64 << 53, (1i64 << 53) + 1, (1i64 << 53) + 2,
            -(1i64 << 53), -(1i64 << 53) - 1, 1i64 << 62, 255, 256, 65535, 65536,
            i32::MAX as i64, i32::MIN as i64, u32::MAX as i64,
        ]),
        1 => (0u32..63, any::<bool>(), -2i64..3).prop_map(|(s, neg, d)| {
            let v = (1i64 << s).wrapping_add(d);
            if neg { v.wrapping_neg() } else { v }
        }),
    ]
}

pub fn f64_bits_any() -> impl Strategy<Value = u64> + Clone {
    prop_oneof![
        3 => any::<u64>(),
        3 => (-1.0e6f64..1.0e6).prop_map(|f| f.to_bits()),
        2 => boundary_i64().prop_map(|i| (i as f64).to_bits()),
        2 => prop::sample::select(vec![
            0.0f64, -0.0, 1.0, -1.0, f64::INFINITY, f64::NEG_INFINITY, f64::NAN, f64::MIN_POSITIVE,
            -f64::MIN_POSITIVE, f64::MAX, f64::MIN, f64::EPSILON, 5e-324, -5e-324, 0.1, 0.5, 1.5,
            9007199254740992.0, 9007199254740994.0, 9223372036854775808.0, -9223372036854775808.0,
        ]).prop_map(|f| f.to_bits()),
    ]
}

pub fn f64_bits_non_nan() -> impl Strategy<Value = u64> + Clone {
    f64_bits_any().prop_map(|b| if f64::from_bits(b).is_nan() { b & !(0x7ffu64 << 52) | (0x3ffu64 << 52) } else { b })
}

pub fn small_string() -> impl Strategy<Value = String> + Clone {
    prop_oneof![
        2 => Just(String::new()),
        6 => "[a-c]{0,4}",
        3 => "[ -~]{0,12}",
        2 => "\\PC{0,6}",
        2 => prop::collection::vec(prop::sample::select(vec!['\0', 'a', 'b', '\u{1}', '\u{7f}', '\u{80}', '\u{ff}', 'é', '中', '\u{10ffff}', '😀']), 0..6)
            .prop_map(|v| v.into_iter().collect()),
    ]
}

pub fn small_blob() -> impl Strategy<Value = Vec<u8>> + Clone {
    prop_oneof![
        1 => Just(Vec::new()),
        4 => prop::collection::vec(prop::sample::select(vec![0u8, 1, 0x61, 0x62, 0xfe, 0xff]), 0..6),
        2 => prop::collection::vec(any::<u8>(), 0..24),
    ]
}

pub fn scalar_pv() -> impl Strategy<Value = PV> + Clone {
    prop_oneof![
        1 => Just(PV::Null),
        2 => any::<bool>().prop_map(PV::Bool),
        4 => boundary_i64().prop_map(PV::Int),
        3 => f64_bits_any().prop_map(PV::Float),
        4 => small_string().prop_map(PV::Str),
        1 => boundary_i64().prop_map(PV::DateTime),
        1 => small_blob().prop_map(PV::Blob),
    ]
}

/// All nine kinds, nested up to `depth`.
pub fn any_pv(depth: u32, width: usize) -> BoxedStrategy<PV> {
    scalar_pv()
        .prop_recursive(depth, 64, width as u32, move |inner| {
            prop_oneof![
                prop::collection::vec(inner.clone(), 0..=width).prop_map(PV::List),
                prop::collection::btree_map(small_string(), inner, 0..=width).prop_map(PV::Map),
            ]
        })
        .boxed()
}
