//! Thin helpers to run Cypher through the Rust API and canonicalise results.
use crate::engine::catch;
use crate::pv::PV;
use nervusdb::Db;
use nervusdb::query::{ExecuteOptions, Params, Value, prepare};
use serde::{Deserialize, Serialize};
use std::collections::BTreeMap;

/// Canonical result value (floats as bits; nodes/relationships reified).
#[derive(Debug, Clone, Serialize, Deserialize, PartialEq, Eq, Hash, PartialOrd, Ord)]
pub enum CV {
    Null,
    Bool(bool),
    Int(i64),
    Float(u64),
    Str(String),
    DateTime(i64),
    Blob(Vec<u8>),
    List(Vec<CV>),
    Map(BTreeMap<String, CV>),
    Node { id: u32, labels: Vec<String>, props: BTreeMap<String, CV> },
    Rel { src: u32, ty: String, dst: u32, props: BTreeMap<String, CV> },
    Path { nodes: Vec<u32>, rels: Vec<(u32, String, u32)> },
    Other(String),
}

impl CV {
    pub fn f(x: f64) -> CV {
        CV::Float(x.to_bits())
    }
    pub fn as_f64(&self) -> Option<f64> {
        match self {
            CV::Float(b) => Some(f64::from_bits(*b)),
            _ => None,
        }
    }
    /// Structural equality with any NaN equal to any NaN.
    pub fn same(&self, o: &CV) -> bool {
        match (self, o) {
            (CV::Float(a), CV::Float(b)) => a == b || (f64::from_bits(*a).is_nan() && f64::from_bits(*b).is_nan()),
            (CV::List(a), CV::List(b)) => a.len() == b.len() && a.iter().zip(b).all(|(x, y)| x.same(y)),
            (CV::Map(a), CV::Map(b)) => a.len() == b.len() && a.iter().zip(b).all(|((ka, va), (kb, vb))| ka == kb && va.same(vb)),
            (a, b) => a == b,
        }
    }
    pub fn from_pv(p: &PV) -> CV {
        match p {
            PV::Null => CV::Null,
            PV::Bool(b) => CV::Bool(*b),
            PV::Int(i) => CV::Int(*i),
            PV::Float(b) => CV::Float(*b),
            PV::Str(s) => CV::Str(s.clone()),
            PV::DateTime(i) => CV::DateTime(*i),
            PV::Blob(b) => CV::Blob(b.clone()),
            PV::List(l) => CV::List(l.iter().map(CV::from_pv).collect()),
            PV::Map(m) => CV::Map(m.iter().map(|(k, v)| (k.clone(), CV::from_pv(v))).collect()),
        }
    }
}

pub fn pv_to_value(p: &PV) -> Value {
    match p {
        PV::Null => Value::Null,
        PV::Bool(b) => Value::Bool(*b),
        PV::Int(i) => Value::Int(*i),
        PV::Float(b) => Value::Float(f64::from_bits(*b)),
        PV::Str(s) => Value::String(s.clone()),
        PV::DateTime(i) => Value::DateTime(*i),
        PV::Blob(b) => Value::Blob(b.clone()),
        PV::List(l) => Value::List(l.iter().map(pv_to_value).collect()),
        PV::Map(m) => Value::Map(m.iter().map(|(k, v)| (k.clone(), pv_to_value(v))).collect()),
    }
}

pub fn canon(v: &Value) -> CV {
    match v {
        Value::Null => CV::Null,
        Value::Bool(b) => CV::Bool(*b),
        Value::Int(i) => CV::Int(*i),
        Value::Float(f) => CV::Float(f.to_bits()),
        Value::String(s) => CV::Str(s.clone()),
        Value::DateTime(i) => CV::DateTime(*i),
        Value::Blob(b) => CV::Blob(b.clone()),
        Value::List(l) => CV::List(l.iter().map(canon).collect()),
        Value::Map(m) => CV::Map(m.iter().map(|(k, v)| (k.clone(), canon(v))).collect()),
        Value::Node(n) => {
            let mut labels = n.labels.clone();
            labels.sort();
            CV::Node { id: n.id, labels, props: n.properties.iter().map(|(k, v)| (k.clone(), canon(v))).collect() }
        }
        Value::Relationship(r) => CV::Rel {
            src: r.key.src,
            ty: r.rel_type.clone(),
            dst: r.key.dst,
            props: r.properties.iter().map(|(k, v)| (k.clone(), canon(v))).collect(),
        },
        Value::ReifiedPath(p) => CV::Path {
            nodes: p.nodes.iter().map(|n| n.id).collect(),
            rels: p.relationships.iter().map(|r| (r.key.src, r.rel_type.clone(), r.key.dst)).collect(),
        },
        other => CV::Other(format!("{other:?}")),
    }
}

#[derive(Debug, Clone, PartialEq)]
pub enum QErr {
    /// prepare() refused the text
    Prepare(String),
    /// execution returned an error
    Exec(String),
    /// the resource limit error specifically
    Limit(String),
    Panic(String, String),
}

impl QErr {
    pub fn text(&self) -> String {
        match self {
            QErr::Prepare(s) | QErr::Exec(s) | QErr::Limit(s) => s.clone(),
            QErr::Panic(l, m) => format!("panic at {l}: {m}"),
        }
    }
}

pub fn params_from(pairs: &[(String, PV)], opts: Option<ExecuteOptions>) -> Params {
    let mut p = match opts {
        Some(o) => Params::with_execute_options(o),
        None => Params::new(),
    };
    for (k, v) in pairs {
        p.insert(k.clone(), pv_to_value(v));
    }
    p
}

fn map_err(e: nervusdb::query::Error) -> QErr {
    match e {
        nervusdb::query::Error::ResourceLimitExceeded { .. } => QErr::Limit(e.to_string()),
        other => QErr::Exec(other.to_string()),
    }
}

/// Runs a read query on a fresh snapshot: column names (in projection order) and
/// reified, canonical rows in the order the engine produced them.
pub fn read(db: &Db, q: &str, params: &Params) -> Result<(Vec<String>, Vec<Vec<CV>>), QErr> {
    let r = catch(|| -> Result<(Vec<String>, Vec<Vec<CV>>), QErr> {
        let prepared = prepare(q).map_err(|e| QErr::Prepare(e.to_string()))?;
        let snap = db.snapshot();
        let mut cols: Vec<String> = Vec::new();
        let mut rows = Vec::new();
        for row in prepared.execute_streaming(&snap, params) {
            let row = row.map_err(map_err)?;
            let row = row.reify(&snap).map_err(map_err)?;
            if cols.is_empty() {
                cols = row.columns().iter().map(|(k, _)| k.clone()).collect();
            }
            rows.push(row.columns().iter().map(|(_, v)| canon(v)).collect());
        }
        Ok((cols, rows))
    });
    match r {
        Ok(x) => x,
        Err((l, m)) => Err(QErr::Panic(l, m)),
    }
}

/// Runs a write statement in its own transaction (snapshot taken after the writer lock,
/// so sequential use is race free) and commits. Returns the reported change count.
pub fn write(db: &Db, q: &str, params: &Params) -> Result<u32, QErr> {
    let r = catch(|| -> Result<u32, QErr> {
        let prepared = prepare(q).map_err(|e| QErr::Prepare(e.to_string()))?;
        let mut txn = db.begin_write();
        let snap = db.snapshot();
        let (_rows, n) = prepared.execute_mixed(&snap, &mut txn, params).map_err(map_err)?;
        txn.commit().map_err(|e| QErr::Exec(format!("commit: {e}")))?;
        Ok(n)
    });
    match r {
        Ok(x) => x,
        Err((l, m)) => Err(QErr::Panic(l, m)),
    }
}

/// Sorted copy (for multiset comparison).
pub fn sorted(mut rows: Vec<Vec<CV>>) -> Vec<Vec<CV>> {
    rows.sort();
    rows
}

pub fn rows_same_multiset(a: &[Vec<CV>], b: &[Vec<CV>]) -> bool {
    // NaN payloads: normalise every NaN to one bit pattern before sorting
    fn norm(v: &CV) -> CV {
        match v {
            CV::Float(b) if f64::from_bits(*b).is_nan() => CV::Float(f64::NAN.to_bits()),
            CV::List(l) => CV::List(l.iter().map(norm).collect()),
            CV::Map(m) => CV::Map(m.iter().map(|(k, v)| (k.clone(), norm(v))).collect()),
            CV::Node { id, labels, props } => CV::Node { id: *id, labels: labels.clone(), props: props.iter().map(|(k, v)| (k.clone(), norm(v))).collect() },
            CV::Rel { src, ty, dst, props } => CV::Rel { src: *src, ty: ty.clone(), dst: *dst, props: props.iter().map(|(k, v)| (k.clone(), norm(v))).collect() },
            o => o.clone(),
        }
    }
    let na: Vec<Vec<CV>> = sorted(a.iter().map(|r| r.iter().map(norm).collect()).collect());
    let nb: Vec<Vec<CV>> = sorted(b.iter().map(|r| r.iter().map(norm).collect()).collect());
    na == nb
}

/// Cypher literal for a scalar/list/map value (None: the value has no literal form,
/// e.g. NaN, infinities, blobs, datetimes -- pass those as parameters instead).
pub fn literal(p: &PV) -> Option<String> {
    Some(match p {
        PV::Null => "null".into(),
        PV::Bool(b) => b.to_string(),
        PV::Int(i) => {
            if *i == i64::MIN {
                return None;
            }
            i.to_string()
        }
        PV::Float(b) => {
            let f = f64::from_bits(*b);
            if !f.is_finite() {
                return None;
            }
            let s = format!("{f:?}");
            if s.contains('e') || s.contains("inf") || s.contains("NaN") { return None; }
            s
        }
        PV::Str(s) => {
            let mut o = String::from("'");
            for c in s.chars() {
                match c {
                    '\'' => o.push_str("\\'"),
                    '\\' => o.push_str("\\\\"),
                    '\n' | '\r' | '\t' | '\0' => return None,
                    c if c.is_control() => return None,
                    c => o.push(c),
                }
            }
            o.push('\'');
            o
        }
        PV::List(l) => {
            let parts: Option<Vec<String>> = l.iter().map(literal).collect();
            format!("[{}]", parts?.join(", "))
        }
        PV::Map(m) => {
            let mut parts = Vec::new();
            for (k, v) in m {
                if k.is_empty() || !k.chars().all(|c| c.is_ascii_alphanumeric() || c == '_') || k.chars().next().unwrap().is_ascii_digit() {
                    return None;
                }
                parts.push(format!("{k}: {}", literal(v)?));
            }
            format!("{{{}}}", parts.join(", "))
        }
        PV::DateTime(_) | PV::Blob(_) => return None,
    })
}
