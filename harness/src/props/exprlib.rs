//! Shared reference semantics for the expression-level properties C20-C23:
//! exact Int/Float comparison, three-valued equality, Cypher orderability, a per-thread
//! scratch database, literal/parameter binding and value pools built around the hard
//! neighbourhoods (2^53, +-2^63, NaN, signed zero, temporal-looking strings).
//!
//! Nothing in here calls the engine's evaluator: every oracle is computed on `CV`.
use crate::cy::{self, CV, QErr};
use crate::engine::{TempDir, temp_dir};
use crate::pv::{self, PV};
use nervusdb::Db;
use nervusdb::query::Params;
use proptest::prelude::*;
use std::cell::RefCell;
use std::cmp::Ordering;
use std::collections::BTreeMap;

// ------------------------------------------------------------------ scratch database

thread_local! {
    static TL_DB: RefCell<Option<(Db, TempDir)>> = const { RefCell::new(None) };
}

/// Runs `f` with this thread's scratch database: three nodes `(:N {v:0..2})` and two
/// relationships `0-[:R]->1`, `1-[:R]->2`. Read queries never change it.
pub fn with_db<R>(f: impl FnOnce(&Db) -> R) -> R {
    TL_DB.with(|c| {
        let mut c = c.borrow_mut();
        if c.is_none() {
            let dir = temp_dir();
            let db = Db::open(dir.join("db")).expect("open scratch db");
            cy::write(&db, "CREATE (a:N {v: 0})-[:R]->(b:N {v: 1})-[:R]->(c:N {v: 2})", &Params::new()).expect("seed scratch db");
            // (:K {i, a, b}) nodes carrying the fixed pool of hard values as stored properties
            let pool = graph_pool();
            for i in 0..pool.len() {
                let p = vec![("i".to_string(), PV::Int(i as i64)), ("a".to_string(), pool[i].clone()), ("b".to_string(), pool[graph_pool_b(i, pool.len())].clone())];
                cy::write(&db, "CREATE (:K {i: $i, a: $a, b: $b})", &cy::params_from(&p, None)).expect("seed K node");
            }
            *c = Some((db, dir));
        }
        f(&c.as_ref().unwrap().0)
    })
}

/// Fixed pool of property values stored on the `(:K)` nodes of the scratch database.
pub fn graph_pool() -> Vec<PV> {
    let mut v = vec![
        PV::Null,
        PV::Bool(false),
        PV::Bool(true),
        PV::Int(0),
        PV::Int(-1),
        PV::Int(1),
        PV::f(1.0),
        PV::f(0.5),
        PV::f(-0.0),
        PV::f(f64::NAN),
        PV::f(f64::INFINITY),
        PV::f(f64::NEG_INFINITY),
        PV::Int(P53 - 1),
        PV::Int(P53),
        PV::Int(P53 + 1),
        PV::Int(P53 + 2),
        PV::f(P53 as f64),
        PV::f((P53 + 2) as f64),
        PV::Int(-P53 - 1),
        PV::f(-(P53 as f64)),
        PV::Int(i64::MAX),
        PV::Int(i64::MAX - 1),
        PV::Int(i64::MIN),
        PV::f(9223372036854775808.0),
        PV::f(9223372036854774784.0),
        PV::f(-9223372036854775808.0),
        PV::f(1e19),
        PV::List(vec![]),
        PV::List(vec![PV::Int(P53 + 1)]),
        PV::List(vec![PV::f(P53 as f64)]),
        PV::List(vec![PV::Int(1), PV::Int(2)]),
        PV::List(vec![PV::Int(1)]),
        PV::List(vec![PV::Str("a".into())]),
    ];
    for s in ["", "a", "A", "ab", "b", "é", "\u{10000}", "\u{ffff}", "2021-01-01", "20210101", "2021-5", "12", "12:00:00", "5", "1200"] {
        v.push(PV::Str(s.to_string()));
    }
    v
}

/// Index of the value stored in property `b` of node `i`.
pub fn graph_pool_b(i: usize, len: usize) -> usize {
    (i * 7 + 3) % len
}

/// Binds values into query text either as literals or as `$pN` parameters.
pub struct Binder {
    pub prefer_literal: bool,
    pub params: Vec<(String, PV)>,
}

impl Binder {
    pub fn new(prefer_literal: bool) -> Self {
        Binder { prefer_literal, params: Vec::new() }
    }
    /// Text of an atom denoting `v` (always safe inside any operator context).
    pub fn bind(&mut self, v: &PV) -> String {
        // string escapes in literals are the lexer's business (not part of C20-C23): anything
        // containing a backslash or a quote travels as a parameter
        let plain = !contains_pv(v, &|x| matches!(x, PV::Str(s) if s.contains('\\') || s.contains('\'') || s.contains('"')))
            && !matches!(v, PV::Map(m) if m.keys().any(|k| k.contains('\\')));
        if self.prefer_literal
            && plain
            && let Some(l) = cy::literal(v)
        {
            return if l.starts_with('-') { format!("({l})") } else { l };
        }
        let name = format!("p{}", self.params.len());
        self.params.push((name.clone(), v.clone()));
        format!("${name}")
    }
    pub fn params(&self) -> Params {
        cy::params_from(&self.params, None)
    }
}

pub fn run(q: &str, b: &Binder) -> Result<(Vec<String>, Vec<Vec<CV>>), QErr> {
    let p = b.params();
    with_db(|db| cy::read(db, q, &p))
}

// ------------------------------------------------------------------ exact numerics

#[derive(Debug, Clone, Copy, PartialEq)]
pub enum Num {
    I(i64),
    F(f64),
}

pub fn num_of(v: &CV) -> Option<Num> {
    match v {
        CV::Int(i) => Some(Num::I(*i)),
        CV::Float(b) => Some(Num::F(f64::from_bits(*b))),
        _ => None,
    }
}

impl Num {
    pub fn is_nan(self) -> bool {
        matches!(self, Num::F(f) if f.is_nan())
    }
}

/// Exact comparison of an integer with a float (no rounding through f64). None: NaN.
pub fn cmp_int_float(i: i64, f: f64) -> Option<Ordering> {
    if f.is_nan() {
        return None;
    }
    if f >= 9_223_372_036_854_775_808.0 {
        return Some(Ordering::Less);
    }
    if f < -9_223_372_036_854_775_808.0 {
        return Some(Ordering::Greater);
    }
    let t = f.trunc();
    let ti = t as i64; // exact: t is integral and inside [-2^63, 2^63)
    Some(match i.cmp(&ti) {
        Ordering::Equal => {
            if f > t {
                Ordering::Less
            } else if f < t {
                Ordering::Greater
            } else {
                Ordering::Equal
            }
        }
        o => o,
    })
}

/// Exact numeric comparison; None if either is NaN.
pub fn num_cmp(a: Num, b: Num) -> Option<Ordering> {
    match (a, b) {
        (Num::I(x), Num::I(y)) => Some(x.cmp(&y)),
        (Num::F(x), Num::F(y)) => x.partial_cmp(&y),
        (Num::I(x), Num::F(y)) => cmp_int_float(x, y),
        (Num::F(x), Num::I(y)) => cmp_int_float(y, x).map(Ordering::reverse),
    }
}

/// Nearest f64 of an i128 (round to nearest even, as `as f64` does).
pub fn i128_to_f64(x: i128) -> f64 {
    x as f64
}

pub fn fits_i64(x: i128) -> bool {
    (i64::MIN as i128..=i64::MAX as i128).contains(&x)
}

// ------------------------------------------------------------------ equality (three-valued)

pub fn kind(v: &CV) -> &'static str {
    match v {
        CV::Null => "null",
        CV::Bool(_) => "bool",
        CV::Int(_) => "int",
        CV::Float(_) => "float",
        CV::Str(_) => "string",
        CV::DateTime(_) => "datetime",
        CV::Blob(_) => "bytes",
        CV::List(_) => "list",
        CV::Map(_) => "map",
        CV::Node { .. } => "node",
        CV::Rel { .. } => "rel",
        CV::Path { .. } => "path",
        CV::Other(_) => "other",
    }
}

/// Cypher `=`: None is null.
pub fn ref_eq(a: &CV, b: &CV) -> Option<bool> {
    match (a, b) {
        (CV::Null, _) | (_, CV::Null) => None,
        (CV::Int(_) | CV::Float(_), CV::Int(_) | CV::Float(_)) => {
            Some(num_cmp(num_of(a).unwrap(), num_of(b).unwrap()) == Some(Ordering::Equal))
        }
        (CV::List(x), CV::List(y)) => {
            if x.len() != y.len() {
                return Some(false);
            }
            let mut unknown = false;
            for (p, q) in x.iter().zip(y) {
                match ref_eq(p, q) {
                    Some(false) => return Some(false),
                    None => unknown = true,
                    Some(true) => {}
                }
            }
            if unknown { None } else { Some(true) }
        }
        (CV::Map(x), CV::Map(y)) => {
            if x.len() != y.len() || x.keys().ne(y.keys()) {
                return Some(false);
            }
            let mut unknown = false;
            for (p, q) in x.values().zip(y.values()) {
                match ref_eq(p, q) {
                    Some(false) => return Some(false),
                    None => unknown = true,
                    Some(true) => {}
                }
            }
            if unknown { None } else { Some(true) }
        }
        (x, y) => Some(x == y),
    }
}

/// Does the value contain a null or NaN anywhere (then `=` is not required to be an equivalence)?
pub fn has_null_or_nan(v: &CV) -> bool {
    match v {
        CV::Null => true,
        CV::Float(b) => f64::from_bits(*b).is_nan(),
        CV::List(l) => l.iter().any(has_null_or_nan),
        CV::Map(m) => m.values().any(has_null_or_nan),
        _ => false,
    }
}

pub fn contains(v: &CV, pred: &dyn Fn(&CV) -> bool) -> bool {
    if pred(v) {
        return true;
    }
    match v {
        CV::List(l) => l.iter().any(|x| contains(x, pred)),
        CV::Map(m) => m.values().any(|x| contains(x, pred)),
        _ => false,
    }
}

// ------------------------------------------------------------------ orderability

/// Rank across kinds in ascending ORDER BY (openCypher orderability as restated by the
/// comments/tests of `evaluator_compare.rs`): MAP < NODE < RELATIONSHIP < LIST < PATH <
/// STRING < BOOLEAN < NUMBER (NaN greatest number) < datetime < bytes < null.
pub fn rank(v: &CV) -> u8 {
    match v {
        CV::Map(_) => 0,
        CV::Node { .. } => 1,
        CV::Rel { .. } => 2,
        CV::List(_) => 3,
        CV::Path { .. } => 4,
        CV::Str(_) => 5,
        CV::Bool(_) => 6,
        CV::Int(_) | CV::Float(_) => 7,
        CV::DateTime(_) => 8,
        CV::Blob(_) => 9,
        CV::Other(_) => 9,
        CV::Null => 10,
    }
}

/// Reference ORDER BY comparison (ascending, nulls last). Total preorder. Values the
/// specification does not order among themselves (two maps, two paths) compare Equal,
/// i.e. they form one tie group; the generators never nest maps inside lists.
pub fn ord_cmp(a: &CV, b: &CV) -> Ordering {
    let (ra, rb) = (rank(a), rank(b));
    if ra != rb {
        return ra.cmp(&rb);
    }
    match (a, b) {
        (CV::Str(x), CV::Str(y)) => x.as_bytes().cmp(y.as_bytes()), // UTF-8 byte order == code point order
        (CV::Bool(x), CV::Bool(y)) => x.cmp(y),
        (CV::Int(_) | CV::Float(_), CV::Int(_) | CV::Float(_)) => {
            let (x, y) = (num_of(a).unwrap(), num_of(b).unwrap());
            match (x.is_nan(), y.is_nan()) {
                (true, true) => Ordering::Equal,
                (true, false) => Ordering::Greater,
                (false, true) => Ordering::Less,
                _ => num_cmp(x, y).unwrap(),
            }
        }
        (CV::DateTime(x), CV::DateTime(y)) => x.cmp(y),
        (CV::Blob(x), CV::Blob(y)) => x.cmp(y),
        (CV::List(x), CV::List(y)) => {
            for (p, q) in x.iter().zip(y) {
                let o = ord_cmp(p, q);
                if o != Ordering::Equal {
                    return o;
                }
            }
            x.len().cmp(&y.len())
        }
        (CV::Node { id: x, .. }, CV::Node { id: y, .. }) => x.cmp(y),
        (CV::Rel { src: s1, dst: d1, .. }, CV::Rel { src: s2, dst: d2, .. }) => (s1, d1).cmp(&(s2, d2)),
        _ => Ordering::Equal,
    }
}

/// May the engine's string comparator treat this string as a temporal value?
/// (`parse_temporal_string` trims, then every accepted form starts with a digit or a sign.)
pub fn temporal_like(s: &str) -> bool {
    matches!(s.trim().chars().next(), Some(c) if c.is_ascii_digit() || c == '+' || c == '-')
}

pub fn has_temporal_like(v: &PV) -> bool {
    match v {
        PV::Str(s) => temporal_like(s),
        PV::List(l) => l.iter().any(has_temporal_like),
        PV::Map(m) => m.values().any(has_temporal_like),
        _ => false,
    }
}

/// Rewrites temporal-looking strings so that the engine cannot parse them (exclusion by
/// construction for the open finding on string comparison). Returns true if anything changed.
pub fn detemporalize(v: &mut PV) -> bool {
    match v {
        PV::Str(s) if temporal_like(s) => {
            *s = format!("s{}", s.trim_start());
            true
        }
        PV::List(l) => l.iter_mut().fold(false, |acc, x| detemporalize(x) | acc),
        PV::Map(m) => m.values_mut().fold(false, |acc, x| detemporalize(x) | acc),
        _ => false,
    }
}

// ------------------------------------------------------------------ value pools

pub const P53: i64 = 1 << 53;

/// Integers around the magnitudes where f64 loses integers.
pub fn hard_i64() -> BoxedStrategy<i64> {
    prop_oneof![
        4 => (prop::sample::select(vec![0i64, P53, -P53, i64::MAX, i64::MIN, 1 << 62, -(1 << 62), 1 << 54, (1 << 53) + (1 << 30), 3037000499, 1 << 31, 1 << 32]), -3i64..=3)
            .prop_map(|(b, d)| b.saturating_add(d)),
        2 => -20i64..20,
        2 => pv::boundary_i64(),
    ]
    .boxed()
}

fn ulp_step(f: f64, up: bool) -> f64 {
    if f.is_nan() || f.is_infinite() {
        return f;
    }
    if f == 0.0 {
        return if up { 5e-324 } else { -5e-324 };
    }
    let b = f.to_bits();
    let nb = if (f > 0.0) == up { b + 1 } else { b - 1 };
    f64::from_bits(nb)
}

/// Floats sitting on, next to and half way between the hard integers.
pub fn hard_f64() -> BoxedStrategy<f64> {
    prop_oneof![
        5 => (hard_i64(), 0u8..6).prop_map(|(i, m)| {
            let f = i as f64;
            match m {
                0 => f,
                1 => ulp_step(f, true),
                2 => ulp_step(f, false),
                3 => f + 0.5,
                4 => f - 0.5,
                _ => -f,
            }
        }),
        2 => prop::sample::select(vec![0.0f64, -0.0, 0.5, -0.5, 1.5, 0.1, f64::INFINITY, f64::NEG_INFINITY, f64::NAN, f64::MAX, f64::MIN, 5e-324,
            9223372036854775808.0, -9223372036854775808.0, 9223372036854774784.0, 18446744073709551616.0, 1e19, -1e19]),
        1 => pv::f64_bits_any().prop_map(f64::from_bits),
    ]
    .boxed()
}

pub fn hard_num() -> BoxedStrategy<PV> {
    prop_oneof![
        1 => hard_i64().prop_map(PV::Int),
        1 => hard_f64().prop_map(PV::f),
    ]
    .boxed()
}

/// A numeric value related to `a`: same magnitude in the other type, neighbours, roundings.
pub fn related_num(a: &PV, m: u8, d: i64) -> PV {
    match a {
        PV::Int(i) => match m % 6 {
            0 => PV::f(*i as f64),
            1 => PV::Int(i.saturating_add(d)),
            2 => PV::f(ulp_step(*i as f64, d >= 0)),
            3 => PV::Int(*i),
            4 => PV::f(i.saturating_add(d) as f64),
            _ => PV::f(*i as f64 + 0.5 * d as f64),
        },
        PV::Float(b) => {
            let f = f64::from_bits(*b);
            match m % 6 {
                0 | 4 => {
                    if f.is_finite() && f.abs() < 9.3e18 {
                        // `as` saturates; the neighbour offsets make the interesting cases
                        PV::Int((f as i64).saturating_add(if m % 6 == 4 { d } else { 0 }))
                    } else {
                        PV::Int(if f > 0.0 { i64::MAX } else { i64::MIN })
                    }
                }
                1 => PV::f(ulp_step(f, d >= 0)),
                2 => PV::f(-f),
                3 => PV::Float(*b),
                _ => PV::f(f + d as f64),
            }
        }
        other => other.clone(),
    }
}

pub const TEMPORAL_STRINGS: &[&str] = &[
    "2021-01-01", "20210101", "2021-5", "2021", "2021-01", "202101", "2021-001", "2021001", "2021-W01-1", "2021W011", "2020x", "20201231",
    "12:00", "1200", "12", "13", "5", "12:00:00", "12:00:00.5", "120000", "12:00+01:00", "11:00Z", "10:59+00:00", "12:3",
    "2021-01-01T12:00", "2021-01-01T12:00:00", "2021-01-01T1200", "2021-01-01T12:00Z", "2021-01-01T13:00+01:00", "2021-01-01T12:00:00+00:00", "2021-01-01T",
    " 2021-01-01", "+2021-01-01", "-2021-01-01", "-", "+", "1", "0", "00", "24", "2359", "9999", "10000",
];

pub fn hard_string() -> BoxedStrategy<String> {
    prop_oneof![
        3 => prop::sample::select(TEMPORAL_STRINGS.to_vec()).prop_map(|s| s.to_string()),
        4 => "[a-cA-C]{0,3}",
        2 => pv::small_string(),
        1 => prop::sample::select(vec!["", "a", "A", "aa", "ab", "b", "é", "z", "\u{ffff}", "\u{10000}", "Z", "~", " "]).prop_map(|s| s.to_string()),
        // multi-byte strings whose byte length and fifth character mimic compact ISO week dates (yyyyWwwd)
        1 => prop::sample::select(vec!["A®\u{fffc}0W", "aé®xW1", "ééabW", "2021W011", "éé21W01"]).prop_map(|s| s.to_string()),
    ]
    .boxed()
}

pub fn hard_scalar() -> BoxedStrategy<PV> {
    prop_oneof![
        2 => Just(PV::Null),
        2 => any::<bool>().prop_map(PV::Bool),
        6 => hard_i64().prop_map(PV::Int),
        6 => hard_f64().prop_map(PV::f),
        5 => hard_string().prop_map(PV::Str),
    ]
    .boxed()
}

/// Scalars, lists of scalars (one nesting level more with small probability) and flat maps.
/// Maps never occur inside lists (see `ord_cmp`).
pub fn hard_value() -> BoxedStrategy<PV> {
    let flat_list = prop::collection::vec(hard_scalar(), 0..4).prop_map(PV::List);
    let nested = prop::collection::vec(prop_oneof![3 => hard_scalar(), 1 => prop::collection::vec(hard_scalar(), 0..3).prop_map(PV::List)], 0..3).prop_map(PV::List);
    let map = prop::collection::btree_map(prop::sample::select(vec!["a", "b", "k"]).prop_map(|s| s.to_string()), hard_scalar(), 0..3).prop_map(PV::Map);
    prop_oneof![
        12 => hard_scalar(),
        3 => flat_list,
        1 => nested,
        1 => map,
    ]
    .boxed()
}

pub fn pv_kind(v: &PV) -> &'static str {
    match v {
        PV::Null => "null",
        PV::Bool(_) => "bool",
        PV::Int(_) => "int",
        PV::Float(_) => "float",
        PV::Str(_) => "string",
        PV::DateTime(_) => "datetime",
        PV::Blob(_) => "bytes",
        PV::List(_) => "list",
        PV::Map(_) => "map",
    }
}

/// Is this numeric value in one of the neighbourhoods where f64 cannot represent every integer?
pub fn is_boundary_num(v: &PV) -> bool {
    match v {
        PV::Int(i) => i.unsigned_abs() >= (1u64 << 53) - 2,
        PV::Float(b) => {
            let f = f64::from_bits(*b);
            !f.is_finite() || f.abs() >= 9007199254740990.0 || (f == 0.0 && f.is_sign_negative())
        }
        _ => false,
    }
}

pub fn contains_pv(v: &PV, pred: &dyn Fn(&PV) -> bool) -> bool {
    if pred(v) {
        return true;
    }
    match v {
        PV::List(l) => l.iter().any(|x| contains_pv(x, pred)),
        PV::Map(m) => m.values().any(|x| contains_pv(x, pred)),
        _ => false,
    }
}

pub fn show(v: &CV) -> String {
    match v {
        CV::Float(b) => format!("Float({:?})", f64::from_bits(*b)),
        CV::List(l) => format!("[{}]", l.iter().map(show).collect::<Vec<_>>().join(", ")),
        CV::Map(m) => format!("{{{}}}", m.iter().map(|(k, v)| format!("{k}: {}", show(v))).collect::<Vec<_>>().join(", ")),
        CV::Node { id, .. } => format!("Node({id})"),
        CV::Rel { src, dst, .. } => format!("Rel({src}->{dst})"),
        o => format!("{o:?}"),
    }
}

pub fn show_row(r: &[CV]) -> String {
    format!("({})", r.iter().map(show).collect::<Vec<_>>().join(", "))
}

/// Manual probe: `check --worker q '<query>'` prints the rows or the error.
pub fn probe(args: &[String]) -> i32 {
    crate::engine::install_panic_hook();
    let dir = std::env::temp_dir().join(format!("nvprobe-{}", std::process::id()));
    let _ = std::fs::create_dir_all(&dir);
    let db = Db::open(dir.join("db")).expect("open");
    let _ = cy::write(&db, "CREATE (a:N {v: 0})-[:R]->(b:N {v: 1})-[:R]->(c:N {v: 2})", &Params::new());
    let mut p: Vec<(String, PV)> = Vec::new();
    p.push(("max".into(), PV::Int(i64::MAX)));
    p.push(("min".into(), PV::Int(i64::MIN)));
    p.push(("nan".into(), PV::f(f64::NAN)));
    p.push(("inf".into(), PV::f(f64::INFINITY)));
    let params = cy::params_from(&p, None);
    for q in args {
        match cy::read(&db, q, &params) {
            Ok((cols, rows)) => {
                println!("{q}\n  cols={cols:?}");
                for r in rows {
                    println!("  {}", show_row(&r));
                }
            }
            Err(e) => println!("{q}\n  ERR {e:?}"),
        }
    }
    let _ = std::fs::remove_dir_all(&dir);
    0
}

#[allow(dead_code)]
pub fn _unused(_: BTreeMap<String, CV>) {}
