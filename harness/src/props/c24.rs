//! C24 Transactions see their own writes.
use crate::cyw::{self, Mix, Op, Pool, World, Route};
use crate::engine::{CaseResult, Failure, Obs, RunCtx, fp};
use proptest::prelude::*;
use serde::{Deserialize, Serialize};
use std::collections::BTreeSet;

#[derive(Debug, Clone, Serialize, Deserialize)]
pub struct Case {
    pub setup: Vec<Op>,
    pub txn: Vec<Op>,
    pub reopen: bool,
}

fn setup_mix() -> Mix {
    Mix { create_nodes: 3, create_pairs: 2, link: 2, set_prop: 1, max_rows: 3, ..Default::default() }
}

fn txn_mix() -> Mix {
    Mix {
        create_nodes: 4,
        create_pairs: 2,
        link: 4,
        set_prop: 4,
        remove_prop: 2,
        add_label: 1,
        delete: 2,
        detach_delete: 2,
        delete_rel: 2,
        merge: 4,
        recent_8: 7,
        max_rows: 3,
        ..Default::default()
    }
}

fn strategy() -> impl Strategy<Value = Case> {
    (prop::collection::vec(cyw::op(&setup_mix()), 0..3), prop::collection::vec(cyw::op(&txn_mix()), 2..=6), prop::bool::weighted(0.1)).prop_map(|(setup, txn, reopen)| Case { setup, txn, reopen })
}

fn kind(rs: &cyw::RS) -> &'static str {
    match rs {
        cyw::RS::CreateNodes { .. } | cyw::RS::CreatePairs { .. } => "create",
        cyw::RS::Link { .. } => "link",
        cyw::RS::SetProp { .. } | cyw::RS::RemoveProp { .. } | cyw::RS::AddLabel { .. } => "update",
        cyw::RS::Delete { .. } | cyw::RS::DeleteRel { .. } => "delete",
        cyw::RS::Merge { .. } => "merge",
        _ => "other",
    }
}

pub fn run(ctx: &mut RunCtx) {
    ctx.assume("decided at the C ABI (ndb_begin_write / ndb_txn_query / ndb_txn_commit), which the Python and Node bindings wrap");
    let cases = ctx.tier.pick(200_000, 3_000_000);
    let test = |c: &Case, obs: &mut Obs| {
        let mut w = World::new()?;
        let none = BTreeSet::new();
        for op in &c.setup {
            let Some(rs) = cyw::resolve(op, &w.model, &Pool { only: None, recent: &none }, &mut w.next_k) else { continue };
            let mut m = w.model.clone();
            if rs.apply(&mut m).is_err() {
                continue;
            }
            if let Err(e) = w.exec_auto(Route::CapiWrite, &rs.render())? {
                return Err(w.fail_with_log(Failure::new("valid-statement-failed", format!("setup statement failed: {e}"))));
            }
            w.model = m;
        }
        w.check().map_err(|f| w.fail_with_log(f))?;
        let mut model = w.model.clone();
        let mut next_k = w.next_k;
        let mut log = std::mem::take(&mut w.log);
        let mut deps: Vec<(&'static str, &'static str)> = Vec::new();
        let mut stmts = 0;
        let r: CaseResult = (|| {
            let mut t = w.cdb().begin_write().map_err(|e| Failure::new("capi-call-failed:ndb_begin_write", e.to_string()))?;
            log.push("begin".into());
            let mut recent = BTreeSet::new();
            // who wrote a node first in this transaction (kind of the writing statement)
            let mut writer: std::collections::BTreeMap<u32, &'static str> = Default::default();
            for op in &c.txn {
                // nothing to address yet (empty graph): create something instead, so that the
                // transaction always has its 2-6 statements
                let rs = match cyw::resolve(op, &model, &Pool { only: None, recent: &recent }, &mut next_k) {
                    Some(rs) => rs,
                    None => cyw::resolve(&Op::CreateNodes { labels: vec![0], vals: vec![cyw::Val::Int(1), cyw::Val::Null] }, &model, &Pool { only: None, recent: &recent }, &mut next_k).unwrap(),
                };
                let mut m = model.clone();
                let expect = rs.apply(&mut m);
                // dependencies: existing nodes this statement addresses that an earlier
                // statement of the transaction created or changed
                for k in rs.reads() {
                    for n in cyw::nodes_with_k(&model, k) {
                        if let Some(wk) = writer.get(&n) {
                            deps.push((wk, kind(&rs)));
                        }
                    }
                }
                let r = cyw::txn_stmt(&mut log, &mut t, &rs.render());
                stmts += 1;
                match (&expect, &r) {
                    (Ok(()), Ok(())) => {
                        for n in cyw::touched(&model, &m) {
                            writer.entry(n).or_insert(kind(&rs));
                            recent.insert(n);
                        }
                        model = m;
                    }
                    (Err(_), Err(_)) => {}
                    (Err(why), Ok(())) => fail!("txn-statement-outcome:should-fail", "statement must fail ({}) given the earlier statements of the transaction, but succeeded", why.0),
                    (Ok(()), Err(e)) => fail!("txn-statement-outcome:should-succeed", "statement failed although it is valid after the earlier statements of the transaction: {e}"),
                }
            }
            log.push("commit".into());
            t.commit().map_err(|e| Failure::new("commit-failed", e.to_string()))?;
            Ok(())
        })();
        w.log = log;
        r.map_err(|f| w.fail_with_log(f))?;
        w.model = model;
        w.next_k = next_k;
        deps.sort();
        deps.dedup();
        for (a, b) in &deps {
            obs.class(&format!("dep:{a}->{b}"));
        }
        obs.class(&format!("statements:{stmts}"));
        obs.set_nontrivial(!deps.is_empty());
        if !deps.is_empty() {
            obs.sub_eval(Some(fp(&deps)));
        }
        w.check().map_err(|f| {
            let f = Failure::new(format!("txn-own-writes:{}", f.signature), format!("after commit the database differs from the model with sequential visibility: {}", f.message));
            w.fail_with_log(f)
        })?;
        super::c14::traversal_check(&w).map_err(|f| w.fail_with_log(f))?;
        if c.reopen {
            w.reopen().map_err(|f| w.fail_with_log(f))?;
            w.check().map_err(|f| w.fail_with_log(f))?;
        }
        Ok(())
    };
    ctx.explore(
        "transactions",
        "0-2 committed setup statements, then 2-6 statements in one explicit C-API transaction whose targets are chosen (7/8) among the nodes that earlier statements of the same transaction created or changed: MATCH+SET/REMOVE/label on created nodes, relationships between created nodes, MERGE on a key created earlier (must match, not create), (DETACH) DELETE and relationship delete of earlier writes; every statement's success/failure must be the one implied by sequential visibility; after ndb_txn_commit the full dump == model with sequential visibility. Non-trivial = at least one statement addresses a node written by an earlier statement of the transaction",
        cases,
        strategy,
        test,
    );
}
