//! C02 Crash recovery yields a committed prefix (see crash.rs).
pub fn run(ctx: &mut crate::engine::RunCtx) {
    super::crash::run_which(ctx, super::crash::Which::Prefix);
}
