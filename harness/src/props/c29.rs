//! C29 Backups restore a consistent committed state.
use crate::engine::{CaseResult, Failure, Obs, RunCtx, catch, fp};
use crate::hist::{self, Excl, Op, Profile, Runner, StepKind};
use crate::model::{self, Model};
use nervusdb::verif_hooks::{self as vh, Hooks};
use proptest::prelude::*;
use serde::{Deserialize, Serialize};
use std::sync::{Arc, Mutex};

#[derive(Debug, Clone, Serialize, Deserialize)]
pub struct Case {
    before: Vec<Op>,
    /// bursts run on the live handle before the page-file copy, between the two copies, and
    /// after the log copy (all inside the backup call)
    at_start: Vec<Op>,
    between: Vec<Op>,
    at_end: Vec<Op>,
    /// back up a closed database instead (bursts are then ignored)
    quiescent_closed: bool,
    #[serde(default)]
    force: bool,
    /// additionally restore the backup over the (closed) source database after it has moved on
    #[serde(default)]
    restore_over_source: bool,
}

struct Shared {
    runner: Option<Runner>,
    failure: Option<Failure>,
    window_states: Vec<Model>,
    bursts: [Vec<Op>; 3],
    commits_in_window: usize,
    compactions_in_window: usize,
}

struct BackupHooks(Mutex<Shared>);

impl Hooks for BackupHooks {
    fn sched(&self, point: &'static str) {
        let which = match point {
            "backup.before_ndb_copy" => 0,
            "backup.between_copies" => 1,
            "backup.after_wal_copy" => 2,
            _ => return,
        };
        let mut s = self.0.lock().unwrap();
        let ops = std::mem::take(&mut s.bursts[which]);
        let Some(mut r) = s.runner.take() else { return };
        if which == 0 {
            s.window_states.push(r.model.clone());
        }
        let mut obs = Obs::default();
        for op in &ops {
            match r.apply(op, false, false, &mut obs) {
                Ok(StepKind::Committed) => {
                    s.commits_in_window += 1;
                    s.window_states.push(r.model.clone());
                }
                Ok(StepKind::Compacted) => s.compactions_in_window += 1,
                Ok(_) => {}
                Err(f) => {
                    if s.failure.is_none() {
                        s.failure = Some(r.fail_with_log(f));
                    }
                    break;
                }
            }
        }
        s.runner = Some(r);
    }
}

fn test(c: &Case, obs: &mut Obs, no_compact_in_window: bool) -> CaseResult {
    let dir = crate::engine::temp_dir();
    let base = dir.join("db");
    let bdir = dir.join("backups");
    std::fs::create_dir_all(&bdir).map_err(|e| Failure::new("harness-io", e.to_string()))?;
    let mut r = Runner::new(base.clone(), Excl::default())?;
    for op in &c.before {
        r.apply(op, false, false, obs).map_err(|f| r.fail_with_log(f))?;
    }
    let start_state = r.model.clone();
    let strip = |ops: &Vec<Op>| -> Vec<Op> {
        ops.iter()
            .filter(|o| {
                let risky = o.is_compaction() || o.is_reopen();
                if risky && no_compact_in_window && !c.force {
                    false
                } else {
                    true
                }
            })
            .cloned()
            .collect()
    };
    let bursts = if c.quiescent_closed { [vec![], vec![], vec![]] } else { [c.at_start.clone(), strip(&c.between), c.at_end.clone()] };
    let removed = c.at_start.len() + c.between.len() + c.at_end.len() - bursts.iter().map(|b| b.len()).sum::<usize>();
    if removed > 0 && !c.quiescent_closed {
        obs.excluded("compaction-or-close-inside-backup-window");
    }
    if c.quiescent_closed {
        let db = r.db.take().unwrap();
        db.close().map_err(|e| Failure::new("op-error:close", e.to_string()))?;
    }
    let shared = Arc::new(BackupHooks(Mutex::new(Shared { runner: None, failure: None, window_states: vec![], bursts, commits_in_window: 0, compactions_in_window: 0 })));
    if !c.quiescent_closed {
        shared.0.lock().unwrap().runner = Some(r);
    } else {
        shared.0.lock().unwrap().window_states.push(start_state.clone());
    }
    let prev = vh::install(Some(shared.clone() as Arc<dyn Hooks>));
    let res = catch(|| nervusdb::backup(&base, &bdir));
    vh::install(prev);
    let mut s = shared.0.lock().unwrap();
    if let Some(f) = s.failure.take() {
        // a burst operation failed on the live handle: not the backup's fault unless it panicked there
        return Err(Failure::new(format!("live-handle-during-backup:{}", f.signature), f.message));
    }
    let info = match res {
        Err((l, m)) => return Err(Failure::new(format!("panic@{l}"), m)),
        Ok(Err(e)) => return Err(Failure::new("backup-fails", e.to_string())),
        Ok(Ok(i)) => i,
    };
    let window: Vec<Model> = s.window_states.clone();
    let (cw, kw) = (s.commits_in_window, s.compactions_in_window);
    let live = s.runner.take();
    drop(s);
    obs.class_if(c.quiescent_closed, "closed-database");
    obs.class_if(cw > 0, "commit-inside-window");
    obs.class_if(kw > 0, "compaction-inside-window");
    obs.set_nontrivial(cw > 0 || kw > 0);
    // ---- restore to a new path and open
    let target = dir.join("restored.ndb");
    match catch(|| nervusdb::BackupManager::restore_from_backup(&bdir, info.id, &target)) {
        Err((l, m)) => return Err(Failure::new(format!("panic@{l}"), m)),
        Ok(Err(e)) => return Err(Failure::new("restore-fails", e.to_string())),
        Ok(Ok(())) => {}
    }
    let rdb = hist::open_db(&target).map_err(|f| Failure::new(format!("restored-open-fails:{}", f.signature), format!("{} (commits in window {cw}, compactions in window {kw})", f.message)))?;
    let keys = hist::keys_vec();
    let types = hist::types_vec();
    let uni = model::Universe { keys: &keys, types: &types };
    let mut last: Option<Failure> = None;
    let mut matched = false;
    for m in window.iter().rev() {
        let d = model::dump_db(&rdb, &uni, &m.dead).map_err(|f| Failure::new(format!("restored-read-fails:{}", f.signature), f.message))?;
        match model::diff(m, &d, &uni) {
            Ok(()) => {
                matched = true;
                break;
            }
            Err(f) => last = Some(f),
        }
    }
    obs.sub_eval(Some(fp(&(cw, kw))));
    if !matched {
        let f = last.unwrap_or(Failure::new("?", "no window state"));
        return Err(Failure::new(
            format!("restored-state-not-in-window:{}", f.signature),
            format!("restored content equals none of the {} states between backup start and end (commits in window {cw}, compactions {kw}); vs the first: {}", window.len(), f.message),
        ));
    }
    // the restored database is usable
    drop(rdb);
    // the live handle is unaffected
    if let Some(mut r) = live {
        r.check().map_err(|f| Failure::new(format!("live-handle-after-backup:{}", f.signature), r.fail_with_log(f).message))?;
        if c.restore_over_source {
            // the source moves on (its log grows), is closed, and the backup is restored over it:
            // the result must again be a state of the backup window, not a mixture with the
            // newer files that were in place
            obs.class("restore-over-moved-on-source");
            let mut o2 = Obs::default();
            for _ in 0..2 {
                let w = vec![hist::W::CreateNode { labels: vec![1] }, hist::W::CreateEdge { s: u16::MAX, t: 0, d: 0 }];
                r.apply(&Op::Tx { ws: w, commit: true }, false, false, &mut o2).map_err(|f| r.fail_with_log(f))?;
            }
            let db = r.db.take().unwrap();
            drop(db);
            let ndb = base.with_extension("ndb");
            match catch(|| nervusdb::BackupManager::restore_from_backup(&bdir, info.id, &ndb)) {
                Err((l, m)) => return Err(Failure::new(format!("panic@{l}"), m)),
                Ok(Err(e)) => return Err(Failure::new("restore-over-source-fails", e.to_string())),
                Ok(Ok(())) => {}
            }
            let rdb2 = hist::open_db(&base).map_err(|f| Failure::new(format!("restored-over-source-open-fails:{}", f.signature), f.message))?;
            let mut ok = false;
            let mut lastf = None;
            for m in window.iter().rev() {
                let d = model::dump_db(&rdb2, &uni, &m.dead).map_err(|f| Failure::new(format!("restored-read-fails:{}", f.signature), f.message))?;
                match model::diff(m, &d, &uni) {
                    Ok(()) => {
                        ok = true;
                        break;
                    }
                    Err(f) => lastf = Some(f),
                }
            }
            obs.sub_eval(Some(fp(&(cw, kw, "over"))));
            if !ok {
                let f = lastf.unwrap_or(Failure::new("?", "no window state"));
                return Err(Failure::new(format!("restored-over-source-not-in-window:{}", f.signature), format!("after restoring over the moved-on source the content equals none of the backup-window states: {}", f.message)));
            }
        }
    }
    Ok(())
}

pub fn run(ctx: &mut RunCtx) {
    ctx.assume("concurrent activity is injected at the three cfg-guarded schedule points of execute_backup (before the page-file copy, between the copies, after the log copy) as complete operations on the live handle");
    let mut p = Profile::base();
    p.ops = 0..7;
    p.ws = 1..6;
    p.w_compact = 2;
    p.w_index = 1;
    let mut pb = Profile::base();
    pb.ops = 0..3;
    pb.ws = 1..5;
    pb.w_compact = 3;
    pb.w_reopen = 1;
    let no_compact = ctx.excluding("compaction-or-close-inside-backup-window");
    let n = ctx.tier.pick(30_000, 600_000);
    ctx.explore(
        "backup-restore",
        "generated history, then backup() of the live (or closed) database with generated bursts of commits / compactions / close+reopen at the start, between the page-file copy and the log copy, and at the end; the backup is restored to a new path and opened; its dump must equal one of the model states between backup start and end (so it contains everything committed before the start); non-trivial = a commit or compaction ran inside the backup window",
        n,
        || {
            (hist::history(&p), hist::history(&pb), hist::history(&pb), hist::history(&pb), prop::bool::weighted(0.15))
                .prop_flat_map(|x| (Just(x), prop::bool::weighted(0.3)))
                .prop_map(|((before, at_start, between, at_end, quiescent_closed), restore_over_source)| Case { before, at_start, between, at_end, quiescent_closed, force: false, restore_over_source })
        },
        |c: &Case, obs: &mut Obs| test(c, obs, no_compact),
    );
}
