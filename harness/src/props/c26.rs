//! C26 The on-disk B-tree behaves as a sorted multimap.
//!
//! Model-based: a reference `Vec<(key, payload, seq)>` is compared with the real
//! `BTree` over a real `Pager` after every operation and after dropping and reopening
//! the pager.
use crate::engine::{CaseResult, Failure, Obs, RunCtx, fp, idx};
use crate::pv::PV;
use nervusdb_storage::index::btree::BTree;
use nervusdb_storage::index::ordered_key::encode_ordered_value;
use nervusdb_storage::pager::{PageId, Pager};
use proptest::prelude::*;
use serde::{Deserialize, Serialize};
use std::collections::BTreeMap;

const PAGE_SIZE: usize = nervusdb_storage::PAGE_SIZE;

#[derive(Debug, Clone, Serialize, Deserialize, PartialEq, Eq, Hash)]
pub enum KeySpec {
    /// `head` followed by `fill` up to `len` bytes (long keys: 4-8 cells per page)
    Long { head: Vec<u8>, fill: u8, len: u16 },
    Short(Vec<u8>),
}

impl KeySpec {
    fn bytes(&self) -> Vec<u8> {
        match self {
            KeySpec::Long { head, fill, len } => {
                let mut k = head.clone();
                while k.len() < *len as usize {
                    k.push(*fill);
                }
                k
            }
            KeySpec::Short(b) => b.clone(),
        }
    }
}

#[derive(Debug, Clone, Serialize, Deserialize, PartialEq, Eq, Hash)]
pub enum Bound {
    /// exactly a universe key
    Key(u16),
    /// universe key followed by 0x00 (smallest key greater than it)
    Succ(u16),
    /// a proper prefix of a universe key (sorts before it)
    Prefix(u16, u16),
    /// universe key with its last byte decremented / incremented
    Nudge(u16, bool),
    Raw(Vec<u8>),
}

#[derive(Debug, Clone, Serialize, Deserialize, PartialEq, Eq, Hash)]
pub enum Op {
    /// `p < 2`: payload from a tiny domain (the same (key, payload) pair may then be stored
    /// more than once); otherwise a fresh payload
    Insert { k: u16, p: u8 },
    /// `n` inserts of one key with fresh payloads (a long run of equal keys)
    InsertRun { k: u16, n: u8 },
    /// delete the `i`-th stored pair (reference order = insertion order)
    DeleteStored { i: u16 },
    /// delete the newest stored pair of key `k` (what "overwrite" callers do)
    DeleteNewest { k: u16 },
    /// delete a pair that is not stored (stored key with unused payload, or unused key)
    DeleteAbsent { k: u16, p: u16, fresh_key: bool },
    ScanFrom { b: Bound },
    Reopen,
}

#[derive(Debug, Clone, Serialize, Deserialize)]
pub struct Case {
    keys: Vec<KeySpec>,
    /// entries inserted round-robin over `keys` before the first op (checked once)
    preload: u16,
    ops: Vec<Op>,
}

// ---------------------------------------------------------------- generators

fn long_keys() -> impl Strategy<Value = Vec<KeySpec>> {
    // 1-3 symbol alphabet; heads of 0..=3 symbols; lengths 1000..=2000 with a few fixed
    // lengths so that equal keys are common and prefixes of one another occur
    (1usize..=3).prop_flat_map(|alpha| {
        let sym = prop::sample::select(vec![b'a', b'b', b'c'][..alpha].to_vec());
        let one = (
            prop::collection::vec(sym.clone(), 0..=3),
            sym,
            prop::sample::select(vec![1000u16, 1001, 1300, 1700, 2000]),
        )
            .prop_map(|(head, fill, len)| KeySpec::Long { head, fill, len });
        prop::collection::vec(one, 1..=6)
    })
}

fn small_scalar() -> impl Strategy<Value = PV> {
    prop_oneof![
        3 => (0i64..4).prop_map(PV::Int),
        1 => any::<bool>().prop_map(PV::Bool),
        2 => prop::sample::select(vec!["", "a", "ab", "b"]).prop_map(|s| PV::Str(s.to_string())),
        1 => Just(PV::Null),
        1 => prop::sample::select(vec![0.0f64, 1.5, -2.0]).prop_map(PV::f),
    ]
}

fn short_keys() -> impl Strategy<Value = Vec<KeySpec>> {
    // the three key shapes the repository stores in B-trees
    let index_key = (1u32..3, small_scalar()).prop_map(|(id, v)| {
        // WriteTxn::commit IndexOp: index id (BE) ++ ordered value; payload = node id
        let mut k = id.to_be_bytes().to_vec();
        k.extend_from_slice(&encode_ordered_value(&v.to_api()));
        KeySpec::Short(k)
    });
    let graph_key = (0u8..2, 0u32..3).prop_map(|(layer, node)| {
        // hnsw storage: tag, layer, node (BE); payload = blob id, re-inserted on every update
        let mut k = vec![1u8, layer];
        k.extend_from_slice(&node.to_be_bytes());
        KeySpec::Short(k)
    });
    let prop_key = (0u32..3, prop::sample::select(vec!["p", "q", "name"])).prop_map(|(node, key)| {
        // property store: tag, node (BE), key length, key
        let mut k = vec![0u8];
        k.extend_from_slice(&node.to_be_bytes());
        k.extend_from_slice(&(key.len() as u32).to_be_bytes());
        k.extend_from_slice(key.as_bytes());
        KeySpec::Short(k)
    });
    prop::collection::vec(prop_oneof![3 => index_key, 2 => graph_key, 2 => prop_key], 1..=8)
}

fn bound() -> impl Strategy<Value = Bound> {
    prop_oneof![
        4 => any::<u16>().prop_map(Bound::Key),
        2 => any::<u16>().prop_map(Bound::Succ),
        2 => (any::<u16>(), any::<u16>()).prop_map(|(k, n)| Bound::Prefix(k, n)),
        2 => (any::<u16>(), any::<bool>()).prop_map(|(k, up)| Bound::Nudge(k, up)),
        1 => prop::collection::vec(prop::sample::select(vec![0u8, 1, b'a', b'b', b'c', 0xff]), 0..4).prop_map(Bound::Raw),
    ]
}

fn op() -> impl Strategy<Value = Op> {
    prop_oneof![
        8 => (any::<u16>(), 0u8..16).prop_map(|(k, p)| Op::Insert { k, p }),
        2 => (any::<u16>(), 2u8..12).prop_map(|(k, n)| Op::InsertRun { k, n }),
        3 => any::<u16>().prop_map(|i| Op::DeleteStored { i }),
        2 => any::<u16>().prop_map(|k| Op::DeleteNewest { k }),
        1 => (any::<u16>(), any::<u16>(), any::<bool>()).prop_map(|(k, p, fresh_key)| Op::DeleteAbsent { k, p, fresh_key }),
        2 => bound().prop_map(|b| Op::ScanFrom { b }),
        1 => Just(Op::Reopen),
    ]
}

fn case(max_ops: usize, max_preload: u16) -> impl Strategy<Value = Case> {
    prop_oneof![
        7 => (long_keys(), prop::collection::vec(op(), 1..max_ops)).prop_map(|(keys, ops)| Case { keys, preload: 0, ops }),
        3 => (short_keys(), 0..=max_preload, prop::collection::vec(op(), 1..max_ops / 2)).prop_map(|(keys, preload, ops)| Case { keys, preload, ops }),
    ]
}

// ---------------------------------------------------------------- reference

#[derive(Debug, Clone)]
struct Entry {
    k: usize,
    payload: u64,
    seq: u64,
}

struct Reference {
    keys: Vec<Vec<u8>>,
    entries: Vec<Entry>,
    seq: u64,
    /// keys for which the property does not determine which entry is the newest any more:
    /// one of several identical (key, payload) pairs was deleted
    ambiguous: Vec<bool>,
}

impl Reference {
    fn insert(&mut self, k: usize, payload: u64) {
        self.seq += 1;
        self.entries.push(Entry { k, payload, seq: self.seq });
    }
    fn count(&self, k: usize, payload: u64) -> usize {
        self.entries.iter().filter(|e| e.k == k && e.payload == payload).count()
    }
    /// removes one stored (k, payload); the newest one (which one is unobservable unless
    /// other payloads of the same key exist: then the key is marked ambiguous)
    fn remove(&mut self, k: usize, payload: u64) {
        if self.count(k, payload) > 1 {
            self.ambiguous[k] = true;
        }
        let pos = self.entries.iter().rposition(|e| e.k == k && e.payload == payload).expect("stored");
        self.entries.remove(pos);
        if !self.entries.iter().any(|e| e.k == k) {
            self.ambiguous[k] = false;
        }
    }
    fn newest(&self, k: usize) -> Option<&Entry> {
        self.entries.iter().filter(|e| e.k == k).max_by_key(|e| e.seq)
    }
    /// newest entry per distinct key *bytes* (two universe indices may denote equal bytes:
    /// the universe is deduplicated at construction, so indices are distinct keys)
    fn sorted_pairs(&self) -> Vec<(Vec<u8>, u64)> {
        let mut v: Vec<(Vec<u8>, u64)> = self.entries.iter().map(|e| (self.keys[e.k].clone(), e.payload)).collect();
        v.sort();
        v
    }
}

// ---------------------------------------------------------------- real tree access

fn scan_from(tree: &BTree, pager: &Pager, from: &[u8]) -> Result<Vec<(Vec<u8>, u64)>, Failure> {
    let e = |e: nervusdb_storage::Error| Failure::new("btree-error:scan", format!("scan failed: {e}"));
    let mut cur = tree.cursor_lower_bound(pager, from).map_err(e)?;
    let mut out = Vec::new();
    while cur.is_valid().map_err(e)? {
        out.push((cur.key().map_err(e)?, cur.payload().map_err(e)?));
        if !cur.advance().map_err(e)? {
            break;
        }
    }
    Ok(out)
}

fn lookup(tree: &BTree, pager: &Pager, key: &[u8]) -> Result<Option<(Vec<u8>, u64)>, Failure> {
    let e = |e: nervusdb_storage::Error| Failure::new("btree-error:lookup", format!("lookup failed: {e}"));
    let mut cur = tree.cursor_lower_bound(pager, key).map_err(e)?;
    if !cur.is_valid().map_err(e)? {
        return Ok(None);
    }
    Ok(Some((cur.key().map_err(e)?, cur.payload().map_err(e)?)))
}

/// Shape of the tree read directly from the pages (independent of the cursor code):
/// (height, per leaf in chain order: (first key, last key, cells)).
fn shape(pager: &Pager, root: PageId) -> Option<(usize, Vec<(Vec<u8>, Vec<u8>, usize)>)> {
    fn u16at(b: &[u8], o: usize) -> usize {
        u16::from_le_bytes([b[o], b[o + 1]]) as usize
    }
    fn u64at(b: &[u8], o: usize) -> u64 {
        u64::from_le_bytes(b[o..o + 8].try_into().unwrap())
    }
    fn leaf_key(b: &[u8; PAGE_SIZE], i: usize) -> Option<Vec<u8>> {
        let off = u16at(b, 24 + 2 * i);
        let mut len = 0usize;
        let mut shift = 0;
        let mut p = off;
        loop {
            let byte = *b.get(p)?;
            len |= ((byte & 0x7f) as usize) << shift;
            p += 1;
            if byte & 0x80 == 0 {
                break;
            }
            shift += 7;
        }
        b.get(p..p + len).map(|s| s.to_vec())
    }
    let mut height = 1;
    let mut cur = root;
    let mut page = pager.read_page(cur).ok()?;
    while page[4] == 1 {
        cur = PageId::new(u64at(&page, 24));
        page = pager.read_page(cur).ok()?;
        height += 1;
        if height > 64 {
            return None;
        }
    }
    let mut leaves = Vec::new();
    loop {
        let n = u16at(&page, 6);
        if n > 0 {
            leaves.push((leaf_key(&page, 0)?, leaf_key(&page, n - 1)?, n));
        } else {
            leaves.push((Vec::new(), Vec::new(), 0));
        }
        let next = u64at(&page, 16);
        if next == 0 || leaves.len() > 100_000 {
            break;
        }
        page = pager.read_page(PageId::new(next)).ok()?;
    }
    Some((height, leaves))
}

/// Does a run of equal keys span two or more leaves?
fn run_spans_leaves(leaves: &[(Vec<u8>, Vec<u8>, usize)]) -> bool {
    let ne: Vec<_> = leaves.iter().filter(|l| l.2 > 0).collect();
    ne.windows(2).any(|w| w[0].1 == w[1].0)
}

// ---------------------------------------------------------------- oracle

struct Sut {
    pager: Pager,
    tree: BTree,
}

fn check_all(sut: &Sut, r: &Reference, step: &str) -> CaseResult {
    // (1) full scan: key order and exact multiset of pairs
    let scan = scan_from(&sut.tree, &sut.pager, &[])?;
    if let Some(w) = scan.windows(2).find(|w| w[0].0 > w[1].0) {
        fail!("scan-not-sorted", "after {step}: scan yields key {} before {}", show(&w[0].0), show(&w[1].0));
    }
    let mut got = scan.clone();
    got.sort();
    let want = r.sorted_pairs();
    if got != want {
        let missing: Vec<_> = multiset_minus(&want, &got);
        let extra: Vec<_> = multiset_minus(&got, &want);
        let sig = if !missing.is_empty() && extra.is_empty() {
            "scan-misses-stored-pairs"
        } else if missing.is_empty() {
            "scan-returns-unstored-pairs"
        } else {
            "scan-differs"
        };
        fail!(sig, "after {step}: full scan has {} pairs, reference {}; missing {:?}; unexpected {:?}", got.len(), want.len(), show_pairs(&missing), show_pairs(&extra));
    }
    // (2) lookup of every universe key
    let by_key: BTreeMap<&[u8], ()> = r.entries.iter().map(|e| (r.keys[e.k].as_slice(), ())).collect();
    for (ki, kb) in r.keys.iter().enumerate() {
        let found = lookup(&sut.tree, &sut.pager, kb)?;
        match r.newest(ki) {
            Some(e) => {
                let Some((fk, fp_)) = found else {
                    fail!("lookup-misses-stored-key", "after {step}: lookup of stored key {} finds nothing", show(kb));
                };
                if &fk != kb {
                    fail!("lookup-misses-stored-key", "after {step}: lookup of stored key {} lands on {}", show(kb), show(&fk));
                }
                if r.ambiguous[ki] {
                    if r.count(ki, fp_) == 0 {
                        fail!("lookup-unstored-payload", "after {step}: lookup of {} returns payload {fp_} which is not stored", show(kb));
                    }
                } else if fp_ != e.payload {
                    fail!("lookup-not-newest", "after {step}: lookup of {} returns payload {fp_}, the most recently inserted stored entry has {}", show(kb), e.payload);
                }
            }
            None => {
                // lower bound semantics: the smallest stored key greater than kb, or nothing
                let next = by_key.range::<[u8], _>((std::ops::Bound::Excluded(kb.as_slice()), std::ops::Bound::Unbounded)).next().map(|x| *x.0);
                match (found, next) {
                    (None, None) => {}
                    (Some((fk, _)), Some(nk)) if fk == nk => {}
                    (f, n) => fail!("lookup-absent-key-wrong-position", "after {step}: lookup of absent key {} lands on {:?}, expected {:?}", show(kb), f.map(|x| show(&x.0)), n.map(show)),
                }
            }
        }
    }
    Ok(())
}

fn check_scan_from(sut: &Sut, r: &Reference, from: &[u8], step: &str) -> CaseResult {
    let got_seq = scan_from(&sut.tree, &sut.pager, from)?;
    if let Some(w) = got_seq.windows(2).find(|w| w[0].0 > w[1].0) {
        fail!("scan-not-sorted", "after {step}: scan from {} yields key {} before {}", show(from), show(&w[0].0), show(&w[1].0));
    }
    let mut got = got_seq;
    got.sort();
    let want: Vec<_> = r.sorted_pairs().into_iter().filter(|(k, _)| k.as_slice() >= from).collect();
    if got != want {
        let missing = multiset_minus(&want, &got);
        let extra = multiset_minus(&got, &want);
        let sig = if !missing.is_empty() && extra.is_empty() {
            "scan-from-skips-pairs"
        } else if missing.is_empty() && extra.iter().all(|(k, _)| k.as_slice() < from) {
            "scan-from-starts-early"
        } else {
            "scan-from-differs"
        };
        fail!(sig, "after {step}: scan from {} returns {} pairs, reference has {} with key >= bound; missing {:?}; unexpected {:?}", show(from), got.len(), want.len(), show_pairs(&missing), show_pairs(&extra));
    }
    Ok(())
}

fn multiset_minus(a: &[(Vec<u8>, u64)], b: &[(Vec<u8>, u64)]) -> Vec<(Vec<u8>, u64)> {
    // both sorted
    let mut out = Vec::new();
    let (mut i, mut j) = (0, 0);
    while i < a.len() {
        if j >= b.len() || a[i] < b[j] {
            out.push(a[i].clone());
            i += 1;
        } else if a[i] == b[j] {
            i += 1;
            j += 1;
        } else {
            j += 1;
        }
    }
    out
}

fn show(k: &[u8]) -> String {
    // run-length form keeps 2 KiB keys readable
    let mut s = String::new();
    let mut i = 0;
    while i < k.len() {
        let mut j = i;
        while j < k.len() && k[j] == k[i] {
            j += 1;
        }
        let c = if k[i].is_ascii_graphic() { (k[i] as char).to_string() } else { format!("\\x{:02x}", k[i]) };
        if j - i > 3 {
            s.push_str(&format!("{c}*{}", j - i));
        } else {
            for _ in i..j {
                s.push_str(&c);
            }
        }
        i = j;
    }
    format!("<{s}>")
}

fn show_pairs(v: &[(Vec<u8>, u64)]) -> Vec<String> {
    v.iter().take(6).map(|(k, p)| format!("{}={p}", show(k))).collect()
}

fn bound_bytes(b: &Bound, keys: &[Vec<u8>]) -> Vec<u8> {
    match b {
        Bound::Key(k) => keys[idx(*k, keys.len())].clone(),
        Bound::Succ(k) => {
            let mut v = keys[idx(*k, keys.len())].clone();
            v.push(0);
            v
        }
        Bound::Prefix(k, n) => {
            let v = &keys[idx(*k, keys.len())];
            v[..idx(*n, v.len())].to_vec()
        }
        Bound::Nudge(k, up) => {
            let mut v = keys[idx(*k, keys.len())].clone();
            if let Some(l) = v.last_mut() {
                *l = if *up { l.saturating_add(1) } else { l.saturating_sub(1) };
            }
            v
        }
        Bound::Raw(v) => v.clone(),
    }
}

fn run_case(c: &Case, obs: &mut Obs) -> CaseResult {
    let mut keys: Vec<Vec<u8>> = Vec::new();
    for k in &c.keys {
        let b = k.bytes();
        if !keys.contains(&b) {
            keys.push(b);
        }
    }
    let long = matches!(c.keys.first(), Some(KeySpec::Long { .. }));
    obs.class(if long { "profile:long-keys" } else { "profile:short-keys" });
    let dir = crate::engine::temp_dir();
    let path = dir.join("tree.ndb");
    let be = |what: &'static str| move |e: nervusdb_storage::Error| Failure::new(format!("btree-error:{what}"), format!("{what} failed: {e}"));
    let mut pager = Pager::open(&path).map_err(be("open"))?;
    let tree = BTree::create(&mut pager).map_err(be("create"))?;
    let mut sut = Sut { pager, tree };
    let mut r = Reference { ambiguous: vec![false; keys.len()], keys, entries: Vec::new(), seq: 0 };
    let mut fresh: u64 = 1000;
    let mut log: Vec<String> = Vec::new();

    let mut spans = false;
    let mut height = 1usize;
    let mut max_leaves = 0usize;
    let mut reopened_with_spans = false;
    let mut identical_pairs = false;
    let mut max_run = 0usize;
    let mut n_del_stored = 0u32;
    let mut n_del_absent = 0u32;
    let mut n_scans = 0u32;

    // preload
    for j in 0..c.preload as usize {
        let k = j % r.keys.len();
        fresh += 1;
        sut.tree.insert(&mut sut.pager, &r.keys[k], fresh).map_err(be("insert"))?;
        r.insert(k, fresh);
    }
    let with_log = |f: Failure, log: &Vec<String>| Failure::new(f.signature, format!("{}\n  ops: {}", f.message, log.join("; ")));
    if c.preload > 0 {
        log.push(format!("preload {}", c.preload));
        check_all(&sut, &r, "preload").map_err(|f| with_log(f, &log))?;
    }

    for (step, op) in c.ops.iter().enumerate() {
        let desc;
        match op {
            Op::Insert { k, p } => {
                let k = idx(*k, r.keys.len());
                let payload = if *p < 2 {
                    *p as u64
                } else {
                    fresh += 1;
                    fresh
                };
                if r.count(k, payload) > 0 {
                    identical_pairs = true;
                }
                desc = format!("#{step} insert({}, {payload})", show(&r.keys[k]));
                log.push(desc.clone());
                sut.tree.insert(&mut sut.pager, &r.keys[k], payload).map_err(be("insert")).map_err(|f| with_log(f, &log))?;
                r.insert(k, payload);
            }
            Op::InsertRun { k, n } => {
                let k = idx(*k, r.keys.len());
                desc = format!("#{step} insert-run({}, {n} fresh payloads from {})", show(&r.keys[k]), fresh + 1);
                log.push(desc.clone());
                for _ in 0..*n {
                    fresh += 1;
                    sut.tree.insert(&mut sut.pager, &r.keys[k], fresh).map_err(be("insert")).map_err(|f| with_log(f, &log))?;
                    r.insert(k, fresh);
                }
            }
            Op::DeleteStored { .. } | Op::DeleteNewest { .. } => {
                let target = match op {
                    Op::DeleteStored { i } if !r.entries.is_empty() => Some(r.entries[idx(*i, r.entries.len())].clone()),
                    Op::DeleteNewest { k } => r.newest(idx(*k, r.keys.len())).cloned(),
                    _ => None,
                };
                let Some(e) = target else {
                    continue;
                };
                n_del_stored += 1;
                desc = format!("#{step} delete-stored({}, {})", show(&r.keys[e.k]), e.payload);
                log.push(desc.clone());
                let kb = r.keys[e.k].clone();
                let res = sut.tree.delete(&mut sut.pager, &kb, e.payload).map_err(be("delete")).map_err(|f| with_log(f, &log))?;
                if !res {
                    return Err(with_log(Failure::new("delete-stored-returns-false", format!("{desc}: the pair is stored but delete returned false")), &log));
                }
                r.remove(e.k, e.payload);
            }
            Op::DeleteAbsent { k, p, fresh_key } => {
                let (kb, payload) = if *fresh_key {
                    // a key outside the universe, adjacent to a universe key
                    let mut kb = r.keys[idx(*k, r.keys.len())].clone();
                    kb.push(0x7f);
                    if r.keys.contains(&kb) {
                        continue;
                    }
                    (kb, *p as u64)
                } else {
                    let ki = idx(*k, r.keys.len());
                    // payload not stored under this key
                    let payload = 500 + (*p as u64 % 400);
                    if r.count(ki, payload) > 0 {
                        continue;
                    }
                    (r.keys[ki].clone(), payload)
                };
                n_del_absent += 1;
                desc = format!("#{step} delete-absent({}, {payload})", show(&kb));
                log.push(desc.clone());
                let res = sut.tree.delete(&mut sut.pager, &kb, payload).map_err(be("delete")).map_err(|f| with_log(f, &log))?;
                if res {
                    return Err(with_log(Failure::new("delete-absent-returns-true", format!("{desc}: the pair is not stored but delete returned true")), &log));
                }
            }
            Op::ScanFrom { b } => {
                let from = bound_bytes(b, &r.keys);
                n_scans += 1;
                desc = format!("#{step} scan-from({})", show(&from));
                log.push(desc.clone());
                obs.sub_eval(None);
                check_scan_from(&sut, &r, &from, &desc).map_err(|f| with_log(f, &log))?;
                continue;
            }
            Op::Reopen => {
                desc = format!("#{step} reopen");
                log.push(desc.clone());
                let root = sut.tree.root();
                let Sut { pager, tree } = sut;
                drop(tree);
                drop(pager);
                let pager = Pager::open(&path).map_err(be("reopen")).map_err(|f| with_log(f, &log))?;
                sut = Sut { pager, tree: BTree::load(root) };
                if spans {
                    reopened_with_spans = true;
                }
                obs.class("reopen");
            }
        }
        // structural observations (for the non-trivial rule), read from the raw pages
        if let Some((h, leaves)) = shape(&sut.pager, sut.tree.root()) {
            height = height.max(h);
            max_leaves = max_leaves.max(leaves.len());
            if run_spans_leaves(&leaves) {
                spans = true;
            }
        }
        obs.sub_eval(None);
        check_all(&sut, &r, &desc).map_err(|f| with_log(f, &log))?;
        // a lower-bound scan from every stored key that currently has a run: cheap and
        // exactly where duplicates across leaves bite
        if step % 4 == 3 || step + 1 == c.ops.len() {
            let mut seen: Vec<usize> = r.entries.iter().map(|e| e.k).collect();
            seen.sort();
            seen.dedup();
            for k in seen {
                let from = r.keys[k].clone();
                check_scan_from(&sut, &r, &from, &format!("{desc} [scan from stored key]")).map_err(|f| with_log(f, &log))?;
            }
        }
        let mut runs: BTreeMap<usize, usize> = BTreeMap::new();
        for e in &r.entries {
            *runs.entry(e.k).or_default() += 1;
        }
        max_run = max_run.max(runs.values().copied().max().unwrap_or(0));
    }

    obs.set_nontrivial(spans);
    obs.class_if(spans, "equal-key-run-spans-leaves");
    obs.class_if(spans && !long, "short-keys:run-spans-leaves");
    obs.class_if(reopened_with_spans, "reopen-with-spanning-run");
    obs.class_if(height >= 2, "height>=2");
    obs.class_if(height >= 3, "height>=3 (internal split)");
    obs.class_if(max_leaves >= 8, "leaves>=8");
    obs.class_if(identical_pairs, "identical-pair-stored-twice");
    obs.class_if(r.ambiguous.iter().any(|a| *a), "newest-ambiguous-key");
    obs.class_if(max_run >= 8, "run>=8");
    obs.class_if(max_run >= 32, "run>=32");
    obs.class_if(n_del_stored > 0, "delete-stored");
    obs.class_if(n_del_absent > 0, "delete-absent");
    obs.class_if(n_scans > 0, "scan-from-bound");
    obs.count("ops", c.ops.len() as u64);
    let _ = fp(&0);
    Ok(())
}

pub fn run(ctx: &mut RunCtx) {
    ctx.assume("keys are at most 2000 bytes (the repository's own tests use 2000-byte keys; a cell must fit a page four times)");
    ctx.assume("when one of several identical (key, payload) pairs is deleted the property does not say which; from then on only membership is checked for lookups of that key, until the key has no entries");
    ctx.assume("order inside a run of equal keys is only constrained by 'lookup returns the most recently inserted stored entry'; scans are compared as multisets within equal keys");
    let cases = ctx.tier.pick(3000, 60_000);
    let max_ops = ctx.tier.pick(200, 400);
    let max_preload = ctx.tier.pick(1500, 4000);
    // hand-written regression shapes go through the same oracle
    let long = |c: u8| KeySpec::Long { head: vec![c], fill: b'a', len: 2000 };
    let fixed = vec![
        // a run of one key across several leaves, then lookups/deletes of old and new entries
        Case {
            keys: vec![long(b'a'), long(b'b')],
            preload: 0,
            ops: vec![
                Op::InsertRun { k: 0, n: 11 },
                Op::Insert { k: 0, p: 9 },
                Op::DeleteStored { i: 0 },
                Op::DeleteNewest { k: 0 },
                Op::ScanFrom { b: Bound::Key(0) },
                Op::Reopen,
                Op::InsertRun { k: 40000, n: 11 },
                Op::DeleteStored { i: 3 },
                Op::ScanFrom { b: Bound::Key(40000) },
            ],
        },
    ];
    ctx.explore_with(
        "histories",
        "operation sequences (insert, run of inserts of one key, delete stored / newest / absent pair, scan from a bound, drop+reopen pager) over 1-6 long keys (1000-2000 bytes, 1-3 symbols, prefixes of one another) or 1-8 realistic short keys (index, hnsw, property-store shapes, preloaded with up to 1500 entries); after every step: full scan sorted and equal to the reference as a multiset, lookup of every universe key returns the newest stored entry (or the next greater key), scans from bounds return exactly the pairs with key >= bound, delete return values; non-trivial = at some step a run of equal keys spans two or more leaves (read from the raw pages)",
        cases,
        if std::env::var("NVCHECK_C26_NOFIXED").is_ok() { Vec::new() } else { fixed },
        false,
        move || case(max_ops, max_preload),
        run_case,
    );
}
