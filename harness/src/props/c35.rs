//! C35 Concurrent use never deadlocks (generated multi-thread workloads + progress watchdog).
use crate::cy;
use crate::engine::{CaseResult, Failure, Obs, RunCtx};
use crate::pv::PV;
use nervusdb::query::WriteableGraph;
use nervusdb::{Db, GraphSnapshot};
use proptest::prelude::*;
use serde::{Deserialize, Serialize};
use std::sync::atomic::{AtomicBool, AtomicU64, AtomicUsize, Ordering};
use std::sync::{Arc, Barrier};
use std::time::{Duration, Instant};

#[derive(Debug, Clone, Serialize, Deserialize, PartialEq, Eq, Hash)]
pub enum A {
    SnapshotScan,
    CypherRead,
    CypherWrite { n: u8, v: i8 },
    TxCreate { edges: u8 },
    TxProps { n: u8, k: u8 },
    TxLabel { n: u8, l: u8 },
    TxDeleteEdge { s: u8, d: u8 },
    Compact,
    Checkpoint,
    CreateIndex { l: u8, k: u8 },
    VectorInsert { n: u8 },
    VectorSearch { k: u8 },
    IndexLookup { l: u8, k: u8 },
}

impl A {
    fn name(&self) -> &'static str {
        match self {
            A::SnapshotScan => "snapshot-scan",
            A::CypherRead => "cypher-read",
            A::CypherWrite { .. } => "cypher-write",
            A::TxCreate { .. } => "tx-create",
            A::TxProps { .. } => "tx-props",
            A::TxLabel { .. } => "tx-label",
            A::TxDeleteEdge { .. } => "tx-delete-edge",
            A::Compact => "compact",
            A::Checkpoint => "checkpoint",
            A::CreateIndex { .. } => "create-index",
            A::VectorInsert { .. } => "vector-insert",
            A::VectorSearch { .. } => "vector-search",
            A::IndexLookup { .. } => "index-lookup",
        }
    }
}

const NAMES: [&str; 14] = ["idle", "snapshot-scan", "cypher-read", "cypher-write", "tx-create", "tx-props", "tx-label", "tx-delete-edge", "compact", "checkpoint", "create-index", "vector-insert", "vector-search", "index-lookup"];
const POOL: u32 = 12;
const LABELS: [&str; 3] = ["A", "B", "C"];
const KEYS: [&str; 3] = ["p", "q", "r"];

#[derive(Debug, Clone, Serialize, Deserialize)]
pub struct Workload {
    threads: Vec<Vec<A>>,
    rounds: u8,
}

fn run_action(db: &Db, a: &A, tid: usize, seq: u64) {
    // errors are ignored: this property is about progress only
    let _ = std::panic::catch_unwind(std::panic::AssertUnwindSafe(|| match a {
        A::SnapshotScan => {
            let s = db.snapshot();
            let mut c = 0usize;
            for n in s.nodes().take(64) {
                c += s.neighbors(n, None).count() + s.incoming_neighbors(n, None).count();
                let _ = s.node_properties(n);
                let _ = s.resolve_node_labels(n);
            }
            let _ = (c, s.node_count(None), s.edge_count(None));
        }
        A::CypherRead => {
            let _ = cy::read(db, "MATCH (a)-[r]->(b) RETURN id(a) AS a, type(r) AS t, b.p AS p LIMIT 50", &nervusdb::query::Params::new());
            let p = cy::params_from(&[("n".into(), PV::Int((seq % POOL as u64) as i64))], None);
            let _ = cy::read(db, "MATCH (x:Pool {slot: $n}) RETURN x.q AS q", &p);
        }
        A::CypherWrite { n, v } => {
            let p = cy::params_from(&[("n".into(), PV::Int(*n as i64 % POOL as i64)), ("v".into(), PV::Int(*v as i64))], None);
            let _ = cy::write(db, "MATCH (x:Pool {slot: $n}) SET x.q = $v", &p);
        }
        A::TxCreate { edges } => {
            let mut tx = db.begin_write();
            let l = tx.get_or_create_label(LABELS[tid % 3]).unwrap_or(0);
            if let Ok(id) = tx.create_node(((tid as u64 + 1) << 40) + seq, l) {
                if let Ok(t) = tx.get_or_create_rel_type("R") {
                    for e in 0..*edges % 4 {
                        tx.create_edge(id, t, e as u32 % POOL);
                    }
                }
                let _ = tx.set_node_property(id, "p".into(), nervusdb::PropertyValue::Int(seq as i64));
            }
            let _ = tx.commit();
        }
        A::TxProps { n, k } => {
            let mut tx = db.begin_write();
            let _ = tx.set_node_property(*n as u32 % POOL, KEYS[*k as usize % 3].into(), nervusdb::PropertyValue::Int(seq as i64));
            if seq % 3 == 0 {
                let _ = tx.remove_node_property((*n as u32 + 1) % POOL, KEYS[*k as usize % 3]);
            }
            let _ = tx.commit();
        }
        A::TxLabel { n, l } => {
            let mut tx = db.begin_write();
            if let Ok(lid) = tx.get_or_create_label(LABELS[*l as usize % 3]) {
                if seq % 2 == 0 {
                    let _ = WriteableGraph::add_node_label(&mut tx, *n as u32 % POOL, lid);
                } else {
                    let _ = WriteableGraph::remove_node_label(&mut tx, *n as u32 % POOL, lid);
                }
            }
            let _ = tx.commit();
        }
        A::TxDeleteEdge { s, d } => {
            let mut tx = db.begin_write();
            if let Ok(t) = tx.get_or_create_rel_type("R") {
                tx.tombstone_edge(*s as u32 % POOL, t, *d as u32 % POOL);
                tx.create_edge(*d as u32 % POOL, t, *s as u32 % POOL);
            }
            let _ = tx.commit();
        }
        A::Compact => {
            let _ = db.compact();
        }
        A::Checkpoint => {
            let _ = db.checkpoint();
        }
        A::CreateIndex { l, k } => {
            let _ = db.create_index(LABELS[*l as usize % 3], KEYS[*k as usize % 3]);
        }
        A::VectorInsert { n } => {
            let mut tx = db.begin_write();
            let _ = tx.set_vector(*n as u32 % POOL, vec![*n as f32, seq as f32 % 7.0, 1.0]);
            let _ = tx.commit();
        }
        A::VectorSearch { k } => {
            let _ = db.search_vector(&[1.0, 2.0, 3.0], (*k as usize % 5) + 1);
        }
        A::IndexLookup { l, k } => {
            let s = db.snapshot();
            let _ = s.lookup_index(LABELS[*l as usize % 3], KEYS[*k as usize % 3], &nervusdb::PropertyValue::Int(seq as i64 % 5));
            let _ = s.lookup_index("Pool", ["slot", "p", "q"][*k as usize % 3], &nervusdb::PropertyValue::Int(seq as i64 % POOL as i64));
        }
    }));
}

fn test(w: &Workload, obs: &mut Obs, stall: Duration) -> CaseResult {
    let dir = crate::engine::temp_dir();
    let db = Arc::new(Db::open(dir.join("db")).map_err(|e| Failure::new("harness-open", e.to_string()))?);
    {
        let mut tx = db.begin_write();
        let l = tx.get_or_create_label("Pool").map_err(|e| Failure::new("harness-setup", e.to_string()))?;
        for i in 0..POOL {
            let id = tx.create_node(1 + i as u64, l).map_err(|e| Failure::new("harness-setup", e.to_string()))?;
            let _ = tx.set_node_property(id, "slot".into(), nervusdb::PropertyValue::Int(i as i64));
        }
        tx.commit().map_err(|e| Failure::new("harness-setup", e.to_string()))?;
    }
    // half of the workloads start with indexes on the pool's properties, so that every
    // commit maintains an index (catalog + pager) while readers seek through it
    let indexed = w.threads.iter().map(|t| t.len()).sum::<usize>() % 2 == 0;
    if indexed {
        for k in ["slot", "p", "q"] {
            let _ = db.create_index("Pool", k);
        }
        obs.class("indexed-pool");
    }
    let n = w.threads.len();
    let progress: Arc<Vec<AtomicU64>> = Arc::new((0..n).map(|_| AtomicU64::new(0)).collect());
    let current: Arc<Vec<AtomicUsize>> = Arc::new((0..n).map(|_| AtomicUsize::new(0)).collect());
    let done: Arc<Vec<AtomicBool>> = Arc::new((0..n).map(|_| AtomicBool::new(false)).collect());
    let barrier = Arc::new(Barrier::new(n));
    let mut handles = Vec::new();
    for (tid, ops) in w.threads.iter().enumerate() {
        let (db, ops, progress, current, done, barrier) = (db.clone(), ops.clone(), progress.clone(), current.clone(), done.clone(), barrier.clone());
        let rounds = w.rounds.max(1) as u64;
        handles.push(std::thread::spawn(move || {
            barrier.wait();
            let mut seq = 0u64;
            for _ in 0..rounds {
                for a in &ops {
                    let idx = NAMES.iter().position(|x| *x == a.name()).unwrap_or(0);
                    current[tid].store(idx, Ordering::SeqCst);
                    run_action(&db, a, tid, seq);
                    seq += 1;
                    progress[tid].fetch_add(1, Ordering::SeqCst);
                }
            }
            current[tid].store(0, Ordering::SeqCst);
            done[tid].store(true, Ordering::SeqCst);
        }));
    }
    // watchdog: no thread made progress for `stall` while some are unfinished
    let mut last: Vec<u64> = vec![0; n];
    let mut last_change = Instant::now();
    loop {
        std::thread::sleep(Duration::from_millis(20));
        if done.iter().all(|d| d.load(Ordering::SeqCst)) {
            break;
        }
        let now: Vec<u64> = progress.iter().map(|p| p.load(Ordering::SeqCst)).collect();
        if now != last {
            last = now;
            last_change = Instant::now();
        } else if last_change.elapsed() > stall {
            let mut stuck: Vec<&str> = (0..n).filter(|i| !done[*i].load(Ordering::SeqCst)).map(|i| NAMES[current[i].load(Ordering::SeqCst)]).collect();
            stuck.sort();
            stuck.dedup();
            // the stuck threads cannot be reclaimed; leak them together with the database
            std::mem::forget(handles);
            std::mem::forget(db);
            std::mem::forget(dir);
            return Err(Failure::new(format!("no-progress:{}", stuck.join("+")), format!("no thread made progress for {:?}; unfinished threads are inside: {stuck:?}", stall)));
        }
    }
    for h in handles {
        let _ = h.join();
    }
    let kinds: std::collections::BTreeSet<&str> = w.threads.iter().flatten().map(|a| a.name()).collect();
    obs.count("operations", w.threads.iter().map(|t| t.len() as u64).sum::<u64>() * w.rounds.max(1) as u64);
    let writers = w.threads.iter().filter(|t| t.iter().any(|a| !matches!(a, A::SnapshotScan | A::CypherRead | A::VectorSearch { .. } | A::IndexLookup { .. }))).count();
    obs.set_nontrivial(n >= 2 && writers >= 1 && kinds.len() >= 3);
    for k in kinds {
        obs.class(k);
    }
    Ok(())
}

pub fn run(ctx: &mut RunCtx) {
    ctx.assume("progress oracle: a workload violates the property when no thread completes an operation for 20 s (quick) although unfinished threads exist; operations normally take micro- to milliseconds, so this is far from scheduling noise");
    ctx.assume("this is exploration of the schedules the OS happens to produce, not of all interleavings; errors returned by operations are ignored (other properties judge them)");
    let stall = Duration::from_secs(ctx.tier.pick(20, 60));
    let n = ctx.tier.pick(1600, 24_000);
    ctx.shrink_iters = 6;
    ctx.explore(
        "workloads",
        "2-8 real threads, each repeating a generated list of public operations (snapshot scans, Cypher reads and writes, storage transactions creating nodes/relationships/properties/labels, relationship delete+create, compaction, checkpoint, index creation, index lookup, vector insert and search) for several rounds against one shared handle; all threads must keep finishing operations; non-trivial = >=2 threads, >=1 writing thread, >=3 operation kinds",
        n,
        || {
            let a = prop_oneof![
                3 => Just(A::SnapshotScan),
                2 => Just(A::CypherRead),
                2 => (any::<u8>(), any::<i8>()).prop_map(|(n, v)| A::CypherWrite { n, v }),
                3 => any::<u8>().prop_map(|edges| A::TxCreate { edges }),
                3 => (any::<u8>(), any::<u8>()).prop_map(|(n, k)| A::TxProps { n, k }),
                1 => (any::<u8>(), any::<u8>()).prop_map(|(n, l)| A::TxLabel { n, l }),
                1 => (any::<u8>(), any::<u8>()).prop_map(|(s, d)| A::TxDeleteEdge { s, d }),
                2 => Just(A::Compact),
                1 => Just(A::Checkpoint),
                1 => (any::<u8>(), any::<u8>()).prop_map(|(l, k)| A::CreateIndex { l, k }),
                2 => any::<u8>().prop_map(|n| A::VectorInsert { n }),
                2 => any::<u8>().prop_map(|k| A::VectorSearch { k }),
                3 => (any::<u8>(), any::<u8>()).prop_map(|(l, k)| A::IndexLookup { l, k }),
            ];
            (prop::collection::vec(prop::collection::vec(a, 1..10), 2..9), 1u8..6).prop_map(|(threads, rounds)| Workload { threads, rounds })
        },
        |w: &Workload, obs: &mut Obs| test(w, obs, stall),
    );
}
