//! C18 Growing one structure never corrupts another (page-ownership history invariant +
//! reopen dump).
use crate::engine::{CaseResult, Failure, Obs, RunCtx, catch};
use crate::hist::{self, Excl, Op, Profile, Runner, StepKind};
use nervusdb::verif_hooks::{self as vh, Hooks, PageEvent};
use proptest::prelude::*;
use serde::{Deserialize, Serialize};
use std::collections::HashMap;
use std::sync::{Arc, Mutex};

#[derive(Debug, Clone, Serialize, Deserialize)]
pub enum Step {
    Op(Op),
    /// one transaction setting vectors on up to `n` live nodes
    Vectors { n: u8, dim: u8, seed: u16 },
}

#[derive(Default)]
struct OwnerState {
    owner: HashMap<u64, &'static str>,
    violation: Option<String>,
    allocs: u64,
    writes: u64,
    i2e_pages: std::collections::BTreeSet<u64>,
    foreign_before_i2e_growth: bool,
}

struct OwnerHooks(Mutex<OwnerState>);

impl Hooks for OwnerHooks {
    fn page_event(&self, ev: PageEvent, page: u64, owner: &'static str) {
        let mut s = self.0.lock().unwrap();
        match ev {
            PageEvent::Alloc => {
                s.allocs += 1;
                if owner == "i2e" {
                    if !s.i2e_pages.is_empty() && s.owner.values().any(|o| *o != "i2e") {
                        s.foreign_before_i2e_growth = true;
                    }
                    s.i2e_pages.insert(page);
                }
                s.owner.insert(page, owner);
            }
            PageEvent::Free => {
                s.owner.remove(&page);
                s.i2e_pages.remove(&page);
            }
            PageEvent::Write => {
                s.writes += 1;
                match s.owner.get(&page).copied() {
                    Some(o) if o != owner => {
                        if s.violation.is_none() {
                            s.violation = Some(format!("page {page} was allocated by `{o}` but is written by `{owner}`"));
                        }
                    }
                    Some(_) => {}
                    None => {
                        s.owner.insert(page, owner);
                    }
                }
            }
        }
    }
}

fn test(steps: &Vec<Step>, obs: &mut Obs) -> CaseResult {
    let dir = crate::engine::temp_dir();
    let hooks = Arc::new(OwnerHooks(Mutex::new(OwnerState::default())));
    let prev = vh::install(Some(hooks.clone() as Arc<dyn Hooks>));
    let res = (|| -> CaseResult {
        let mut r = Runner::new(dir.join("db"), Excl::default())?;
        let mut vectors: Vec<(u32, Vec<f32>)> = Vec::new();
        for st in steps {
            match st {
                Step::Op(op) => {
                    let k = r.apply(op, false, false, obs).map_err(|f| r.fail_with_log(f))?;
                    if k == StepKind::Reopened {
                        obs.sub_eval(None);
                        r.check().map_err(|f| r.fail_with_log(f))?;
                    }
                }
                Step::Vectors { n, dim, seed } => {
                    let live = r.model.live_nodes();
                    if live.is_empty() {
                        continue;
                    }
                    let dim = (*dim % 4 + 1) as usize;
                    let res = catch(|| -> Result<(), String> {
                        let mut tx = r.db().begin_write();
                        for i in 0..(*n % 6 + 1) as usize {
                            let node = live[(i * 7 + *seed as usize) % live.len()];
                            let v: Vec<f32> = (0..dim).map(|d| ((*seed as usize + i * 3 + d) % 17) as f32 - 8.0).collect();
                            tx.set_vector(node, v.clone()).map_err(|e| e.to_string())?;
                            vectors.push((node, v));
                        }
                        tx.commit().map_err(|e| e.to_string())
                    });
                    match res {
                        Err((loc, msg)) => return Err(Failure::new(format!("panic@{loc}"), msg)),
                        Ok(Err(e)) => return Err(Failure::new("op-error:set_vector", e)),
                        Ok(Ok(())) => {}
                    }
                    obs.class("vectors");
                }
            }
            if let Some(v) = hooks.0.lock().unwrap().violation.clone() {
                return Err(r.fail_with_log(Failure::new("page-written-by-foreign-structure", v)));
            }
        }
        // end oracle: everything still readable and correct after reopen
        r.check().map_err(|f| r.fail_with_log(f))?;
        r.apply(&Op::DropReopen, false, false, obs).map_err(|f| r.fail_with_log(f))?;
        r.check().map_err(|f| r.fail_with_log(f))?;
        if let Some((_, q)) = vectors.first() {
            match catch(|| r.db().search_vector(q, 3)) {
                Err((loc, msg)) => return Err(Failure::new(format!("panic@{loc}"), msg)),
                Ok(Err(e)) => return Err(Failure::new("vector-search-fails-after-growth", e.to_string())),
                Ok(Ok(res)) => {
                    if res.len() > 3 {
                        fail!("vector-search-too-many", "search_vector(k=3) returned {} results", res.len());
                    }
                }
            }
        }
        if let Some(v) = hooks.0.lock().unwrap().violation.clone() {
            return Err(r.fail_with_log(Failure::new("page-written-by-foreign-structure", v)));
        }
        let s = hooks.0.lock().unwrap();
        obs.count("page_allocs", s.allocs);
        obs.count("page_writes", s.writes);
        obs.class_if(r.model.next_iid > 512, "node-table-spans-pages");
        obs.class_if(s.foreign_before_i2e_growth, "node-table-grew-after-another-structure-allocated");
        obs.set_nontrivial(r.model.next_iid > 512 && s.foreign_before_i2e_growth);
        Ok(())
    })();
    vh::install(prev);
    res
}

pub fn run(ctx: &mut RunCtx) {
    ctx.assume("page owners are structure kinds (node table, B-tree, blob store, CSR segment, catalog), tagged by cfg-guarded scopes at the structures' entry points; two instances of one kind are not distinguished");
    let mut p = Profile::base();
    p.ws = 1..6;
    p.nested_values = false;
    let many_max = ctx.tier.pick(1400u16, 6000u16);
    let cases = ctx.tier.pick(400, 6000);
    ctx.shrink_iters = 300;
    ctx.explore(
        "growth-histories",
        "histories that grow every structure in generated order: node batches of up to 1400 (quick) / 6000 (thorough) nodes, small transactions with properties and relationships, compactions (segments, property tree, blobs, statistics), index creation and maintenance, vector insertions, reopen; invariant after every step: between Alloc and Free every write to a page carries the allocating structure's tag; end oracle: dump == model before and after reopen, vector search answers; non-trivial = node table spans >1 page and grew after another structure had allocated pages",
        cases,
        || {
            let op = prop_oneof![
                4 => (1u16..many_max, 0u8..4).prop_map(|(n, l)| Step::Op(Op::ManyNodes { n, l })),
                4 => prop::collection::vec(hist::write_op(false), 1..6).prop_map(|ws| Step::Op(Op::Tx { ws, commit: true })),
                3 => Just(Step::Op(Op::Compact)),
                1 => (0u8..4, 0u8..5).prop_map(|(l, k)| Step::Op(Op::CreateIndex { l, k })),
                1 => (any::<u8>(), any::<u8>(), any::<u16>()).prop_map(|(n, dim, seed)| Step::Vectors { n, dim, seed }),
                1 => prop_oneof![Just(Step::Op(Op::CloseReopen)), Just(Step::Op(Op::DropReopen))],
            ];
            prop::collection::vec(op, 2..10)
        },
        test,
    );
    let _ = p;
}
