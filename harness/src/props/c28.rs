//! C28 Vacuum preserves the database.
//!
//! history -> (close | drop) -> vacuum [-> vacuum] -> open -> dump == model, index lookups and
//! vector search unchanged -> more transactions / compactions -> reopen -> dump == model.
use super::c31::{self, Hits, VModel};
use crate::engine::{CaseResult, Failure, Obs, RunCtx, catch, idx};
use crate::hist::{self, Excl, KEYS, LABELS, Op, Profile, RW, Runner, StepKind, TxFlags};
use crate::pv::PV;
use nervusdb::{Db, GraphSnapshot};
use proptest::prelude::*;
use serde::{Deserialize, Serialize};
use std::collections::{BTreeMap, BTreeSet};

const DIM: usize = 4;
const HNSW_M: usize = 16;

#[derive(Debug, Clone, Serialize, Deserialize, PartialEq)]
pub struct Case {
    pub pre: Vec<Op>,
    /// vectors stored (one transaction) for live nodes at the end of `pre`
    pub vecs: Vec<(u16, Vec<f32>)>,
    /// additional nodes with derived vectors (enough of them make the index trees split)
    pub many_vecs: u8,
    /// Db::close() (checkpoint-on-close) or just dropping the handle before the vacuum
    pub close: bool,
    pub twice: bool,
    pub post: Vec<Op>,
    pub post_vecs: Vec<(u16, Vec<f32>)>,
    /// the database starts as a bulk-loaded one: `n` nodes and these (src, type, dst) relationships
    #[serde(default)]
    pub bulk: Option<(u8, Vec<(u16, u8, u16)>)>,
}

fn case(pre: &Profile, post: &Profile, many_max: u8) -> BoxedStrategy<Case> {
    let v = || prop::collection::vec((any::<u16>(), c31::vector(DIM)), 0..5);
    let bulk = prop_oneof![
        4 => Just(None),
        1 => (1u8..8, prop::collection::vec((any::<u16>(), 0u8..3, any::<u16>()), 0..8)).prop_map(Some),
    ];
    (hist::history(pre), v(), prop_oneof![3 => Just(0u8), 2 => 1u8..=many_max], prop::bool::weighted(0.7), prop::bool::weighted(0.2), hist::history(post), v(), bulk, any::<bool>())
        .prop_map(|(mut pre, vecs, many_vecs, close, twice, post, post_vecs, bulk, keep_pre)| {
            if bulk.is_some() && !keep_pre {
                // vacuum the bulk-loaded database as it is (before its first compaction)
                pre.retain(|o| !o.is_compaction());
                pre.truncate(1);
            }
            Case { pre, vecs, many_vecs, close, twice, post, post_vecs, bulk }
        })
        .boxed()
}

fn derived_vector(i: u32) -> Vec<f32> {
    let mut x = ((i as u64) << 1 | 1).wrapping_mul(0x9E3779B97F4A7C15);
    (0..DIM)
        .map(|_| {
            x = x.wrapping_mul(6364136223846793005).wrapping_add(1442695040888963407);
            (((x >> 33) as u32 % 1601) as f32 - 800.0) / 8.0
        })
        .collect()
}

#[derive(Debug, Clone, PartialEq)]
struct Seen {
    lookups: Vec<Option<Vec<u32>>>,
    hits: Vec<Vec<(u32, u32)>>,
}

struct Watch {
    lookups: Vec<(String, String, PV)>,
    probes: Vec<(Vec<f32>, usize)>,
}

fn watch(model: &crate::model::Model, indexes: &BTreeSet<(String, String)>, vecs: &BTreeMap<u32, Vec<f32>>) -> Watch {
    let mut lookups = Vec::new();
    for (l, k) in indexes {
        let mut vals: Vec<PV> = vec![PV::Int(1)];
        for n in model.nodes.values() {
            if let Some(v) = n.props.get(k) {
                if vals.len() < 10 && !vals.iter().any(|x| x.same(v)) {
                    vals.push(v.clone());
                }
            }
        }
        for v in vals {
            lookups.push((l.clone(), k.clone(), v));
        }
    }
    let mut probes: Vec<(Vec<f32>, usize)> = vec![(vec![0.0; DIM], 5), (vec![0.0; DIM], 1000)];
    for v in vecs.values().take(3) {
        probes.push((v.clone(), 3));
    }
    Watch { lookups, probes }
}

fn observe(db: &Db, w: &Watch, vm: &VModel, when: &str) -> Result<Seen, Failure> {
    let mut lookups = Vec::new();
    for (l, k, v) in &w.lookups {
        let r = catch(|| {
            let snap = db.snapshot();
            snap.lookup_index(l, k, &v.to_api()).map(|mut ids| {
                ids.sort();
                ids
            })
        })
        .map_err(|(loc, msg)| Failure::new(format!("panic@{loc}"), format!("lookup_index panicked at {loc}: {msg}")))?;
        lookups.push(r);
    }
    let mut hits = Vec::new();
    for (q, k) in &w.probes {
        let h: Hits = c31::search(db, q, *k)?;
        c31::check_hits(vm, HNSW_M, q, *k, &h, when)?;
        hits.push(c31::bits(&h));
    }
    Ok(Seen { lookups, hits })
}

fn same(sig: &str, what: &str, w: &Watch, x: &Seen, y: &Seen) -> CaseResult {
    for (i, (a, b)) in x.lookups.iter().zip(&y.lookups).enumerate() {
        if a != b {
            fail!(format!("{sig}:index-lookup"), "{what}: lookup_index{:?} was {a:?}, now {b:?}", w.lookups[i]);
        }
    }
    for (i, (a, b)) in x.hits.iter().zip(&y.hits).enumerate() {
        if a != b {
            let show = |h: &Vec<(u32, u32)>| h.iter().map(|(i, d)| (*i, f32::from_bits(*d))).collect::<Vec<_>>();
            fail!(format!("{sig}:vector-search"), "{what}: search_vector{:?} was {:?}, now {:?}", w.probes[i], show(a), show(b));
        }
    }
    Ok(())
}

fn vector_tx(r: &mut Runner, sets: &[(u32, Vec<f32>)], new_nodes: usize, vecs: &mut BTreeMap<u32, Vec<f32>>) -> CaseResult {
    let mut m2 = r.model.clone();
    let mut rws: Vec<RW> = Vec::new();
    let mut all: Vec<(u32, Vec<f32>)> = sets.to_vec();
    for _ in 0..new_nodes {
        let iid = m2.create_node(&["A".to_string()]);
        rws.push(RW::CreateNode { ext: m2.nodes[&iid].ext, labels: vec!["A".to_string()], iid });
        all.push((iid, derived_vector(iid)));
    }
    r.log.push(format!("VectorTx nodes={new_nodes} vectors {:?}", all.iter().map(|x| x.0).collect::<Vec<_>>()));
    let res = catch(|| -> Result<(), (String, String)> {
        let mut tx = r.db().begin_write();
        hist::apply_rws(&mut tx, &rws)?;
        for (n, v) in &all {
            tx.set_vector(*n, v.clone()).map_err(|e| ("set_vector".to_string(), e.to_string()))?;
        }
        tx.commit().map_err(|e| ("commit".to_string(), e.to_string()))
    });
    match res {
        Ok(Ok(())) => {}
        Ok(Err((what, e))) => return Err(c31::db_fail(&what, e)),
        Err((loc, msg)) => return Err(Failure::new(format!("panic@{loc}"), format!("transaction panicked at {loc}: {msg}"))),
    }
    r.model = m2;
    r.states.push(r.model.clone());
    for (n, v) in all {
        vecs.insert(n, v);
    }
    Ok(())
}

fn vm(r: &Runner, vecs: &BTreeMap<u32, Vec<f32>>) -> VModel {
    VModel { next: r.model.next_iid, live: r.model.nodes.keys().copied().collect(), dead: r.model.dead.clone(), vecs: vecs.clone(), reinserted: false }
}

fn run_case(c: &Case, obs: &mut Obs) -> CaseResult {
    let dir = crate::engine::temp_dir();
    let mut bulk_model = None;
    if let Some((n, edges)) = &c.bulk {
        let mut m = crate::model::Model::new();
        let mut nodes = Vec::new();
        for i in 0..*n as usize {
            let label = LABELS[i % 2].to_string();
            let iid = m.create_node(std::slice::from_ref(&label));
            let ext = m.nodes[&iid].ext;
            let mut props = BTreeMap::new();
            if i % 3 == 0 {
                props.insert("p".to_string(), nervusdb::PropertyValue::Int(i as i64));
                m.nodes.get_mut(&iid).unwrap().props.insert("p".into(), crate::pv::PV::Int(i as i64));
            }
            nodes.push(nervusdb::BulkNode { external_id: ext, label, properties: props });
        }
        let mut bedges = Vec::new();
        for (s, t, d) in edges {
            let (s, d) = (idx(*s, *n as usize) as u32, idx(*d, *n as usize) as u32);
            let ty = hist::TYPES[*t as usize % hist::TYPES.len()].to_string();
            *m.edges.entry((s, ty.clone(), d)).or_insert(0) += 1;
            bedges.push(nervusdb::BulkEdge { src_external_id: m.nodes[&s].ext, rel_type: ty, dst_external_id: m.nodes[&d].ext, properties: BTreeMap::new() });
        }
        c31::guarded("bulkload", || nervusdb::bulkload(dir.join("db"), nodes, bedges).map_err(|e| e.to_string()))?;
        bulk_model = Some(m);
        obs.class("bulk-loaded-start");
    }
    let mut r = Runner::new(dir.join("db"), Excl::default())?;
    if let Some(m) = bulk_model {
        r.model = m.clone();
        r.states = vec![m];
    }
    let mut vecs: BTreeMap<u32, Vec<f32>> = BTreeMap::new();
    let mut indexes: BTreeSet<(String, String)> = BTreeSet::new();
    let mut seg_with_edges = false;
    let mut sunk_props = false;
    let apply = |r: &mut Runner, op: &Op, obs: &mut Obs, indexes: &mut BTreeSet<(String, String)>, seg_with_edges: &mut bool, sunk_props: &mut bool, check: bool| -> CaseResult {
        let k = r.apply(op, false, false, obs).map_err(|f| r.fail_with_log(f))?;
        match k {
            StepKind::Compacted => {
                *seg_with_edges = !r.model.edges.is_empty();
                *sunk_props |= r.model.nodes.values().any(|n| !n.props.is_empty()) || !r.model.edge_props.is_empty();
            }
            StepKind::Indexed => {
                if let Op::CreateIndex { l, k } = op {
                    indexes.insert((LABELS[*l as usize % LABELS.len()].to_string(), KEYS[*k as usize % KEYS.len()].to_string()));
                }
            }
            _ => {}
        }
        if check && matches!(k, StepKind::Committed | StepKind::Compacted | StepKind::Reopened) {
            obs.sub_eval(None);
            r.check().map_err(|f| r.fail_with_log(f))?;
        }
        Ok(())
    };
    for op in &c.pre {
        apply(&mut r, op, obs, &mut indexes, &mut seg_with_edges, &mut sunk_props, false)?;
    }
    {
        let live = r.model.live_nodes();
        let sets: Vec<(u32, Vec<f32>)> = if live.is_empty() { vec![] } else { c.vecs.iter().map(|(n, v)| (live[idx(*n, live.len())], v.clone())).collect() };
        if !sets.is_empty() || c.many_vecs > 0 {
            vector_tx(&mut r, &sets, c.many_vecs as usize, &mut vecs).map_err(|f| r.fail_with_log(f))?;
        }
    }
    // ---- before the vacuum
    obs.sub_eval(None);
    r.check().map_err(|f| Failure::new(format!("before-vacuum:{}", f.signature), f.message)).map_err(|f| r.fail_with_log(f))?;
    let w = watch(&r.model, &indexes, &vecs);
    let before = observe(r.db(), &w, &vm(&r, &vecs), "before vacuum").map_err(|f| r.fail_with_log(f))?;
    let db = r.db.take().unwrap();
    if c.close {
        c31::guarded("close", || db.close().map_err(|e| e.to_string())).map_err(|f| r.fail_with_log(f))?;
    } else {
        drop(db);
    }
    r.log.push(format!("Vacuum(close={}, twice={})", c.close, c.twice));
    for round in 0..(1 + c.twice as usize) {
        let rep = c31::guarded("vacuum", || nervusdb::vacuum(&r.base).map_err(|e| e.to_string())).map_err(|f| r.fail_with_log(f))?;
        if round == 0 {
            obs.class_if(rep.new_file_pages < rep.old_file_pages, "vacuum-shrank-file");
            obs.class_if(rep.copied_data_pages + 2 < rep.old_next_page_id, "vacuum-dropped-pages");
        }
        let _ = std::fs::remove_file(&rep.backup_path);
    }
    // ---- after the vacuum
    r.db = Some(hist::open_db(&r.base).map_err(|f| Failure::new(format!("after-vacuum:{}", f.signature), f.message)).map_err(|f| r.fail_with_log(f))?);
    obs.sub_eval(None);
    r.check().map_err(|f| Failure::new(format!("after-vacuum:{}", f.signature), f.message)).map_err(|f| r.fail_with_log(f))?;
    let after = observe(r.db(), &w, &vm(&r, &vecs), "after vacuum").map_err(|f| Failure::new(format!("after-vacuum:{}", f.signature), f.message)).map_err(|f| r.fail_with_log(f))?;
    same("vacuum-changed", "the vacuum changed an answer", &w, &before, &after).map_err(|f| r.fail_with_log(f))?;
    let nontrivial = seg_with_edges;
    obs.class_if(seg_with_edges, "segment-with-relationships");
    obs.class_if(sunk_props, "property-store");
    obs.class_if(!indexes.is_empty(), "has-index");
    obs.class_if(!vecs.is_empty(), "has-vectors");
    obs.class_if(vecs.len() >= 25, "vector-trees-split");
    obs.class_if(r.model.next_iid > 512, "more-than-512-nodes");
    obs.class_if(!c.close, "vacuum-after-drop");
    obs.class_if(c.twice, "vacuum-twice");
    obs.class_if(r.compactions == 0, "never-compacted");
    // ---- the database stays usable
    for op in &c.post {
        apply(&mut r, op, obs, &mut indexes, &mut seg_with_edges, &mut sunk_props, true)?;
    }
    {
        let live = r.model.live_nodes();
        let sets: Vec<(u32, Vec<f32>)> = if live.is_empty() { vec![] } else { c.post_vecs.iter().map(|(n, v)| (live[idx(*n, live.len())], v.clone())).collect() };
        if !sets.is_empty() {
            vector_tx(&mut r, &sets, 0, &mut vecs).map_err(|f| r.fail_with_log(f))?;
        }
    }
    let w2 = watch(&r.model, &indexes, &vecs);
    obs.sub_eval(None);
    r.check().map_err(|f| Failure::new(format!("after-vacuum-and-writes:{}", f.signature), f.message)).map_err(|f| r.fail_with_log(f))?;
    let s1 = observe(r.db(), &w2, &vm(&r, &vecs), "after vacuum and further writes").map_err(|f| r.fail_with_log(f))?;
    r.apply(&Op::CloseReopen, false, false, obs).map_err(|f| r.fail_with_log(f))?;
    obs.sub_eval(None);
    r.check().map_err(|f| Failure::new(format!("after-vacuum-writes-reopen:{}", f.signature), f.message)).map_err(|f| r.fail_with_log(f))?;
    let s2 = observe(r.db(), &w2, &vm(&r, &vecs), "after vacuum, further writes and reopen").map_err(|f| r.fail_with_log(f))?;
    same("reopen-after-vacuum-changed", "the reopen after vacuum + writes changed an answer", &w2, &s1, &s2).map_err(|f| r.fail_with_log(f))?;
    let _ = TxFlags::default();
    obs.set_nontrivial(nontrivial);
    Ok(())
}

pub fn run(ctx: &mut RunCtx) {
    // SAFETY: single-threaded here (shards are spawned by explore and joined before it returns)
    unsafe {
        std::env::set_var("NERVUSDB_HNSW_M", HNSW_M.to_string());
        std::env::remove_var("NERVUSDB_HNSW_EF_CONSTRUCTION");
        std::env::remove_var("NERVUSDB_HNSW_EF_SEARCH");
    }
    ctx.assume("'closed database' = no open handle: the handle is closed with Db::close() (70%) or dropped (30%) before vacuum(path)");
    ctx.assume("index answers are compared before/after the vacuum and before/after the final reopen (what an index should answer is C15's subject)");
    let mut pre = Profile::base();
    pre.ops = ctx.tier.pick(2..22, 2..40);
    pre.ws = 1..7;
    pre.w_compact = 4;
    pre.w_reopen = 1;
    pre.w_index = 2;
    pre.w_many = 1;
    pre.many_max = 700;
    let mut post = Profile::base();
    post.ops = 1..8;
    post.ws = 1..6;
    post.w_compact = 3;
    post.w_index = 1;
    post.w_many = 1;
    post.many_max = 600;
    let cases = ctx.tier.pick(2400, 40_000);
    ctx.explore(
        "histories",
        "generated history (transactions of every write kind, compaction/checkpoint, index creation, >512-node batches, reopen, vectors incl. enough to split the index trees) -> close or drop -> vacuum (sometimes twice) must return Ok -> open: dump == model, lookup_index and search_vector answers unchanged -> further transactions/compactions/index/vector writes with dump == model after each -> reopen: dump == model and answers unchanged; non-trivial = the vacuumed file holds a compacted segment with relationships",
        cases,
        move || case(&pre, &post, 40),
        run_case,
    );
}
