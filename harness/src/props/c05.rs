//! C05 Compaction and checkpoint are invisible.
use crate::engine::{Obs, RunCtx};
use crate::hist::{self, Excl, Op, Profile, Runner, StepKind, suffix_flags};

pub fn excl_from(ctx: &RunCtx) -> Excl {
    Excl {
        node_delete_then_compact: ctx.has_open("node-resurrected"),
        compacted_edge_delete_then_compact: ctx.has_open("edge-extra"),
        sunk_prop_change_then_compact: ctx.has_open("node-prop-resurrected") || ctx.has_open("edge-prop-resurrected") || ctx.has_open("node-prop-stale") || ctx.has_open("edge-prop-stale"),
        ..Default::default()
    }
}

/// Exclusions for another property that shares C05's open findings.
pub fn excl_from_known(ctx: &RunCtx, _of: &str) -> Excl {
    excl_from(ctx)
}

pub fn run(ctx: &mut RunCtx) {
    ctx.assume("oracle: the reference graph model (which C06 shows equal to the uncompacted run); compaction positions are part of the generated history");
    let mut p = Profile::base();
    p.ops = ctx.tier.pick(2..30, 2..60);
    p.ws = 1..7;
    p.w_compact = 5;
    let cases = ctx.tier.pick(24_000, 400_000);
    let excl = excl_from(ctx);
    let test = |ops: &Vec<Op>, obs: &mut Obs| {
        let dir = crate::engine::temp_dir();
        let mut r = Runner::new(dir.join("db"), excl.clone())?;
        let sf = suffix_flags(ops);
        let mut hard = false;
        let mut since_compact = (false, false, 0usize, 0usize); // (delete, removal, edges created, props set)
        let mut had_compact = false;
        for (i, op) in ops.iter().enumerate() {
            let k = r.apply(op, sf[i].0, sf[i].1, obs).map_err(|f| r.fail_with_log(f))?;
            match k {
                StepKind::Committed => {
                    since_compact.0 |= r.last_flags.deletes;
                    since_compact.1 |= r.last_flags.prop_removal;
                    since_compact.2 += r.last_rws.iter().filter(|w| matches!(w, hist::RW::CreateEdge { .. })).count();
                    since_compact.3 += r.last_rws.iter().filter(|w| matches!(w, hist::RW::SetNodeProp { .. } | hist::RW::SetEdgeProp { .. })).count();
                }
                StepKind::Compacted => {
                    let edge_free = since_compact.2 == 0;
                    let prop_free = since_compact.3 == 0;
                    obs.class_if(edge_free, "edge-free-compaction");
                    obs.class_if(prop_free, "property-free-compaction");
                    obs.class_if(since_compact.0, "compaction-after-delete");
                    obs.class_if(since_compact.1, "compaction-after-prop-removal");
                    obs.class_if(had_compact, "repeated-compaction");
                    hard |= since_compact.0 || since_compact.1 || edge_free || (had_compact && since_compact.3 > 0);
                    had_compact = true;
                    since_compact = (false, false, 0, 0);
                }
                _ => {}
            }
            if matches!(k, StepKind::Committed | StepKind::Compacted) {
                obs.sub_eval(None);
                r.check().map_err(|f| r.fail_with_log(f))?;
            }
        }
        obs.set_nontrivial(hard);
        Ok(())
    };
    ctx.explore(
        "histories",
        "generated histories with compaction/checkpoint at generated positions (back-to-back, edge-free, property-free, after deletes and removals of already compacted data); full dump compared with the model after every commit and every compaction, reads must not panic; non-trivial = a compaction whose input contains a tombstone or property removal, or no relationships, or an overwrite after an earlier compaction",
        cases,
        || hist::history(&p),
        test,
    );
}
