//! C19 WHERE partitions rows by truth value (metamorphic; needs the generator only).
use crate::cy::{self, CV};
use crate::engine::{Obs, RunCtx};
use crate::props::c11::rows_text;
use crate::pv::PV;
use crate::refcy::ast::*;
use crate::refcy::r#gen::{self, ColKind, Env, Gen, GenOpts, GraphSpec, Ty};
use crate::refcy::{self, print};
use nervusdb::query::prepare;
use proptest::prelude::*;
use serde::{Deserialize, Serialize};

#[derive(Debug, Clone, Serialize, Deserialize)]
pub struct Case {
    pub g: GraphSpec,
    /// reading clauses of the base query
    pub clauses: Vec<Clause>,
    /// true: the predicate joins the WHERE of the last (non-optional) MATCH;
    /// false: it goes into an appended `WITH <all variables> WHERE`
    pub in_match: bool,
    pub pred: Expr,
    /// variables in scope at the filter position, returned by every variant
    pub vars: Vec<String>,
    pub kinds: Vec<ColKind>,
    pub params: Vec<(String, PV)>,
}

fn case() -> impl Strategy<Value = Case> {
    (r#gen::graph(), r#gen::tape()).prop_map(|(g, tape)| {
        let mut opts = GenOpts::plain();
        opts.sparse = true;
        let mut gn = Gen::new(&tape, opts);
        let mut env = Env::default();
        let clauses = gn.reading_clauses(&mut env);
        let last_is_match = matches!(clauses.last(), Some(Clause::Match { optional: false, .. }));
        let in_match = last_is_match && gn.t.chance(85);
        // often a conjunct of the simple `variable.key = literal` form planners push down
        let simple = if gn.t.chance(50) { gn.simple_comparison(&env) } else { None };
        let pred = match simple {
            Some(s) => {
                if gn.t.chance(50) {
                    let rest = gn.predicate(&env, 2);
                    Expr::and(s, rest)
                } else {
                    s
                }
            }
            None => gn.predicate(&env, 3),
        };
        let vars: Vec<String> = env.vars.iter().map(|(n, _)| n.clone()).collect();
        let kinds = env.vars.iter().map(|(_, t)| if matches!(t, Ty::Bag(_)) { ColKind::Bag } else { ColKind::Exact }).collect();
        Case { g, clauses, in_match, pred, vars, kinds, params: gn.params.clone() }
    })
}

/// The query with an optional extra filter at the designated position.
fn variant(c: &Case, filter: Option<Expr>) -> RQuery {
    let mut cs = c.clauses.clone();
    let ret_items: Vec<(Expr, String)> = if c.vars.is_empty() { vec![(Expr::int(1), "c0".to_string())] } else { c.vars.iter().enumerate().map(|(i, v)| (Expr::var(v), format!("c{i}"))).collect() };
    if c.in_match {
        if let (Some(f), Some(Clause::Match { where_, .. })) = (filter, cs.last_mut()) {
            *where_ = Some(match where_.take() {
                Some(w) => Expr::and(w, f),
                None => f,
            });
        }
    } else if let Some(f) = filter {
        let items: Vec<(Expr, String)> = if c.vars.is_empty() { vec![(Expr::int(1), "one".to_string())] } else { c.vars.iter().map(|v| (Expr::var(v), v.clone())).collect() };
        cs.push(Clause::With { p: Proj { items, ..Default::default() }, where_: Some(f) });
    }
    cs.push(Clause::Return { p: Proj { items: ret_items, ..Default::default() } });
    RQuery::single(cs)
}

fn explain(text: &str) -> String {
    match crate::engine::catch(|| prepare(&format!("EXPLAIN {text}"))) {
        Ok(Ok(p)) => p.explain_string().unwrap_or("").to_string(),
        _ => String::new(),
    }
}

fn indent(l: &str) -> usize {
    l.len() - l.trim_start().len()
}

pub fn run(ctx: &mut RunCtx) {
    ctx.assume("metamorphic oracle only: multiset(Q) = multiset(Q and p) + multiset(Q and NOT p) + multiset(Q and p IS NULL); the four queries run on one snapshot state of one database; if any of them raises the case is skipped and counted (errors are C22's subject)");
    ctx.assume("the predicate is attached where WHERE filters rows: the WHERE of a final non-optional MATCH (conjoined with an existing predicate), or an appended WITH <all variables> WHERE; predicates on OPTIONAL MATCH are part of the match and are not a filter");
    let cases = ctx.tier.pick(4000, 150_000);
    let test = |c: &Case, obs: &mut Obs| {
        let built = refcy::build_db(&c.g)?;
        let params = cy::params_from(&c.params, Some(refcy::exec_options()));
        let p = c.pred.clone();
        let qs = [variant(c, None), variant(c, Some(p.clone())), variant(c, Some(Expr::un(UnOp::Not, p.clone()))), variant(c, Some(Expr::un(UnOp::IsNull, p.clone())))];
        let texts: Vec<String> = qs.iter().map(print::query).collect();
        // size guard only (not an oracle): skip base queries whose intermediate results are huge
        {
            let prv = refcy::params_rv(&c.params);
            let rc = refcy::eval::Ctx::new(&built.model, &prv, refcy::eval::Reading::default());
            rc.budget.set(15_000);
            if matches!(rc.run_query(&qs[0]), Err(refcy::eval::EvalErr::Budget)) {
                obs.class("skip:base-query-too-large");
                return Ok(());
            }
        }
        let mut results: Vec<Vec<Vec<CV>>> = Vec::new();
        for (i, t) in texts.iter().enumerate() {
            match cy::read(&built.db, t, &params) {
                Ok((_, rows)) => results.push(rows.iter().map(|r| refcy::norm_row(r, &c.kinds, false)).collect()),
                Err(cy::QErr::Panic(loc, msg)) => fail!(format!("panic@{loc}"), "query panicked at {loc}: {msg}\n  query: {t}"),
                Err(e) => {
                    obs.class(&format!("skip:error-in-{}", ["Q", "p", "not-p", "p-is-null"][i]));
                    obs.class(&format!("skip:{}", e.text().chars().take(50).collect::<String>()));
                    return Ok(());
                }
            }
        }
        let mut all = results[0].clone();
        let mut parts: Vec<Vec<CV>> = results[1].iter().chain(&results[2]).chain(&results[3]).cloned().collect();
        all.sort();
        parts.sort();
        // classes: predicate families and plan shape
        for n in refcy::notable(&RQuery::single(vec![Clause::With { p: Proj::default(), where_: Some(c.pred.clone()) }])) {
            obs.class(&format!("pred:{n}"));
        }
        obs.class(if c.in_match { "attach:match-where" } else { "attach:with-where" });
        let (e0, e1) = (explain(&texts[0]), explain(&texts[1]));
        let base_lines: Vec<&str> = e0.lines().map(|l| l.trim()).collect();
        let lines: Vec<&str> = e1.lines().collect();
        let mut pushed = false;
        for (i, l) in lines.iter().enumerate() {
            if l.trim_start().starts_with("Filter(") && !base_lines.contains(&l.trim()) {
                // a new filter with a pattern operator above it was pushed below that operator
                if lines[..i].iter().any(|u| indent(u) < indent(l) && (u.contains("Match") || u.contains("CartesianProduct") || u.contains("OptionalWhereFixup"))) {
                    pushed = true;
                }
            }
        }
        obs.class_if(pushed, "plan:filter-pushed-below-a-match-operator");
        obs.class_if(e1.contains("IndexSeek") && !e0.contains("IndexSeek"), "plan:index-seek-planned-for-predicate");
        obs.class_if(!pushed, "plan:filter-on-top");
        obs.class_if(results[0].is_empty(), "base-query-empty");
        if results[0].is_empty() && std::env::var("C19_DEBUG").is_ok() {
            println!("EMPTY {}", texts[0]);
        }
        let nonempty = results[1..].iter().filter(|r| !r.is_empty()).count();
        obs.class(&format!("parts-nonempty:{nonempty}"));
        obs.class_if(!results[3].is_empty(), "part:null-nonempty");
        obs.set_nontrivial(nonempty >= 2);
        if nonempty >= 2 {
            obs.sample(serde_json::json!({"Q_and_p": texts[1], "rows": [results[0].len(), results[1].len(), results[2].len(), results[3].len()]}));
        }
        if all != parts {
            let kind = if parts.len() < all.len() { "rows-lost" } else if parts.len() > all.len() { "rows-duplicated" } else { "rows-changed" };
            let mut n = refcy::notable(&RQuery::single(vec![Clause::With { p: Proj::default(), where_: Some(c.pred.clone()) }]));
            n.truncate(5);
            fail!(
                format!("{kind}:{}:{}", if c.in_match { "match-where" } else { "with-where" }, n.join("+")),
                "WHERE does not partition the rows: |Q|={} but |p|={} |NOT p|={} |p IS NULL|={}\n  Q        : {}\n  Q and p  : {}\n  rows Q   : {}\n  rows p   : {}\n  rows notp: {}\n  rows null: {}\n  graph    : nodes {:?}\n             rels {:?} props {:?}",
                results[0].len(),
                results[1].len(),
                results[2].len(),
                results[3].len(),
                texts[0],
                texts[1],
                rows_text(&results[0]),
                rows_text(&results[1]),
                rows_text(&results[2]),
                rows_text(&results[3]),
                built.model.nodes,
                built.model.edges,
                built.model.edge_props
            );
        }
        Ok(())
    };
    ctx.explore(
        "partition",
        "generated graph x base query (MATCH / OPTIONAL MATCH / UNWIND / WITH, no aggregation, DISTINCT or LIMIT) x generated predicate over the variables in scope (comparisons, boolean connectives, null tests, IN, string operators, CASE, arithmetic, functions, label and pattern predicates, property access on nullable variables); the four variants Q, Q and p, Q and NOT p, Q and (p IS NULL) return every variable; non-trivial = at least two of the three parts non-empty",
        cases,
        case,
        test,
    );
}
