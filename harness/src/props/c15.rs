//! C15 Indexes never change query results.
//!
//! One generated storage history is applied to two databases through the same API calls;
//! in one of them `create_index(label, key)` is issued at a generated position. After the
//! index exists, every commit / compaction / reopen is followed by equality look-ups of the
//! indexed (label, key) pair with stored values and near misses; the row multisets of the
//! two databases must agree (and agree with the model's answer).
use crate::cy::{self as cy, CV};
use crate::engine::{CaseResult, Failure, Obs, RunCtx, fp, idx, temp_dir};
use crate::hist::{self, Excl, KEYS, LABELS, Op, RW, Runner, StepKind, W, suffix_flags};
use crate::model::{Iid, Model};
use crate::pv::PV;
use nervusdb::{Db, GraphSnapshot};
use proptest::prelude::*;
use serde::{Deserialize, Serialize};
use std::collections::{BTreeMap, BTreeSet};

#[derive(Debug, Clone, Serialize, Deserialize)]
pub struct Case {
    pub ops: Vec<Op>,
    /// the index is created before op number `idx(pos, ops.len() + 1)`
    pub pos: u16,
    pub l: u8,
    pub k: u8,
    /// extra look-up values (near misses)
    pub probes: Vec<PV>,
    /// bit i: query number i passes its value as a parameter instead of a literal
    pub param_bits: u64,
}

const NK: u8 = 2; // keys p, q

/// Small value universe so that several nodes share values and near misses are hit.
pub fn val() -> impl Strategy<Value = PV> + Clone {
    prop_oneof![
        // hot set: several nodes end up sharing (Cypher-)equal values
        10 => prop::sample::select(vec![PV::Int(1), PV::f(1.0), PV::Str("a".into()), PV::Bool(true), PV::Int(0), PV::f(0.0), PV::f(-0.0), PV::Int(2)]),
        1 => Just(PV::Null),
        1 => any::<bool>().prop_map(PV::Bool),
        3 => (-1i64..3).prop_map(PV::Int),
        3 => prop::sample::select(vec![0.0f64, -0.0, 1.0, 2.0, 1.5, -1.0, 0.5]).prop_map(PV::f),
        1 => Just(PV::f(f64::NAN)),
        3 => prop::sample::select(vec!["", "a", "b", "1", "1.0", "true", "A", "ab"]).prop_map(|s| PV::Str(s.to_string())),
        1 => prop::sample::select(vec![PV::Int(1 << 40), PV::f((1u64 << 40) as f64), PV::Int(i64::MAX), PV::Int(i64::MIN + 1), PV::f(1e300), PV::Str("é中".into())]),
    ]
}

/// Label indices, skewed towards the two labels that can carry the index.
fn lab() -> impl Strategy<Value = u8> + Clone {
    prop::sample::select(vec![0u8, 0, 0, 1, 1, 1, 2])
}

fn wop() -> impl Strategy<Value = W> + Clone {
    let n = any::<u16>();
    prop_oneof![
        6 => prop::collection::vec(lab(), 0..=3).prop_map(|labels| W::CreateNode { labels }),
        3 => (n, lab()).prop_map(|(n, l)| W::AddLabel { n, l }),
        2 => (n, lab()).prop_map(|(n, l)| W::RemoveLabel { n, l }),
        2 => n.prop_map(|n| W::DeleteNode { n }),
        14 => (n, prop::sample::select(vec![0u8, 0, 0, 1]), val()).prop_map(|(n, k, v)| W::SetNodeProp { n, k, v }),
        2 => (n, 0u8..NK).prop_map(|(n, k)| W::RemoveNodeProp { n, k }),
        1 => (n, 0u8..2, n).prop_map(|(s, t, d)| W::CreateEdge { s, t, d }),
    ]
}

fn op() -> impl Strategy<Value = Op> {
    // units: one write, or a label *replaced* on one node inside the transaction (the label
    // set keeps its size while its content changes)
    let unit = prop_oneof![
        12 => wop().prop_map(|w| vec![w]),
        1 => (any::<u16>(), 0u8..3, 1u8..3).prop_map(|(n, from, d)| vec![W::RemoveLabel { n, l: from }, W::AddLabel { n, l: (from + d) % 3 }]),
        1 => (any::<u16>(), 0u8..3, 1u8..3).prop_map(|(n, from, d)| vec![W::AddLabel { n, l: (from + d) % 3 }, W::RemoveLabel { n, l: from }]),
    ];
    let ws = prop::collection::vec(unit, 1..9).prop_map(|v| v.concat());
    prop_oneof![
        14 => ws.clone().prop_map(|ws| Op::Tx { ws, commit: true }),
        1 => ws.prop_map(|ws| Op::Tx { ws, commit: false }),
        2 => prop_oneof![3 => Just(Op::Compact), 1 => Just(Op::Checkpoint)],
        2 => prop_oneof![Just(Op::CloseReopen), Just(Op::DropReopen)],
    ]
}

pub fn case(max_ops: usize) -> impl Strategy<Value = Case> {
    (
        prop::collection::vec(op(), 1..max_ops),
        prop_oneof![2 => Just(0u16), 5 => any::<u16>(), 2 => Just(u16::MAX)],
        0u8..2,
        prop::sample::select(vec![0u8, 0, 0, 1]),
        prop::collection::vec(val(), 0..4),
        any::<u64>(),
    )
        .prop_map(|(ops, pos, l, k, probes, param_bits)| Case { ops, pos, l, k, probes, param_bits })
}

fn kind(v: &PV) -> &'static str {
    match v {
        PV::Null => "null",
        PV::Bool(_) => "bool",
        PV::Int(_) => "int",
        PV::Float(_) => "float",
        PV::Str(_) => "string",
        _ => "other",
    }
}

/// Cypher `a = b` is true (openCypher 9: numbers compare by value across integer/float,
/// null and NaN equal nothing, values of different kinds are not equal).
pub fn cy_eq(a: &PV, b: &PV) -> bool {
    match (a, b) {
        (PV::Bool(x), PV::Bool(y)) => x == y,
        (PV::Str(x), PV::Str(y)) => x == y,
        (PV::Int(x), PV::Int(y)) => x == y,
        (PV::Float(x), PV::Float(y)) => f64::from_bits(*x) == f64::from_bits(*y),
        (PV::Int(i), PV::Float(f)) | (PV::Float(f), PV::Int(i)) => {
            let f = f64::from_bits(*f);
            f.is_finite() && f.fract() == 0.0 && f.abs() < 1.9e19 && (f as i128) == (*i as i128)
        }
        _ => false,
    }
}

/// Per-node bookkeeping used only to *classify* a disagreement (never to decide one).
#[derive(Default, Clone)]
struct Track {
    primary: BTreeMap<Iid, Option<String>>,
    /// the current value of the indexed key was written while the index existed
    fresh: BTreeMap<Iid, bool>,
    /// the indexed label was added after creation
    late_label: BTreeSet<Iid>,
    label_removed: BTreeSet<Iid>,
    deleted: BTreeSet<Iid>,
    last_value: BTreeMap<Iid, PV>,
}

#[derive(Default)]
struct Feat {
    dup: bool,
    update: bool,
    late_label: bool,
    delete: bool,
    after_data: bool,
    label_removed: bool,
    seek_hit: bool,
    plan_seek: bool,
}

fn query_text(form: u8, label: &str, key: &str, lit: &str) -> String {
    match form {
        0 => format!("MATCH (n:{label} {{{key}: {lit}}}) RETURN id(n) AS id"),
        1 => format!("MATCH (n:{label}) WHERE n.{key} = {lit} RETURN id(n) AS id"),
        2 => format!("MATCH (n:{label}) WHERE {lit} = n.{key} RETURN id(n) AS id"),
        // second label C: the seek still goes through the first label
        _ => format!("MATCH (n:{label}:C {{{key}: {lit}}}) RETURN id(n) AS id"),
    }
}

fn ids(rows: &[Vec<CV>]) -> Result<Vec<i64>, Failure> {
    let mut out = Vec::new();
    for r in rows {
        match r.first() {
            Some(CV::Int(i)) => out.push(*i),
            other => return Err(Failure::new("unexpected-row-shape", format!("id(n) column is {other:?}"))),
        }
    }
    out.sort();
    Ok(out)
}

fn classify_missing(t: &Track, m: Iid, label: &str, stored: Option<&PV>, probe: &PV) -> &'static str {
    if !t.fresh.get(&m).copied().unwrap_or(false) {
        "no-backfill"
    } else if t.primary.get(&m).cloned().flatten().as_deref() != Some(label) {
        "non-primary-label"
    } else if stored.map(kind) != Some(kind(probe)) {
        "int-float"
    } else {
        "other"
    }
}

fn classify_extra(t: &Track, m: Iid) -> &'static str {
    if t.deleted.contains(&m) {
        "deleted-node"
    } else if t.label_removed.contains(&m) {
        "removed-label"
    } else {
        "stale-value"
    }
}

/// Second way of applying the same history: every resolved write becomes one Cypher statement
/// (own transaction) addressed by `id(n)`.
pub struct CyRunner {
    base: std::path::PathBuf,
    db: Option<Db>,
    model: Model,
    last_rws: Vec<RW>,
    compactions: u32,
    reopens: u32,
    log: Vec<String>,
}

fn cy_statement(rw: &RW) -> (String, Vec<(String, PV)>) {
    let id = |n: &Iid| PV::Int(*n as i64);
    match rw {
        RW::CreateNode { labels, .. } => (format!("CREATE (n{})", labels.iter().map(|l| format!(":{l}")).collect::<String>()), vec![]),
        RW::AddLabel { n, l } => (format!("MATCH (n) WHERE id(n) = $id SET n:{l}"), vec![("id".into(), id(n))]),
        RW::RemoveLabel { n, l } => (format!("MATCH (n) WHERE id(n) = $id REMOVE n:{l}"), vec![("id".into(), id(n))]),
        RW::CreateEdge { s, t, d } => (format!("MATCH (a), (b) WHERE id(a) = $s AND id(b) = $d CREATE (a)-[:{t}]->(b)"), vec![("s".into(), id(s)), ("d".into(), id(d))]),
        RW::DeleteEdgeKey { s, t, d } => (format!("MATCH (a)-[r:{t}]->(b) WHERE id(a) = $s AND id(b) = $d DELETE r"), vec![("s".into(), id(s)), ("d".into(), id(d))]),
        RW::TombstoneNode { n } => ("MATCH (n) WHERE id(n) = $id DETACH DELETE n".to_string(), vec![("id".into(), id(n))]),
        RW::SetNodeProp { n, k, v } => (format!("MATCH (n) WHERE id(n) = $id SET n.{k} = $v"), vec![("id".into(), id(n)), ("v".into(), v.clone())]),
        // both spellings of a removal
        RW::RemoveNodeProp { n, k } if n % 2 == 1 => (format!("MATCH (n) WHERE id(n) = $id SET n.{k} = null"), vec![("id".into(), id(n))]),
        RW::RemoveNodeProp { n, k } => (format!("MATCH (n) WHERE id(n) = $id REMOVE n.{k}"), vec![("id".into(), id(n))]),
        RW::SetEdgeProp { s, t, d, k, v } => (format!("MATCH (a)-[r:{t}]->(b) WHERE id(a) = $s AND id(b) = $d SET r.{k} = $v"), vec![("s".into(), id(s)), ("d".into(), id(d)), ("v".into(), v.clone())]),
        RW::RemoveEdgeProp { s, t, d, k } => (format!("MATCH (a)-[r:{t}]->(b) WHERE id(a) = $s AND id(b) = $d REMOVE r.{k}"), vec![("s".into(), id(s)), ("d".into(), id(d))]),
    }
}

impl CyRunner {
    fn new(base: std::path::PathBuf) -> Result<Self, Failure> {
        let db = hist::open_db(&base)?;
        Ok(CyRunner { base, db: Some(db), model: Model::new(), last_rws: Vec::new(), compactions: 0, reopens: 0, log: Vec::new() })
    }
    fn apply(&mut self, op: &Op, obs: &mut Obs) -> Result<StepKind, Failure> {
        let db = self.db.as_ref().expect("db open");
        match op {
            Op::Tx { commit: false, .. } => Ok(StepKind::Abandoned),
            Op::Tx { ws, commit: true } => {
                let mut m2 = self.model.clone();
                let mut flags = hist::TxFlags::default();
                // Cypher: SET x.k = null removes the property, so a null write is a removal here
                let ws: Vec<W> = ws
                    .iter()
                    .map(|w| match w {
                        W::SetNodeProp { n, k, v: PV::Null } => W::RemoveNodeProp { n: *n, k: *k },
                        W::SetEdgeProp { e, k, v: PV::Null } => W::RemoveEdgeProp { e: *e, k: *k },
                        w => w.clone(),
                    })
                    .collect();
                let rws = hist::resolve_tx(&mut m2, &ws, &Excl::default(), &hist::Hazard::default(), obs, &mut flags);
                for rw in &rws {
                    let (text, pairs) = cy_statement(rw);
                    self.log.push(format!("{text} {pairs:?}"));
                    cy::write(db, &text, &cy::params_from(&pairs, None)).map_err(|e| Failure::new(format!("cypher-write-failed:{}", text.split(' ').take(3).collect::<Vec<_>>().join("-")), format!("{text} {pairs:?}: {e:?}")))?;
                }
                self.model = m2;
                self.last_rws = rws;
                Ok(StepKind::Committed)
            }
            Op::Compact | Op::Checkpoint => {
                let r = crate::engine::catch(|| if matches!(op, Op::Checkpoint) { db.checkpoint() } else { db.compact() });
                match r {
                    Err((loc, msg)) => Err(Failure::new(format!("panic@{loc}"), format!("compaction panicked: {msg}"))),
                    Ok(Err(e)) => Err(Failure::new("op-error:compact", e.to_string())),
                    Ok(Ok(())) => {
                        self.compactions += 1;
                        Ok(StepKind::Compacted)
                    }
                }
            }
            Op::CloseReopen | Op::DropReopen => {
                let db = self.db.take().expect("db open");
                if matches!(op, Op::CloseReopen) {
                    db.close().map_err(|e| Failure::new("op-error:close", e.to_string()))?;
                } else {
                    drop(db);
                }
                self.db = Some(hist::open_db(&self.base)?);
                self.reopens += 1;
                Ok(StepKind::Reopened)
            }
            Op::CreateIndex { l, k } => {
                db.create_index(LABELS[*l as usize % LABELS.len()], KEYS[*k as usize % KEYS.len()]).map_err(|e| Failure::new("op-error:create_index", e.to_string()))?;
                Ok(StepKind::Indexed)
            }
            Op::ManyNodes { .. } => Ok(StepKind::Noop),
        }
    }
}

pub enum Side {
    Storage(Box<Runner>),
    Cypher(Box<CyRunner>),
}

impl Side {
    fn new(cypher: bool, base: std::path::PathBuf) -> Result<Side, Failure> {
        Ok(if cypher { Side::Cypher(Box::new(CyRunner::new(base)?)) } else { Side::Storage(Box::new(Runner::new(base, Excl::default())?)) })
    }
    fn apply(&mut self, op: &Op, lc: bool, lr: bool, obs: &mut Obs) -> Result<StepKind, Failure> {
        match self {
            Side::Storage(r) => r.apply(op, lc, lr, obs).map_err(|f| r.fail_with_log(f)),
            Side::Cypher(r) => r.apply(op, obs).map_err(|f| {
                let tail: Vec<&String> = r.log.iter().rev().take(12).rev().collect();
                Failure::new(f.signature, format!("{}\n  statement tail: {:#?}", f.message, tail))
            }),
        }
    }
    fn db(&self) -> &Db {
        match self {
            Side::Storage(r) => r.db(),
            Side::Cypher(r) => r.db.as_ref().expect("db open"),
        }
    }
    fn model(&self) -> &Model {
        match self {
            Side::Storage(r) => &r.model,
            Side::Cypher(r) => &r.model,
        }
    }
    fn last_rws(&self) -> &[RW] {
        match self {
            Side::Storage(r) => &r.last_rws,
            Side::Cypher(r) => &r.last_rws,
        }
    }
    fn counts(&self) -> (u32, u32) {
        match self {
            Side::Storage(r) => (r.compactions, r.reopens),
            Side::Cypher(r) => (r.compactions, r.reopens),
        }
    }
}

#[allow(clippy::too_many_arguments)]
fn check_queries(a: &Side, b: &Side, c: &Case, label: &str, key: &str, seen: &BTreeSet<PV>, t: &Track, feat: &mut Feat, obs: &mut Obs, step: usize) -> CaseResult {
    let model: &Model = b.model();
    // look-up values: everything ever stored under the key, numeric twins, generated probes
    let mut vals: Vec<PV> = Vec::new();
    let mut push = |v: PV| {
        if !vals.iter().any(|x| x.same(&v)) && vals.len() < 24 {
            vals.push(v)
        }
    };
    for v in seen {
        push(v.clone());
        match v {
            PV::Int(i) if i.unsigned_abs() < (1u64 << 52) => push(PV::f(*i as f64)),
            PV::Float(f) => {
                let x = f64::from_bits(*f);
                if x.is_finite() && x.fract() == 0.0 && x.abs() < 4.0e15 {
                    push(PV::Int(x as i64));
                }
            }
            PV::Str(s) => push(PV::Str(format!("{s}a"))),
            PV::Bool(b) => push(PV::Bool(!b)),
            _ => {}
        }
    }
    for p in &c.probes {
        push(p.clone());
    }
    // duplicate values among the live nodes carrying the label?
    let carriers: Vec<(&Iid, &PV)> = model.nodes.iter().filter(|(_, n)| n.labels.contains(label)).filter_map(|(i, n)| n.props.get(key).map(|v| (i, v))).collect();
    for (i, (_, v)) in carriers.iter().enumerate() {
        if carriers[i + 1..].iter().any(|(_, w)| cy_eq(v, w)) {
            feat.dup = true;
        }
    }
    let snap_b = b.db().snapshot();
    let mut qn = 0u32;
    for v in &vals {
        let expected_l: Vec<(i64, bool)> = model.nodes.iter().filter(|(_, n)| n.labels.contains(label) && n.props.get(key).is_some_and(|s| cy_eq(s, v))).map(|(i, n)| (*i as i64, n.labels.contains("C"))).collect();
        let hit = snap_b.lookup_index(label, key, &v.to_api()).is_some();
        feat.seek_hit |= hit;
        for form in 0u8..4 {
            let expected: Vec<i64> = expected_l.iter().filter(|(_, c)| form != 3 || *c).map(|(i, _)| *i).collect();
            let as_param = (c.param_bits >> (qn % 64)) & 1 == 1;
            qn += 1;
            let (text, pairs) = match (as_param, cy::literal(v)) {
                (false, Some(lit)) => (query_text(form, label, key, &lit), Vec::new()),
                _ => (query_text(form, label, key, "$v"), vec![("v".to_string(), v.clone())]),
            };
            let params = cy::params_from(&pairs, None);
            if !feat.plan_seek {
                if let Ok((_, rows)) = cy::read(b.db(), &format!("EXPLAIN {text}"), &params) {
                    feat.plan_seek = rows.iter().flatten().any(|x| matches!(x, CV::Str(s) if s.contains("IndexSeek")));
                }
            }
            let ra = cy::read(a.db(), &text, &params);
            let rb = cy::read(b.db(), &text, &params);
            obs.sub_eval(hit.then(|| fp(&(step, &text, format!("{v:?}")))));
            let ctx = |what: &str| format!("{what}\n  query: {text}  params: {pairs:?}\n  index: {label}.{key} created before op {} of {}; check after op {step}", idx(c.pos, c.ops.len() + 1), c.ops.len());
            let (ra, rb) = match (ra, rb) {
                (Ok((_, x)), Ok((_, y))) => (ids(&x)?, ids(&y)?),
                (Err(ea), Err(eb)) => {
                    if std::mem::discriminant(&ea) != std::mem::discriminant(&eb) {
                        return Err(Failure::new("error-class-differs", ctx(&format!("plain: {ea:?} indexed: {eb:?}"))));
                    }
                    if let cy::QErr::Panic(loc, m) = &ea {
                        return Err(Failure::new(format!("panic@{loc}"), ctx(&format!("query panicked on both databases: {m}"))));
                    }
                    obs.class("query-error-both");
                    continue;
                }
                (Ok(_), Err(e)) => {
                    let sig = match &e {
                        cy::QErr::Panic(loc, _) => format!("panic@{loc}"),
                        _ => "indexed-only-error".to_string(),
                    };
                    return Err(Failure::new(sig, ctx(&format!("only the indexed database fails: {e:?}"))));
                }
                (Err(e), Ok(_)) => return Err(Failure::new("plain-only-error", ctx(&format!("only the plain database fails: {e:?}")))),
            };
            if ra != rb {
                let missing: Vec<i64> = ra.iter().filter(|x| !rb.contains(x)).copied().collect();
                let extra: Vec<i64> = rb.iter().filter(|x| !ra.contains(x)).copied().collect();
                let sig = if let Some(m) = missing.first() {
                    let m = *m as Iid;
                    format!("index-missing:{}", classify_missing(t, m, label, model.nodes.get(&m).and_then(|n| n.props.get(key)), v))
                } else if let Some(m) = extra.first() {
                    format!("index-extra:{}", classify_extra(t, *m as Iid))
                } else {
                    "index-multiplicity".to_string()
                };
                return Err(Failure::new(sig, ctx(&format!("rows differ: without index {ra:?}, with index {rb:?} (model {expected:?}); lookup_index hit = {hit}"))));
            }
            if ra != expected {
                // both databases agree with each other but not with the reference answer
                let sig = if ra.iter().any(|x| t.deleted.contains(&(*x as Iid))) { "both-differ-from-model:deleted-node" } else { "both-differ-from-model" };
                return Err(Failure::new(sig, ctx(&format!("both databases return {ra:?}, model expects {expected:?}"))));
            }
        }
    }
    Ok(())
}

pub fn run(ctx: &mut RunCtx) {
    ctx.assume("equality semantics of the model answer: openCypher 9 (1 = 1.0 true, null and NaN equal nothing, different kinds unequal); integers are kept below 2^52 in magnitude near floats so that C23's numeric-comparison questions do not decide this check");
    ctx.assume("both databases receive the same storage API calls (hist::exec_tx); the only difference is one Db::create_index call");
    let cases = ctx.tier.pick(18_000, 150_000);
    let max_ops = ctx.tier.pick(16, 28);
    // exclusions by construction for open findings
    let x_backfill = ctx.has_open("index-missing:no-backfill");
    let x_label = ctx.has_open("index-missing:non-primary-label");
    let x_intfloat = ctx.has_open("index-missing:int-float");
    let x_deleted = ctx.has_open("index-extra:deleted-node") || ctx.has_open("both-differ-from-model:deleted-node");
    let test_mode = move |cypher: bool, c: &Case, obs: &mut Obs| -> CaseResult {
        let dir = temp_dir();
        let mut a = Side::new(cypher, dir.join("plain"))?;
        let mut b = Side::new(cypher, dir.join("indexed"))?;
        let label = LABELS[c.l as usize % LABELS.len()];
        let key = KEYS[c.k as usize % KEYS.len()];
        let mut at = idx(c.pos, c.ops.len() + 1);
        if x_backfill && at != 0 {
            obs.excluded("index-created-after-data");
            at = 0;
        }
        let sf = suffix_flags(&c.ops);
        let mut scratch = Obs::default();
        let mut indexed = false;
        let mut t = Track::default();
        let mut feat = Feat::default();
        let mut seen: BTreeSet<PV> = BTreeSet::new();
        for i in 0..=c.ops.len() {
            if i == at {
                feat.after_data = b.model().nodes.values().any(|n| n.labels.contains(label) && n.props.contains_key(key));
                b.apply(&Op::CreateIndex { l: c.l, k: c.k }, false, false, obs)?;
                indexed = true;
                check_queries(&a, &b, c, label, key, &seen, &t, &mut feat, obs, i)?;
            }
            if i == c.ops.len() {
                break;
            }
            let mut op = c.ops[i].clone();
            if let Op::Tx { ws, .. } = &mut op {
                ws.retain(|w| match w {
                    W::AddLabel { .. } | W::RemoveLabel { .. } if x_label => {
                        obs.excluded("label-change");
                        false
                    }
                    W::CreateNode { labels } if x_label && labels.len() > 1 => {
                        obs.excluded("multi-label-create");
                        false
                    }
                    W::SetNodeProp { v: PV::Float(_), .. } if x_intfloat => {
                        obs.excluded("float-value");
                        false
                    }
                    W::DeleteNode { .. } if x_deleted => {
                        obs.excluded("node-delete");
                        false
                    }
                    _ => true,
                });
            }
            let ka = a.apply(&op, sf[i].0, sf[i].1, &mut scratch)?;
            let kb = b.apply(&op, sf[i].0, sf[i].1, obs)?;
            if ka != kb {
                return Err(Failure::new("step-kind-differs", format!("op {i}: {ka:?} vs {kb:?}")));
            }
            if kb == StepKind::Committed {
                for rw in b.last_rws().to_vec().iter() {
                    match rw {
                        RW::CreateNode { iid, labels, .. } => {
                            t.primary.insert(*iid, labels.first().cloned());
                        }
                        RW::SetNodeProp { n, k, v } if k == key => {
                            let had = t.last_value.insert(*n, v.clone()).is_some();
                            t.fresh.insert(*n, indexed);
                            seen.insert(v.clone());
                            feat.update |= indexed && had;
                        }
                        RW::RemoveNodeProp { n, k } if k == key => {
                            feat.update |= indexed && t.last_value.remove(n).is_some();
                        }
                        RW::AddLabel { n, l } if l == label => {
                            t.late_label.insert(*n);
                            t.label_removed.remove(n);
                            feat.late_label |= indexed;
                        }
                        RW::RemoveLabel { n, l } if l == label => {
                            t.label_removed.insert(*n);
                            feat.label_removed |= indexed;
                        }
                        RW::TombstoneNode { n } => {
                            t.deleted.insert(*n);
                            feat.delete |= indexed && t.last_value.contains_key(n);
                        }
                        _ => {}
                    }
                }
            }
            if indexed && matches!(kb, StepKind::Committed | StepKind::Compacted | StepKind::Reopened) {
                check_queries(&a, &b, c, label, key, &seen, &t, &mut feat, obs, i + 1)?;
            }
        }
        obs.class_if(at == 0, "index-before-data");
        obs.class_if(at == c.ops.len(), "index-at-end");
        obs.class_if(at != 0 && at != c.ops.len(), "index-in-the-middle");
        obs.class_if(feat.after_data, "index-created-after-data");
        obs.class_if(feat.dup, "duplicate-value");
        obs.class_if(feat.update, "update-of-indexed-value");
        obs.class_if(feat.late_label, "label-added-later");
        obs.class_if(feat.label_removed, "label-removed");
        obs.class_if(feat.delete, "delete-of-indexed-node");
        obs.class_if(feat.seek_hit, "seek-hit");
        obs.class_if(feat.plan_seek, "plan-IndexSeek");
        obs.class_if(b.counts().0 > 0, "compaction");
        obs.class_if(b.counts().1 > 0, "reopen");
        obs.set_nontrivial(feat.plan_seek && feat.seek_hit && (feat.dup || feat.update || feat.late_label || feat.delete || feat.after_data));
        Ok(())
    };
    let test = move |c: &Case, obs: &mut Obs| test_mode(false, c, obs);
    ctx.explore(
        "histories",
        "one storage history applied to two databases through identical WriteTxn calls, Db::create_index(label,key) at a generated position in one of them; after every commit/compaction/reopen that follows the index creation, `MATCH (n:L {k: v})`, `MATCH (n:L) WHERE n.k = v`, `WHERE v = n.k` and `MATCH (n:L:C {k: v})` RETURN id(n) for every value ever stored under k, its int/float twin, a near miss, and generated probes (literals and parameters); rows must be equal between the databases and equal to the model's answer; non-trivial = EXPLAIN shows IndexSeek, lookup_index returned entries for at least one probe, and the history has a duplicate value, an update of an indexed value, a late label, a delete of an indexed node, or the index was created after data",
        cases,
        move || case(max_ops),
        test,
    );
    let cy_cases = ctx.tier.pick(4500, 40_000);
    let cy_ops = ctx.tier.pick(10, 20);
    let test = move |c: &Case, obs: &mut Obs| test_mode(true, c, obs);
    ctx.explore(
        "cypher-histories",
        "same as [histories], but every write of the history is one Cypher statement (CREATE, SET/REMOVE label and property, DELETE, DETACH DELETE addressed by id(n)) executed through prepare+execute_mixed on both databases; SET k = null removes the property",
        cy_cases,
        move || case(cy_ops),
        test,
    );
}
