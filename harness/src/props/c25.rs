//! C25 Value and WAL-record encodings round-trip safely; decoding arbitrary bytes never
//! panics, aborts or allocates without bound.
//!
//! Round trips run in-process. Decoder robustness runs in a child worker
//! (`check --worker c25`, started through `sh -c 'ulimit -v ...; exec ...'`) because a
//! stack overflow or a failed allocation aborts the process: the worker announces each case
//! before executing it, the parent attributes a death to the announced case and restarts
//! the worker.
use crate::alloc_count;
use crate::engine::{self, CaseResult, Failure, Obs, RunCtx, fp, idx};
use crate::pv::{self, PV};
use nervusdb_api::PropertyValue;
use nervusdb_storage::wal::{SegmentPointer, WalRecord};
use proptest::prelude::*;
use serde::{Deserialize, Serialize};
use std::cell::RefCell;
use std::collections::BTreeMap;
use std::io::{BufRead, BufReader, Write};
use std::process::{Child, ChildStdin, ChildStdout, Command, Stdio};

const PAGE_SIZE: usize = nervusdb_storage::PAGE_SIZE;
/// address-space limit of the worker (KiB)
const WORKER_ULIMIT_KIB: u64 = 1 << 20;
/// allowed peak allocation of a decoder: `ALLOC_FACTOR * input length + ALLOC_SLACK`.
/// A decoded element costs at most 32 bytes (`size_of::<PropertyValue>()`) per input byte
/// (a `Null` in a list); a growing Vec transiently holds old and new block (3x).
const ALLOC_FACTOR: usize = 128;
const ALLOC_SLACK: usize = 64 << 10;

// =========================================================================== WAL mirror

#[derive(Debug, Clone, Serialize, Deserialize, PartialEq, Eq, Hash)]
pub struct PageSpec {
    fill: u8,
    patches: Vec<(u16, u8)>,
}

impl PageSpec {
    fn bytes(&self) -> Box<[u8; PAGE_SIZE]> {
        let mut p = Box::new([self.fill; PAGE_SIZE]);
        for (at, v) in &self.patches {
            p[idx(*at, PAGE_SIZE)] = *v;
        }
        p
    }
}

/// Serializable mirror of `WalRecord` (floats as bits through `PV`).
#[derive(Debug, Clone, Serialize, Deserialize, PartialEq, Eq, Hash)]
pub enum WR {
    BeginTx { txid: u64 },
    CommitTx { txid: u64 },
    PageWrite { page_id: u64, page: PageSpec },
    PageFree { page_id: u64 },
    CreateLabel { name: String, label_id: u32 },
    CreateNode { external_id: u64, label_id: u32, internal_id: u32 },
    AddNodeLabel { node: u32, label_id: u32 },
    RemoveNodeLabel { node: u32, label_id: u32 },
    CreateEdge { src: u32, rel: u32, dst: u32 },
    TombstoneNode { node: u32 },
    TombstoneEdge { src: u32, rel: u32, dst: u32 },
    ManifestSwitch { epoch: u64, segments: Vec<(u64, u64)>, properties_root: u64, stats_root: u64 },
    Checkpoint { up_to_txid: u64, epoch: u64, properties_root: u64, stats_root: u64 },
    SetNodeProperty { node: u32, key: String, value: PV },
    SetEdgeProperty { src: u32, rel: u32, dst: u32, key: String, value: PV },
    RemoveNodeProperty { node: u32, key: String },
    RemoveEdgeProperty { src: u32, rel: u32, dst: u32, key: String },
}

impl WR {
    fn variant(&self) -> &'static str {
        match self {
            WR::BeginTx { .. } => "BeginTx",
            WR::CommitTx { .. } => "CommitTx",
            WR::PageWrite { .. } => "PageWrite",
            WR::PageFree { .. } => "PageFree",
            WR::CreateLabel { .. } => "CreateLabel",
            WR::CreateNode { .. } => "CreateNode",
            WR::AddNodeLabel { .. } => "AddNodeLabel",
            WR::RemoveNodeLabel { .. } => "RemoveNodeLabel",
            WR::CreateEdge { .. } => "CreateEdge",
            WR::TombstoneNode { .. } => "TombstoneNode",
            WR::TombstoneEdge { .. } => "TombstoneEdge",
            WR::ManifestSwitch { .. } => "ManifestSwitch",
            WR::Checkpoint { .. } => "Checkpoint",
            WR::SetNodeProperty { .. } => "SetNodeProperty",
            WR::SetEdgeProperty { .. } => "SetEdgeProperty",
            WR::RemoveNodeProperty { .. } => "RemoveNodeProperty",
            WR::RemoveEdgeProperty { .. } => "RemoveEdgeProperty",
        }
    }
    fn variable_length(&self) -> bool {
        !matches!(
            self,
            WR::BeginTx { .. }
                | WR::CommitTx { .. }
                | WR::PageFree { .. }
                | WR::CreateNode { .. }
                | WR::AddNodeLabel { .. }
                | WR::RemoveNodeLabel { .. }
                | WR::CreateEdge { .. }
                | WR::TombstoneNode { .. }
                | WR::TombstoneEdge { .. }
                | WR::Checkpoint { .. }
        )
    }
    fn to_api(&self) -> WalRecord {
        match self.clone() {
            WR::BeginTx { txid } => WalRecord::BeginTx { txid },
            WR::CommitTx { txid } => WalRecord::CommitTx { txid },
            WR::PageWrite { page_id, page } => WalRecord::PageWrite { page_id, page: page.bytes() },
            WR::PageFree { page_id } => WalRecord::PageFree { page_id },
            WR::CreateLabel { name, label_id } => WalRecord::CreateLabel { name, label_id },
            WR::CreateNode { external_id, label_id, internal_id } => WalRecord::CreateNode { external_id, label_id, internal_id },
            WR::AddNodeLabel { node, label_id } => WalRecord::AddNodeLabel { node, label_id },
            WR::RemoveNodeLabel { node, label_id } => WalRecord::RemoveNodeLabel { node, label_id },
            WR::CreateEdge { src, rel, dst } => WalRecord::CreateEdge { src, rel, dst },
            WR::TombstoneNode { node } => WalRecord::TombstoneNode { node },
            WR::TombstoneEdge { src, rel, dst } => WalRecord::TombstoneEdge { src, rel, dst },
            WR::ManifestSwitch { epoch, segments, properties_root, stats_root } => WalRecord::ManifestSwitch {
                epoch,
                segments: segments.into_iter().map(|(id, meta_page_id)| SegmentPointer { id, meta_page_id }).collect(),
                properties_root,
                stats_root,
            },
            WR::Checkpoint { up_to_txid, epoch, properties_root, stats_root } => WalRecord::Checkpoint { up_to_txid, epoch, properties_root, stats_root },
            WR::SetNodeProperty { node, key, value } => WalRecord::SetNodeProperty { node, key, value: value.to_api() },
            WR::SetEdgeProperty { src, rel, dst, key, value } => WalRecord::SetEdgeProperty { src, rel, dst, key, value: value.to_api() },
            WR::RemoveNodeProperty { node, key } => WalRecord::RemoveNodeProperty { node, key },
            WR::RemoveEdgeProperty { src, rel, dst, key } => WalRecord::RemoveEdgeProperty { src, rel, dst, key },
        }
    }
}

/// Bit-exact comparison of two property values; `None` = same, `Some(kind)` = first difference.
fn value_diff(a: &PropertyValue, b: &PropertyValue) -> Option<String> {
    use PropertyValue as V;
    match (a, b) {
        (V::Null, V::Null) => None,
        (V::Bool(x), V::Bool(y)) => (x != y).then(|| "bool".to_string()),
        (V::Int(x), V::Int(y)) => (x != y).then(|| "int".to_string()),
        (V::DateTime(x), V::DateTime(y)) => (x != y).then(|| "datetime".to_string()),
        (V::Float(x), V::Float(y)) => {
            if x.to_bits() == y.to_bits() {
                None
            } else if x.is_nan() && y.is_nan() {
                Some("float-nan-payload".into())
            } else if *x == 0.0 && *y == 0.0 {
                Some("float-zero-sign".into())
            } else {
                Some("float".into())
            }
        }
        (V::String(x), V::String(y)) => (x != y).then(|| "string".to_string()),
        (V::Blob(x), V::Blob(y)) => (x != y).then(|| "blob".to_string()),
        (V::List(x), V::List(y)) => {
            if x.len() != y.len() {
                return Some("list-length".into());
            }
            x.iter().zip(y).find_map(|(p, q)| value_diff(p, q))
        }
        (V::Map(x), V::Map(y)) => {
            if x.len() != y.len() {
                return Some("map-length".into());
            }
            x.iter().zip(y).find_map(|((ka, va), (kb, vb))| if ka != kb { Some("map-key".to_string()) } else { value_diff(va, vb) })
        }
        _ => Some("kind".into()),
    }
}

/// Field-by-field comparison of WAL records (no `PartialEq`: it uses float equality).
fn wal_diff(a: &WalRecord, b: &WalRecord) -> Option<String> {
    use WalRecord as R;
    let ne = |c: bool, what: &str| c.then(|| what.to_string());
    match (a, b) {
        (R::BeginTx { txid: x }, R::BeginTx { txid: y }) | (R::CommitTx { txid: x }, R::CommitTx { txid: y }) => ne(x != y, "txid"),
        (R::PageWrite { page_id: x, page: p }, R::PageWrite { page_id: y, page: q }) => ne(x != y, "page_id").or(ne(p[..] != q[..], "page-bytes")),
        (R::PageFree { page_id: x }, R::PageFree { page_id: y }) => ne(x != y, "page_id"),
        (R::CreateLabel { name: n1, label_id: l1 }, R::CreateLabel { name: n2, label_id: l2 }) => ne(n1 != n2, "name").or(ne(l1 != l2, "label_id")),
        (R::CreateNode { external_id: e1, label_id: l1, internal_id: i1 }, R::CreateNode { external_id: e2, label_id: l2, internal_id: i2 }) => {
            ne(e1 != e2, "external_id").or(ne(l1 != l2, "label_id")).or(ne(i1 != i2, "internal_id"))
        }
        (R::AddNodeLabel { node: n1, label_id: l1 }, R::AddNodeLabel { node: n2, label_id: l2 })
        | (R::RemoveNodeLabel { node: n1, label_id: l1 }, R::RemoveNodeLabel { node: n2, label_id: l2 }) => ne(n1 != n2, "node").or(ne(l1 != l2, "label_id")),
        (R::CreateEdge { src: s1, rel: r1, dst: d1 }, R::CreateEdge { src: s2, rel: r2, dst: d2 })
        | (R::TombstoneEdge { src: s1, rel: r1, dst: d1 }, R::TombstoneEdge { src: s2, rel: r2, dst: d2 }) => ne((s1, r1, d1) != (s2, r2, d2), "edge-key"),
        (R::TombstoneNode { node: x }, R::TombstoneNode { node: y }) => ne(x != y, "node"),
        (
            R::ManifestSwitch { epoch: e1, segments: s1, properties_root: p1, stats_root: t1 },
            R::ManifestSwitch { epoch: e2, segments: s2, properties_root: p2, stats_root: t2 },
        ) => ne(e1 != e2, "epoch")
            .or(ne(s1.len() != s2.len() || s1.iter().zip(s2).any(|(a, b)| a.id != b.id || a.meta_page_id != b.meta_page_id), "segments"))
            .or(ne(p1 != p2, "properties_root"))
            .or(ne(t1 != t2, "stats_root")),
        (
            R::Checkpoint { up_to_txid: u1, epoch: e1, properties_root: p1, stats_root: t1 },
            R::Checkpoint { up_to_txid: u2, epoch: e2, properties_root: p2, stats_root: t2 },
        ) => ne((u1, e1, p1, t1) != (u2, e2, p2, t2), "checkpoint-fields"),
        (R::SetNodeProperty { node: n1, key: k1, value: v1 }, R::SetNodeProperty { node: n2, key: k2, value: v2 }) => {
            ne(n1 != n2, "node").or(ne(k1 != k2, "key")).or(value_diff(v1, v2).map(|d| format!("value:{d}")))
        }
        (R::SetEdgeProperty { src: s1, rel: r1, dst: d1, key: k1, value: v1 }, R::SetEdgeProperty { src: s2, rel: r2, dst: d2, key: k2, value: v2 }) => {
            ne((s1, r1, d1) != (s2, r2, d2), "edge-key").or(ne(k1 != k2, "key")).or(value_diff(v1, v2).map(|d| format!("value:{d}")))
        }
        (R::RemoveNodeProperty { node: n1, key: k1 }, R::RemoveNodeProperty { node: n2, key: k2 }) => ne(n1 != n2, "node").or(ne(k1 != k2, "key")),
        (R::RemoveEdgeProperty { src: s1, rel: r1, dst: d1, key: k1 }, R::RemoveEdgeProperty { src: s2, rel: r2, dst: d2, key: k2 }) => {
            ne((s1, r1, d1) != (s2, r2, d2), "edge-key").or(ne(k1 != k2, "key"))
        }
        _ => Some("variant".into()),
    }
}

// =========================================================================== generators

fn key_string() -> impl Strategy<Value = String> + Clone {
    prop_oneof![3 => pv::small_string(), 1 => "[a-z]{1,40}", 1 => "\\PC{0,20}"]
}

fn u64_b() -> impl Strategy<Value = u64> + Clone {
    prop_oneof![3 => any::<u64>(), 3 => 0u64..1000, 1 => prop::sample::select(vec![0u64, 1, u64::MAX, u64::MAX - 1, 1 << 32, (1 << 32) - 1, 1 << 63])]
}

fn u32_b() -> impl Strategy<Value = u32> + Clone {
    prop_oneof![3 => any::<u32>(), 3 => 0u32..1000, 1 => prop::sample::select(vec![0u32, 1, u32::MAX, u32::MAX - 1, 1 << 31, 65535, 65536])]
}

/// Values for the round trip: nested (depth <= `depth`), wide (up to 64 entries), chains.
fn rt_value(depth: u32) -> BoxedStrategy<PV> {
    let wide = prop_oneof![
        prop::collection::vec(pv::scalar_pv(), 0..=64).prop_map(PV::List),
        prop::collection::btree_map(key_string(), pv::scalar_pv(), 0..=64).prop_map(PV::Map),
    ];
    let chain = (pv::scalar_pv(), prop::collection::vec(any::<bool>(), 1..=48usize)).prop_map(|(leaf, shape)| {
        shape.into_iter().fold(leaf, |v, list| if list { PV::List(vec![v]) } else { PV::Map(BTreeMap::from([("k".to_string(), v)])) })
    });
    let floats = prop::collection::vec(pv::f64_bits_any().prop_map(PV::Float), 1..8).prop_map(PV::List);
    prop_oneof![
        6 => pv::any_pv(depth, 8),
        2 => wide,
        1 => chain,
        1 => floats,
        2 => pv::scalar_pv(),
    ]
    .boxed()
}

fn wal_record(depth: u32) -> BoxedStrategy<WR> {
    let page = (any::<u8>(), prop::collection::vec((any::<u16>(), any::<u8>()), 0..12)).prop_map(|(fill, patches)| PageSpec { fill, patches });
    let edge = (u32_b(), u32_b(), u32_b());
    prop_oneof![
        1 => u64_b().prop_map(|txid| WR::BeginTx { txid }),
        1 => u64_b().prop_map(|txid| WR::CommitTx { txid }),
        2 => (u64_b(), page).prop_map(|(page_id, page)| WR::PageWrite { page_id, page }),
        1 => u64_b().prop_map(|page_id| WR::PageFree { page_id }),
        2 => (key_string(), u32_b()).prop_map(|(name, label_id)| WR::CreateLabel { name, label_id }),
        1 => (u64_b(), u32_b(), u32_b()).prop_map(|(external_id, label_id, internal_id)| WR::CreateNode { external_id, label_id, internal_id }),
        1 => (u32_b(), u32_b()).prop_map(|(node, label_id)| WR::AddNodeLabel { node, label_id }),
        1 => (u32_b(), u32_b()).prop_map(|(node, label_id)| WR::RemoveNodeLabel { node, label_id }),
        1 => edge.clone().prop_map(|(src, rel, dst)| WR::CreateEdge { src, rel, dst }),
        1 => u32_b().prop_map(|node| WR::TombstoneNode { node }),
        1 => edge.clone().prop_map(|(src, rel, dst)| WR::TombstoneEdge { src, rel, dst }),
        3 => (u64_b(), prop::collection::vec((u64_b(), u64_b()), 0..6), u64_b(), u64_b())
            .prop_map(|(epoch, segments, properties_root, stats_root)| WR::ManifestSwitch { epoch, segments, properties_root, stats_root }),
        1 => (u64_b(), u64_b(), u64_b(), u64_b()).prop_map(|(up_to_txid, epoch, properties_root, stats_root)| WR::Checkpoint { up_to_txid, epoch, properties_root, stats_root }),
        5 => (u32_b(), key_string(), rt_value(depth)).prop_map(|(node, key, value)| WR::SetNodeProperty { node, key, value }),
        4 => (edge.clone(), key_string(), rt_value(depth)).prop_map(|((src, rel, dst), key, value)| WR::SetEdgeProperty { src, rel, dst, key, value }),
        1 => (u32_b(), key_string()).prop_map(|(node, key)| WR::RemoveNodeProperty { node, key }),
        1 => (edge, key_string()).prop_map(|((src, rel, dst), key)| WR::RemoveEdgeProperty { src, rel, dst, key }),
    ]
    .boxed()
}

// =========================================================================== round trips

fn check_value_roundtrip(v: &PV) -> CaseResult {
    let api = v.to_api();
    let enc = api.encode();
    let dec = match PropertyValue::decode(&enc) {
        Ok(d) => d,
        Err(e) => fail!("value-roundtrip:decode-error", "decode(encode(v)) fails with {e}: v={} enc={}", short(v), hex(&enc)),
    };
    if let Some(d) = value_diff(&api, &dec) {
        fail!(format!("value-roundtrip:differs:{d}"), "decode(encode(v)) != v ({d}): v={} decoded={} enc={}", short(v), short(&PV::from_api(&dec)), hex(&enc));
    }
    // independent of the comparator: the serializable mirror (floats as bits) must agree too
    if PV::from_api(&dec) != *v {
        fail!("value-roundtrip:differs:mirror", "mirror of decoded value differs: v={} decoded={}", short(v), short(&PV::from_api(&dec)));
    }
    let enc2 = dec.encode();
    if enc2 != enc {
        fail!("value-roundtrip:re-encoding-differs", "encode(decode(encode(v))) != encode(v): v={} enc={} enc2={}", short(v), hex(&enc), hex(&enc2));
    }
    Ok(())
}

fn check_wal_roundtrip(r: &WR) -> CaseResult {
    let api = r.to_api();
    let enc = match api.verif_encode_body() {
        Ok(e) => e,
        Err(e) => fail!(format!("wal-roundtrip:encode-error:{}", r.variant()), "encode_body fails with {e}: {}", short(r)),
    };
    let dec = match WalRecord::verif_decode_body(&enc) {
        Ok(d) => d,
        Err(e) => fail!(format!("wal-roundtrip:decode-error:{}", r.variant()), "decode_body(encode_body(r)) fails with {e}: r={} enc={}", short(r), hex(&enc)),
    };
    if let Some(d) = wal_diff(&api, &dec) {
        fail!(format!("wal-roundtrip:differs:{}:{d}", r.variant()), "decode_body(encode_body(r)) != r ({d}): r={} decoded={:?}", short(r), dec_short(&dec));
    }
    let enc2 = dec.verif_encode_body().map_err(|e| Failure::new("wal-roundtrip:encode-error:second", format!("{e}")))?;
    if enc2 != enc {
        fail!(format!("wal-roundtrip:re-encoding-differs:{}", r.variant()), "re-encoding differs for r={}", short(r));
    }
    Ok(())
}

fn short<T: std::fmt::Debug>(v: &T) -> String {
    let s = format!("{v:?}");
    if s.len() > 600 { format!("{}…", &s[..s.char_indices().take_while(|(i, _)| *i < 600).last().map(|x| x.0).unwrap_or(0)]) } else { s }
}

fn dec_short(r: &WalRecord) -> String {
    match r {
        WalRecord::PageWrite { page_id, .. } => format!("PageWrite {{ page_id: {page_id}, page: .. }}"),
        r => short(r),
    }
}

fn hex(b: &[u8]) -> String {
    let mut s: String = b.iter().take(96).map(|x| format!("{x:02x}")).collect();
    if b.len() > 96 {
        s.push_str(&format!("…({} bytes)", b.len()));
    }
    s
}

/// All scalars over a tiny alphabet.
fn tiny_scalars() -> Vec<PV> {
    let mut v = vec![PV::Null, PV::Bool(false), PV::Bool(true)];
    for i in [0i64, 1, -1, i64::MIN, i64::MAX] {
        v.push(PV::Int(i));
    }
    for i in [0i64, -1, i64::MIN] {
        v.push(PV::DateTime(i));
    }
    for bits in [
        0u64,                  // +0.0
        1 << 63,               // -0.0
        0x7ff8_0000_0000_0000, // canonical quiet NaN
        0xfff8_0000_0000_0000, // negative quiet NaN
        0x7ff8_0000_0000_0001, // quiet NaN with payload
        0x7ff0_0000_0000_0001, // signalling NaN
        0xfff7_ffff_ffff_ffff, // negative signalling NaN, full payload
        0x7ff0_0000_0000_0000, // +inf
        0xfff0_0000_0000_0000, // -inf
        1,                     // smallest subnormal
        0x3ff0_0000_0000_0000, // 1.0
    ] {
        v.push(PV::Float(bits));
    }
    for s in ["", "a", "é", "\0", "\u{10ffff}"] {
        v.push(PV::Str(s.to_string()));
    }
    for b in [vec![], vec![0u8], vec![0xff], vec![0, 0xff, 7]] {
        v.push(PV::Blob(b));
    }
    v
}

#[derive(Debug, Clone, Serialize, Deserialize)]
pub enum Small {
    /// every scalar, every container of <= 2 scalars, every container of one such container
    Values,
    /// every WAL variant over boundary field values, property records over all small values
    Records,
}

fn small_values() -> Vec<PV> {
    let sc = tiny_scalars();
    let keys = ["", "a", "é"];
    let mut level1: Vec<PV> = vec![PV::List(vec![]), PV::Map(BTreeMap::new())];
    for a in &sc {
        level1.push(PV::List(vec![a.clone()]));
        for k in keys {
            level1.push(PV::Map(BTreeMap::from([(k.to_string(), a.clone())])));
        }
    }
    for a in &sc {
        for b in &sc {
            level1.push(PV::List(vec![a.clone(), b.clone()]));
        }
    }
    for a in sc.iter().step_by(3) {
        for b in sc.iter().step_by(2) {
            level1.push(PV::Map(BTreeMap::from([("a".to_string(), a.clone()), ("b".to_string(), b.clone())])));
        }
    }
    let mut all = sc.clone();
    all.extend(level1.iter().cloned());
    // one more level around every level-1 value
    for v in &level1 {
        all.push(PV::List(vec![v.clone()]));
        all.push(PV::Map(BTreeMap::from([("k".to_string(), v.clone())])));
    }
    all
}

fn small_records() -> Vec<WR> {
    let u64s = [0u64, 1, u64::MAX, 1 << 32];
    let u32s = [0u32, 1, u32::MAX];
    let strs = ["", "a", "é\0", "name"];
    let mut v = Vec::new();
    for &x in &u64s {
        v.push(WR::BeginTx { txid: x });
        v.push(WR::CommitTx { txid: x });
        v.push(WR::PageFree { page_id: x });
        for fill in [0u8, 0xff, 0x5a] {
            v.push(WR::PageWrite { page_id: x, page: PageSpec { fill, patches: vec![(0, 1), (65535, 2)] } });
        }
        for &y in &u32s {
            for &z in &u32s {
                v.push(WR::CreateNode { external_id: x, label_id: y, internal_id: z });
            }
        }
        for &y in &u64s {
            v.push(WR::Checkpoint { up_to_txid: x, epoch: y, properties_root: y ^ 1, stats_root: x ^ 2 });
            // every segment count 0..=4: the decoder's length checks depend on it
            for n in 0..=4u64 {
                v.push(WR::ManifestSwitch { epoch: x, segments: (0..n).map(|i| (y.wrapping_add(i), x ^ i)).collect(), properties_root: y, stats_root: x });
            }
        }
    }
    for &a in &u32s {
        v.push(WR::TombstoneNode { node: a });
        for &b in &u32s {
            v.push(WR::AddNodeLabel { node: a, label_id: b });
            v.push(WR::RemoveNodeLabel { node: a, label_id: b });
            for &c in &u32s {
                v.push(WR::CreateEdge { src: a, rel: b, dst: c });
                v.push(WR::TombstoneEdge { src: a, rel: b, dst: c });
            }
        }
        for s in strs {
            v.push(WR::CreateLabel { name: s.to_string(), label_id: a });
            v.push(WR::RemoveNodeProperty { node: a, key: s.to_string() });
            v.push(WR::RemoveEdgeProperty { src: a, rel: 1, dst: a, key: s.to_string() });
        }
    }
    let vals = small_values();
    for (i, val) in vals.iter().enumerate() {
        let key = strs[i % strs.len()].to_string();
        if i % 2 == 0 {
            v.push(WR::SetNodeProperty { node: u32s[i % 3], key, value: val.clone() });
        } else {
            v.push(WR::SetEdgeProperty { src: u32s[i % 3], rel: 7, dst: u32s[(i / 3) % 3], key, value: val.clone() });
        }
    }
    v
}

// =========================================================================== nesting depth

#[derive(Debug, Clone, Serialize, Deserialize)]
pub struct DepthCase {
    depth: u32,
    maps: bool,
    in_wal: bool,
    /// what sits at the bottom and beside the chain: 0 = a scalar in the innermost container,
    /// 1 = the innermost container is an empty list, 2 = an empty map, 3 = every level also
    /// holds a scalar before the nested child, 4 = a scalar after it
    #[serde(default)]
    shape: u8,
}

/// The writer and the reader must agree on how deep values may nest: whatever the WAL agrees
/// to encode must decode to the same value; a bare value up to the documented limit too.
fn check_depth(c: &DepthCase, obs: &mut Obs) -> CaseResult {
    let (mut v, levels) = match c.shape {
        1 => (PropertyValue::List(vec![]), c.depth - 1),
        2 => (PropertyValue::Map(BTreeMap::new()), c.depth - 1),
        _ => (PropertyValue::Int(7), c.depth),
    };
    for i in 0..levels {
        v = if c.maps && i % 2 == 0 {
            let mut m = BTreeMap::from([("k".to_string(), v)]);
            match c.shape {
                3 => {
                    m.insert("a".to_string(), PropertyValue::Int(1));
                }
                4 => {
                    m.insert("z".to_string(), PropertyValue::Int(1));
                }
                _ => {}
            }
            PropertyValue::Map(m)
        } else {
            match c.shape {
                3 => PropertyValue::List(vec![PropertyValue::Int(1), v]),
                4 => PropertyValue::List(vec![v, PropertyValue::Int(1)]),
                _ => PropertyValue::List(vec![v]),
            }
        };
    }
    obs.nontrivial();
    obs.class(&format!("shape:{}", c.shape));
    if c.in_wal {
        let rec = WalRecord::SetNodeProperty { node: 1, key: "p".into(), value: v };
        match rec.verif_encode_body() {
            Err(_) => {
                obs.class("wal:refused-at-encode");
                if c.depth <= 64 {
                    fail!("wal-roundtrip:encode-error:shallow-value", "a value nested only {} deep is refused by encode_body", c.depth);
                }
            }
            Ok(bytes) => {
                obs.class("wal:encoded");
                match WalRecord::verif_decode_body(&bytes) {
                    Err(e) => fail!("wal-roundtrip:decode-error:nesting", "encode_body accepts a value nested {} deep but decode_body rejects the record: {e}", c.depth),
                    Ok(back) => {
                        if let Some(d) = wal_diff(&rec, &back) {
                            fail!(format!("wal-roundtrip:differs:SetNodeProperty:{d}"), "record with a value nested {} deep differs after the round trip: {d}", c.depth);
                        }
                    }
                }
            }
        }
    } else {
        let bytes = v.encode();
        match PropertyValue::decode(&bytes) {
            Ok(back) => {
                obs.class("value:decoded");
                if let Some(d) = value_diff(&v, &back) {
                    fail!(format!("value-roundtrip:differs:{d}"), "value nested {} deep differs after the round trip: {d}", c.depth);
                }
            }
            Err(e) => {
                obs.class("value:beyond-decoder-limit");
                if c.depth as usize <= DOCUMENTED_DEPTH_LIMIT {
                    fail!("value-roundtrip:decode-error:nesting", "value nested {} deep (limit {DOCUMENTED_DEPTH_LIMIT}) is rejected by decode: {e}", c.depth);
                }
            }
        }
    }
    Ok(())
}

/// `nervusdb_api::MAX_NESTING_DEPTH` (kept as a literal so that the harness also builds
/// against a tree without that constant)
const DOCUMENTED_DEPTH_LIMIT: usize = 128;

// =========================================================================== robustness cases

#[derive(Debug, Clone, Copy, Serialize, Deserialize, PartialEq, Eq, Hash)]
pub enum Target {
    Value,
    Wal,
}

impl Target {
    fn name(self) -> &'static str {
        match self {
            Target::Value => "value",
            Target::Wal => "wal",
        }
    }
}

#[derive(Debug, Clone, Serialize, Deserialize, PartialEq, Eq, Hash)]
pub enum Tok {
    Byte(u8),
    /// little-endian u32 with a small value (a plausible count or length)
    Small(u8),
    /// little-endian u32 `2^k` or `2^k - 1`
    Big { k: u8, minus_one: bool },
    U64(u64),
    Bytes(Vec<u8>),
    /// length-prefixed string (u32 length)
    LenStr(String),
    /// a complete valid value encoding
    Val(PV),
}

#[derive(Debug, Clone, Serialize, Deserialize, PartialEq, Eq, Hash)]
pub enum Mutation {
    FlipBit { at: u16, bit: u8 },
    SetByte { at: u16, v: u8 },
    /// overwrite 4 bytes with `2^k` or `2^k - 1` (little endian)
    SetU32 { at: u16, k: u8, minus_one: bool },
    Truncate { at: u16 },
    Insert { at: u16, bytes: Vec<u8> },
    Remove { at: u16, len: u8 },
    DupRange { at: u16, len: u8 },
}

#[derive(Debug, Clone, Copy, Serialize, Deserialize, PartialEq, Eq, Hash)]
pub enum HugeAt {
    ListCount,
    MapCount,
    StringLen,
    BlobLen,
    MapKeyLen,
    /// list count inside `n` enclosing one-element lists
    NestedListCount(u8),
    WalLabelNameLen,
    WalPropKeyLen,
    WalEdgePropKeyLen,
    WalRemoveKeyLen,
    WalManifestCount,
    WalPropValueListCount,
    WalPropValueMapCount,
}

#[derive(Debug, Clone, Copy, Serialize, Deserialize, PartialEq, Eq, Hash)]
pub enum DeepShape {
    Lists,
    Maps,
    Alternating,
}

#[derive(Debug, Clone, Serialize, Deserialize, PartialEq, Eq, Hash)]
pub enum ByteCase {
    Raw { target: Target, bytes: Vec<u8> },
    Tokens { target: Target, toks: Vec<Tok> },
    MutValue { v: PV, in_wal: bool, muts: Vec<Mutation> },
    MutWal { r: WR, muts: Vec<Mutation> },
    /// a count / length field of `2^k` or `2^k - 1` followed by `tail`
    Huge { at: HugeAt, k: u8, minus_one: bool, tail: Vec<u8> },
    /// `depth` nested one-element containers; `closed`: innermost element present
    Deep { target: Target, shape: DeepShape, depth: u32, closed: bool },
}

impl ByteCase {
    fn class(&self) -> &'static str {
        match self {
            ByteCase::Raw { .. } => "arbitrary-bytes",
            ByteCase::Tokens { .. } => "token-soup",
            ByteCase::MutValue { .. } | ByteCase::MutWal { .. } => "mutated-encoding",
            ByteCase::Huge { .. } => "huge-count",
            ByteCase::Deep { .. } => "deep-nesting",
        }
    }
    fn target(&self) -> Target {
        match self {
            ByteCase::Raw { target, .. } | ByteCase::Tokens { target, .. } | ByteCase::Deep { target, .. } => *target,
            ByteCase::MutValue { in_wal, .. } => {
                if *in_wal {
                    Target::Wal
                } else {
                    Target::Value
                }
            }
            ByteCase::MutWal { .. } => Target::Wal,
            ByteCase::Huge { at, .. } => match at {
                HugeAt::ListCount | HugeAt::MapCount | HugeAt::StringLen | HugeAt::BlobLen | HugeAt::MapKeyLen | HugeAt::NestedListCount(_) => Target::Value,
                _ => Target::Wal,
            },
        }
    }
}

fn big(k: u8, minus_one: bool) -> u32 {
    let k = (k % 33) as u32;
    let v: u64 = 1u64 << k;
    (if minus_one { v - 1 } else { v.min(u32::MAX as u64) }) as u32
}

fn apply_mutations(mut b: Vec<u8>, muts: &[Mutation]) -> Vec<u8> {
    for m in muts {
        match m {
            Mutation::FlipBit { at, bit } if !b.is_empty() => {
                let i = idx(*at, b.len());
                b[i] ^= 1 << (bit % 8);
            }
            Mutation::SetByte { at, v } if !b.is_empty() => {
                let i = idx(*at, b.len());
                b[i] = *v;
            }
            Mutation::SetU32 { at, k, minus_one } if b.len() >= 4 => {
                let i = idx(*at, b.len() - 3);
                b[i..i + 4].copy_from_slice(&big(*k, *minus_one).to_le_bytes());
            }
            Mutation::Truncate { at } => {
                let i = idx(*at, b.len() + 1);
                b.truncate(i);
            }
            Mutation::Insert { at, bytes } => {
                let i = idx(*at, b.len() + 1);
                let tail = b.split_off(i);
                b.extend_from_slice(bytes);
                b.extend_from_slice(&tail);
            }
            Mutation::Remove { at, len } if !b.is_empty() => {
                let i = idx(*at, b.len());
                let e = (i + *len as usize).min(b.len());
                b.drain(i..e);
            }
            Mutation::DupRange { at, len } if !b.is_empty() => {
                let i = idx(*at, b.len());
                let e = (i + *len as usize).min(b.len());
                let dup = b[i..e].to_vec();
                let tail = b.split_off(e);
                b.extend_from_slice(&dup);
                b.extend_from_slice(&tail);
            }
            _ => {}
        }
    }
    b
}

/// SetNodeProperty body prefix: type, node, empty key; the value encoding follows.
fn wal_prop_prefix() -> Vec<u8> {
    let mut b = vec![11u8];
    b.extend_from_slice(&7u32.to_le_bytes());
    b.extend_from_slice(&0u32.to_le_bytes());
    b
}

pub fn materialize(c: &ByteCase) -> Vec<u8> {
    match c {
        ByteCase::Raw { bytes, .. } => bytes.clone(),
        ByteCase::Tokens { toks, .. } => {
            let mut b = Vec::new();
            for t in toks {
                match t {
                    Tok::Byte(x) => b.push(*x),
                    Tok::Small(n) => b.extend_from_slice(&(*n as u32).to_le_bytes()),
                    Tok::Big { k, minus_one } => b.extend_from_slice(&big(*k, *minus_one).to_le_bytes()),
                    Tok::U64(x) => b.extend_from_slice(&x.to_le_bytes()),
                    Tok::Bytes(x) => b.extend_from_slice(x),
                    Tok::LenStr(s) => {
                        b.extend_from_slice(&(s.len() as u32).to_le_bytes());
                        b.extend_from_slice(s.as_bytes());
                    }
                    Tok::Val(v) => b.extend_from_slice(&v.to_api().encode()),
                }
            }
            b
        }
        ByteCase::MutValue { v, in_wal, muts } => {
            let enc = v.to_api().encode();
            if *in_wal {
                // mutate only the value part so that the record header stays decodable
                let mut b = wal_prop_prefix();
                b.extend_from_slice(&apply_mutations(enc, muts));
                b
            } else {
                apply_mutations(enc, muts)
            }
        }
        ByteCase::MutWal { r, muts } => apply_mutations(r.to_api().verif_encode_body().unwrap_or_default(), muts),
        ByteCase::Huge { at, k, minus_one, tail } => {
            let n = big(*k, *minus_one).to_le_bytes();
            let mut b = Vec::new();
            match at {
                HugeAt::ListCount => b.push(7),
                HugeAt::MapCount => b.push(8),
                HugeAt::StringLen => b.push(4),
                HugeAt::BlobLen => b.push(6),
                HugeAt::MapKeyLen => {
                    b.push(8);
                    b.extend_from_slice(&1u32.to_le_bytes());
                }
                HugeAt::NestedListCount(d) => {
                    for _ in 0..*d {
                        b.push(7);
                        b.extend_from_slice(&1u32.to_le_bytes());
                    }
                    b.push(7);
                }
                HugeAt::WalLabelNameLen => {
                    b.push(15);
                    b.extend_from_slice(&3u32.to_le_bytes());
                }
                HugeAt::WalPropKeyLen => {
                    b.push(11);
                    b.extend_from_slice(&3u32.to_le_bytes());
                }
                HugeAt::WalEdgePropKeyLen => {
                    b.push(12);
                    b.extend_from_slice(&[0u8; 12]);
                }
                HugeAt::WalRemoveKeyLen => {
                    b.push(13);
                    b.extend_from_slice(&3u32.to_le_bytes());
                }
                HugeAt::WalManifestCount => {
                    b.push(9);
                    b.extend_from_slice(&5u64.to_le_bytes());
                }
                HugeAt::WalPropValueListCount => {
                    b = wal_prop_prefix();
                    b.push(7);
                }
                HugeAt::WalPropValueMapCount => {
                    b = wal_prop_prefix();
                    b.push(8);
                }
            }
            b.extend_from_slice(&n);
            b.extend_from_slice(tail);
            b
        }
        ByteCase::Deep { target, shape, depth, closed } => {
            let mut b = if *target == Target::Wal { wal_prop_prefix() } else { Vec::new() };
            b.reserve(*depth as usize * 9 + 1);
            for i in 0..*depth {
                let list = match shape {
                    DeepShape::Lists => true,
                    DeepShape::Maps => false,
                    DeepShape::Alternating => i % 2 == 0,
                };
                if list {
                    b.push(7);
                    b.extend_from_slice(&1u32.to_le_bytes());
                } else {
                    b.push(8);
                    b.extend_from_slice(&1u32.to_le_bytes());
                    b.extend_from_slice(&0u32.to_le_bytes()); // empty key
                }
            }
            if *closed {
                b.push(0);
            }
            b
        }
    }
}

/// Does the decoder get past the top-level header into variable-length content?
fn enters_level(t: Target, b: &[u8]) -> bool {
    let u32at = |o: usize| b.get(o..o + 4).map(|s| u32::from_le_bytes(s.try_into().unwrap()));
    match t {
        Target::Value => matches!(b.first(), Some(7 | 8)) && b.len() >= 6 && u32at(1).unwrap_or(0) >= 1,
        Target::Wal => match b.first() {
            Some(11 | 13 | 15) => b.len() >= 9,
            Some(12 | 14) => b.len() >= 17,
            Some(9) => b.len() >= 29,
            _ => false,
        },
    }
}

fn mutation() -> impl Strategy<Value = Mutation> {
    prop_oneof![
        3 => (any::<u16>(), 0u8..8).prop_map(|(at, bit)| Mutation::FlipBit { at, bit }),
        3 => (any::<u16>(), prop_oneof![any::<u8>(), 0u8..20]).prop_map(|(at, v)| Mutation::SetByte { at, v }),
        3 => (any::<u16>(), 0u8..33, any::<bool>()).prop_map(|(at, k, minus_one)| Mutation::SetU32 { at, k, minus_one }),
        2 => any::<u16>().prop_map(|at| Mutation::Truncate { at }),
        2 => (any::<u16>(), prop::collection::vec(any::<u8>(), 1..6)).prop_map(|(at, bytes)| Mutation::Insert { at, bytes }),
        2 => (any::<u16>(), 1u8..9).prop_map(|(at, len)| Mutation::Remove { at, len }),
        1 => (any::<u16>(), 1u8..12).prop_map(|(at, len)| Mutation::DupRange { at, len }),
    ]
}

fn tok(target: Target) -> impl Strategy<Value = Tok> {
    let tag = match target {
        Target::Value => prop_oneof![6 => 0u8..9, 1 => any::<u8>()].boxed(),
        Target::Wal => prop_oneof![6 => 0u8..19, 1 => any::<u8>()].boxed(),
    };
    prop_oneof![
        6 => tag.prop_map(Tok::Byte),
        5 => (0u8..5).prop_map(Tok::Small),
        1 => (0u8..33, any::<bool>()).prop_map(|(k, minus_one)| Tok::Big { k, minus_one }),
        1 => u64_b().prop_map(Tok::U64),
        2 => prop::collection::vec(any::<u8>(), 0..10).prop_map(Tok::Bytes),
        2 => pv::small_string().prop_map(Tok::LenStr),
        2 => pv::any_pv(2, 3).prop_map(Tok::Val),
    ]
}

fn byte_case(deep_depths: Vec<u32>) -> impl Strategy<Value = ByteCase> {
    let target = prop_oneof![Just(Target::Value), Just(Target::Wal)];
    let raw = (target.clone(), prop::collection::vec(any::<u8>(), 0..64), prop::option::of(0u8..19)).prop_map(|(target, mut bytes, first)| {
        // bias the first byte to a valid tag / record type
        if let (Some(f), Some(b0)) = (first, bytes.first_mut()) {
            *b0 = f;
        }
        ByteCase::Raw { target, bytes }
    });
    let toks = target.clone().prop_flat_map(|t| prop::collection::vec(tok(t), 1..16).prop_map(move |toks| ByteCase::Tokens { target: t, toks }));
    let mutv = (rt_value(4), any::<bool>(), prop::collection::vec(mutation(), 1..4)).prop_map(|(v, in_wal, muts)| ByteCase::MutValue { v, in_wal, muts });
    let mutw = (wal_record(3), prop::collection::vec(mutation(), 1..4)).prop_map(|(r, muts)| ByteCase::MutWal { r, muts });
    let at = prop_oneof![
        3 => Just(HugeAt::ListCount),
        2 => Just(HugeAt::MapCount),
        1 => Just(HugeAt::StringLen),
        1 => Just(HugeAt::BlobLen),
        1 => Just(HugeAt::MapKeyLen),
        2 => (1u8..6).prop_map(HugeAt::NestedListCount),
        1 => Just(HugeAt::WalLabelNameLen),
        1 => Just(HugeAt::WalPropKeyLen),
        1 => Just(HugeAt::WalEdgePropKeyLen),
        1 => Just(HugeAt::WalRemoveKeyLen),
        3 => Just(HugeAt::WalManifestCount),
        2 => Just(HugeAt::WalPropValueListCount),
        1 => Just(HugeAt::WalPropValueMapCount),
    ];
    let huge = (at, 0u8..33, any::<bool>(), prop::collection::vec(prop_oneof![Just(0u8), any::<u8>()], 0..48)).prop_map(|(at, k, minus_one, tail)| ByteCase::Huge { at, k, minus_one, tail });
    let deep = (
        target,
        prop_oneof![Just(DeepShape::Lists), Just(DeepShape::Maps), Just(DeepShape::Alternating)],
        prop::sample::select(deep_depths),
        any::<bool>(),
    )
        .prop_map(|(target, shape, depth, closed)| ByteCase::Deep { target, shape, depth, closed });
    prop_oneof![
        5 => raw,
        5 => toks,
        4 => mutv,
        3 => mutw,
        2 => huge,
        1 => deep,
    ]
}

// =========================================================================== worker (child side)

#[derive(Debug, Clone, Serialize, Deserialize)]
struct WorkerResult {
    /// "ok" | "err" | "panic"
    outcome: String,
    /// panic location / error text
    detail: String,
    len: usize,
    peak: usize,
    largest: usize,
    /// round trip of a successfully decoded value: None = not applicable or fine
    unstable: Option<String>,
    /// nesting depth of the decoded value (value target, and property records)
    depth: usize,
}

/// nesting depth, capped (the harness itself must not recurse without bound)
fn api_depth(v: &PropertyValue) -> usize {
    fn go(v: &PropertyValue, left: usize) -> usize {
        if left == 0 {
            return 0;
        }
        match v {
            PropertyValue::List(l) => 1 + l.iter().map(|x| go(x, left - 1)).max().unwrap_or(0),
            PropertyValue::Map(m) => 1 + m.values().map(|x| go(x, left - 1)).max().unwrap_or(0),
            _ => 0,
        }
    }
    go(v, 256)
}

fn execute(target: Target, bytes: &[u8]) -> WorkerResult {
    let mut res = WorkerResult { outcome: String::new(), detail: String::new(), len: bytes.len(), peak: 0, largest: 0, unstable: None, depth: 0 };
    match target {
        Target::Value => {
            alloc_count::start();
            let r = engine::catch(|| PropertyValue::decode(bytes));
            let (peak, largest) = alloc_count::stop();
            res.peak = peak;
            res.largest = largest;
            match r {
                Err((loc, msg)) => {
                    res.outcome = "panic".into();
                    res.detail = format!("{loc}: {msg}");
                }
                Ok(Err(e)) => {
                    res.outcome = "err".into();
                    res.detail = e.to_string();
                }
                Ok(Ok(v)) => {
                    res.outcome = "ok".into();
                    res.depth = api_depth(&v);
                    // fuzz oracle: whatever decodes must survive its own round trip bit-exactly
                    let again = engine::catch(|| PropertyValue::decode(&v.encode()));
                    res.unstable = match again {
                        Err((loc, msg)) => Some(format!("panic at {loc}: {msg}")),
                        Ok(Err(e)) => Some(format!("decode(encode(v)) fails: {e}")),
                        Ok(Ok(v2)) => value_diff(&v, &v2).map(|d| format!("decode(encode(v)) differs: {d}")),
                    };
                }
            }
        }
        Target::Wal => {
            alloc_count::start();
            let r = engine::catch(|| WalRecord::verif_decode_body(bytes));
            let (peak, largest) = alloc_count::stop();
            res.peak = peak;
            res.largest = largest;
            match r {
                Err((loc, msg)) => {
                    res.outcome = "panic".into();
                    res.detail = format!("{loc}: {msg}");
                }
                Ok(Err(e)) => {
                    res.outcome = "err".into();
                    res.detail = e.to_string();
                }
                Ok(Ok(rec)) => {
                    res.outcome = "ok".into();
                    if let WalRecord::SetNodeProperty { value, .. } | WalRecord::SetEdgeProperty { value, .. } = &rec {
                        res.depth = api_depth(value);
                    }
                    let again = engine::catch(|| rec.verif_encode_body().and_then(|b| WalRecord::verif_decode_body(&b)));
                    res.unstable = match again {
                        Err((loc, msg)) => Some(format!("panic at {loc}: {msg}")),
                        Ok(Err(e)) => Some(format!("decode(encode(r)) fails: {e}")),
                        Ok(Ok(r2)) => wal_diff(&rec, &r2).map(|d| format!("decode(encode(r)) differs: {d}")),
                    };
                }
            }
        }
    }
    res
}

/// `check --worker c25`: reads `<id> <case json>` lines, prints `BEGIN <id>` before and
/// `END <id> <result json>` after executing each.
pub fn worker_main(_args: &[String]) -> i32 {
    engine::install_panic_hook();
    let stdin = std::io::stdin();
    let stdout = std::io::stdout();
    let mut line = String::new();
    loop {
        line.clear();
        match stdin.lock().read_line(&mut line) {
            Ok(0) | Err(_) => return 0,
            Ok(_) => {}
        }
        let l = line.trim_end();
        if l.is_empty() {
            continue;
        }
        let Some((id, json)) = l.split_once(' ') else { return 3 };
        let Ok(case) = serde_json::from_str::<ByteCase>(json) else {
            let mut o = stdout.lock();
            let _ = writeln!(o, "BADCASE {id}");
            let _ = o.flush();
            continue;
        };
        let bytes = materialize(&case);
        {
            let mut o = stdout.lock();
            let _ = writeln!(o, "BEGIN {id}");
            let _ = o.flush();
        }
        let res = execute(case.target(), &bytes);
        let mut o = stdout.lock();
        let _ = writeln!(o, "END {id} {}", serde_json::to_string(&res).unwrap());
        let _ = o.flush();
    }
}

// =========================================================================== worker (parent side)

struct Worker {
    child: Child,
    stdin: Option<ChildStdin>,
    stdout: BufReader<ChildStdout>,
    next_id: u64,
}

impl Drop for Worker {
    fn drop(&mut self) {
        self.stdin.take();
        let _ = self.child.kill();
        let _ = self.child.wait();
    }
}

enum Outcome {
    Done(WorkerResult),
    /// the worker died while executing the announced case
    Died { status: String, announced: bool, oversize: Option<u64> },
    Unavailable(String),
}

fn spawn_worker() -> Result<Worker, String> {
    let exe = std::env::current_exe().map_err(|e| e.to_string())?;
    let mut child = Command::new("sh")
        .arg("-c")
        .arg(format!("ulimit -v {WORKER_ULIMIT_KIB}; exec \"$0\" \"$@\""))
        .arg(exe)
        .arg("--worker")
        .arg("c25")
        .stdin(Stdio::piped())
        .stdout(Stdio::piped())
        .stderr(Stdio::null())
        .spawn()
        .map_err(|e| e.to_string())?;
    let stdin = child.stdin.take();
    let stdout = BufReader::new(child.stdout.take().ok_or("no stdout")?);
    Ok(Worker { child, stdin, stdout, next_id: 0 })
}

thread_local! {
    static WORKER: RefCell<Option<Worker>> = const { RefCell::new(None) };
}

fn describe_status(st: std::process::ExitStatus) -> String {
    use std::os::unix::process::ExitStatusExt;
    match (st.code(), st.signal()) {
        (_, Some(6)) => "killed by SIGABRT (abort: stack overflow guard or failed allocation)".into(),
        (_, Some(11)) => "killed by SIGSEGV (stack overflow)".into(),
        (_, Some(s)) => format!("killed by signal {s}"),
        (Some(c), _) => format!("exited with code {c}"),
        _ => "died".into(),
    }
}

fn run_in_worker(case: &ByteCase) -> Outcome {
    WORKER.with(|w| {
        let mut slot = w.borrow_mut();
        if slot.is_none() {
            match spawn_worker() {
                Ok(wk) => *slot = Some(wk),
                Err(e) => return Outcome::Unavailable(e),
            }
        }
        let wk = slot.as_mut().unwrap();
        wk.next_id += 1;
        let id = wk.next_id;
        let json = serde_json::to_string(case).unwrap();
        let sent = wk.stdin.as_mut().map(|s| writeln!(s, "{id} {json}").and_then(|_| s.flush()).is_ok()).unwrap_or(false);
        let mut announced = false;
        let mut oversize = None;
        if sent {
            let mut line = String::new();
            loop {
                line.clear();
                match wk.stdout.read_line(&mut line) {
                    Ok(0) | Err(_) => break,
                    Ok(_) => {}
                }
                let l = line.trim_end();
                if l == format!("BEGIN {id}") {
                    announced = true;
                } else if let Some(n) = l.strip_prefix("OVERSIZE ") {
                    oversize = n.parse().ok();
                } else if let Some(rest) = l.strip_prefix(&format!("END {id} ")) {
                    if let Ok(r) = serde_json::from_str::<WorkerResult>(rest) {
                        return Outcome::Done(r);
                    }
                    break;
                } else if l == format!("BADCASE {id}") {
                    return Outcome::Unavailable("worker could not parse the case".into());
                }
            }
        }
        // the worker is gone: collect its status and restart lazily
        let mut dead = slot.take().unwrap();
        dead.stdin.take();
        let status = dead.child.wait().map(describe_status).unwrap_or_else(|e| e.to_string());
        Outcome::Died { status, announced, oversize }
    })
}

fn check_robustness(c: &ByteCase, obs: &mut Obs) -> CaseResult {
    let target = c.target();
    let class = c.class();
    obs.class(class);
    obs.class(&format!("target:{}", target.name()));
    let summary = match c {
        ByteCase::Deep { depth, shape, closed, .. } => format!("{depth} nested {shape:?} (closed={closed})"),
        ByteCase::Huge { at, k, minus_one, tail } => format!("{at:?} = {} followed by {} bytes", big(*k, *minus_one), tail.len()),
        other => {
            let b = materialize(other);
            format!("{} bytes: {}", b.len(), hex(&b))
        }
    };
    let sig_class = match c {
        ByteCase::Huge { .. } => "huge-count",
        ByteCase::Deep { .. } => "deep-nesting",
        ByteCase::MutValue { .. } | ByteCase::MutWal { .. } => "mutated-encoding",
        _ => "arbitrary-bytes",
    };
    let res = match run_in_worker(c) {
        Outcome::Done(r) => r,
        Outcome::Died { status, announced, oversize } => {
            if !announced {
                // died outside the decoder (never observed): not attributable to the case
                panic!("C25 worker died before announcing the case: {status}");
            }
            let sig = format!("abort:{}-decode:{sig_class}", target.name());
            let over = oversize.map(|n| format!("; last oversized allocation request: {n} bytes")).unwrap_or_default();
            fail!(sig, "decoder process {status} on {class} input ({summary}){over}");
        }
        Outcome::Unavailable(e) => panic!("C25 worker unavailable: {e}"),
    };
    let bytes_len = res.len;
    if let ByteCase::Deep { .. } | ByteCase::Huge { .. } = c {
    } else {
        let b = materialize(c);
        obs.set_nontrivial(res.outcome == "ok" || enters_level(target, &b));
    }
    if let ByteCase::Deep { target, depth, .. } = c {
        obs.set_nontrivial(true);
        obs.class(&format!("deep:{}", if *depth >= 100_000 { ">=1e5" } else if *depth >= 1000 { ">=1e3" } else { "<1e3" }));
        let _ = target;
    }
    if let ByteCase::Huge { k, .. } = c {
        obs.set_nontrivial(true);
        obs.class_if(*k % 33 >= 24, "huge:count>=2^24");
    }
    obs.class(&format!("outcome:{}", res.outcome));
    obs.class_if(res.depth >= 1, "decoded-nested-value");
    if res.outcome == "panic" {
        let loc = res.detail.split(": ").next().unwrap_or("?").to_string();
        fail!(format!("panic:{}-decode@{loc}", target.name()), "decoder panicked at {} on {class} input ({summary})", res.detail);
    }
    let bound = ALLOC_FACTOR * bytes_len + ALLOC_SLACK;
    if res.peak > bound {
        fail!(
            format!("alloc-unbounded:{}-decode:{sig_class}", target.name()),
            "decoder allocated {} bytes at peak (largest single request {}) for a {bytes_len}-byte input (bound {ALLOC_FACTOR} x len + {ALLOC_SLACK} = {bound}) on {class} input ({summary})",
            res.peak,
            res.largest
        );
    }
    if let Some(u) = res.unstable {
        fail!(format!("decoded-not-stable:{}", target.name()), "bytes decode to a value that does not survive its own round trip: {u} ({summary})");
    }
    Ok(())
}

// =========================================================================== run

pub fn run(ctx: &mut RunCtx) {
    ctx.assume("bit-exact means: f64 compared by bit pattern (NaN payloads, signalling NaNs and the sign of zero preserved), strings and map keys by bytes, map entries in key order");
    ctx.assume(&format!(
        "'without bound' is read as: peak heap of a decode call <= {ALLOC_FACTOR} x input length + {} KiB (counting allocator in the worker), and no single request fails under ulimit -v {} MiB",
        ALLOC_SLACK >> 10,
        WORKER_ULIMIT_KIB >> 10
    ));
    ctx.assume("the worker decodes on its main thread (8 MiB stack by default): the stack an embedding application gives the library");

    let depth = ctx.tier.pick(6, 8);
    let n_rt = ctx.tier.pick(300_000, 10_000_000);
    ctx.explore_with(
        "value-roundtrip",
        "structurally generated values (all nine kinds, depth <= 6 with up to 8 entries per level, flat lists/maps of up to 64 entries, chains up to 48 deep, NaN payloads / signed zeros / subnormals, empty and non-ASCII strings and keys, blobs): decode(encode(v)) compared bit-exactly by an own comparator and by the bit-pattern mirror, and encode(decode(encode(v))) == encode(v); non-trivial = nested value",
        n_rt,
        vec![
            PV::Float(0x7ff0_0000_0000_0001),
            PV::Float(1 << 63),
            PV::List(vec![PV::Float(0xfff8_0000_0000_1234), PV::Float(0)]),
            PV::Map(BTreeMap::from([(String::new(), PV::Blob(vec![])), ("é".into(), PV::Str(String::new()))])),
        ],
        false,
        move || rt_value(depth),
        |v: &PV, obs: &mut Obs| {
            let d = v.depth();
            obs.set_nontrivial(d >= 1);
            obs.class(match d {
                0 => "depth:0",
                1 => "depth:1",
                2..=3 => "depth:2-3",
                4..=8 => "depth:4-8",
                _ => "depth:>8",
            });
            obs.class_if(has_special_float(v), "nan-or-signed-zero");
            obs.class_if(has_non_ascii(v), "non-ascii-or-empty-string");
            check_value_roundtrip(v)
        },
    );
    ctx.explore_with(
        "small-exhaustive",
        "exhaustive: every scalar of a tiny alphabet (5 ints, 3 datetimes, 11 float bit patterns incl. 5 NaNs and both zeros, 5 strings, 4 blobs, null, booleans), every list of <= 2 of them, every one-entry map over 3 keys, a sample of two-entry maps, every one of those wrapped once more in a list and in a map; every WAL record variant over boundary field values, manifest records with 0..=4 segments, property records over all those values; each is one round-trip evaluation",
        0,
        vec![Small::Values, Small::Records],
        true,
        || Just(Small::Values),
        |s: &Small, obs: &mut Obs| {
            obs.nontrivial();
            match s {
                Small::Values => {
                    for v in small_values() {
                        obs.sub_eval(Some(fp(&v)));
                        check_value_roundtrip(&v)?;
                    }
                }
                Small::Records => {
                    for r in small_records() {
                        obs.sub_eval(Some(fp(&r)));
                        check_wal_roundtrip(&r)?;
                    }
                }
            }
            Ok(())
        },
    );
    ctx.explore(
        "wal-roundtrip",
        "every WalRecord variant with boundary-weighted integer fields, generated keys/names, page images and property values as in value-roundtrip: decode_body(encode_body(r)) compared field by field (values bit-exactly), and re-encoding is byte-identical; non-trivial = record with variable-length content (name, key, value, segments, page)",
        n_rt,
        move || wal_record(depth),
        |r: &WR, obs: &mut Obs| {
            obs.set_nontrivial(r.variable_length());
            obs.class(r.variant());
            check_wal_roundtrip(r)
        },
    );

    let mut depth_cases = Vec::new();
    for in_wal in [false, true] {
        for maps in [false, true] {
            for depth in (1..=260u32).chain([500, 1000, 3000]) {
                depth_cases.push(DepthCase { depth, maps, in_wal, shape: 0 });
            }
            for shape in 1..=4u8 {
                for depth in (1..=8u32).chain(60..=70).chain(120..=140).chain(250..=260).chain([1000]) {
                    depth_cases.push(DepthCase { depth, maps, in_wal, shape });
                }
            }
        }
    }
    ctx.assume("bare values nested deeper than nervusdb_api::MAX_NESTING_DEPTH (128) are outside the encodable domain: PropertyValue::encode is infallible by signature, the WAL (the only writer of untrusted-on-replay bytes) refuses them; checked: every depth the WAL accepts decodes to the same record");
    ctx.explore_with(
        "nesting-depth",
        "exhaustive over nesting depths 1..=260, 500, 1000, 3000 x {lists, alternating maps} x {bare value, SetNodeProperty record}, and around 1-8, 60-70, 120-140, 250-260 with an empty innermost container or a scalar beside the nested child at every level: a record that encode_body accepts must decode to the same record (writer and reader agree on the depth limit), a bare value up to the documented limit must round-trip",
        0,
        depth_cases,
        true,
        || Just(DepthCase { depth: 1, maps: false, in_wal: false, shape: 0 }),
        check_depth,
    );

    // the worker must be available before its verdicts can be trusted
    match run_in_worker(&ByteCase::Raw { target: Target::Value, bytes: vec![0] }) {
        Outcome::Done(r) if r.outcome == "ok" => {}
        Outcome::Done(r) => {
            println!("INCONCLUSIVE property=C25 worker self-test returned {r:?}");
            std::process::exit(2);
        }
        Outcome::Died { status, .. } => {
            println!("INCONCLUSIVE property=C25 worker self-test: worker {status}");
            std::process::exit(2);
        }
        Outcome::Unavailable(e) => {
            println!("INCONCLUSIVE property=C25 cannot start worker: {e}");
            std::process::exit(2);
        }
    }
    let n_rob = ctx.tier.pick(300_000, 10_000_000);
    let depths: Vec<u32> = ctx.tier.pick(vec![60, 127, 128, 129, 1000, 10_000, 100_000], vec![60, 127, 128, 129, 1000, 10_000, 100_000, 1_000_000]);
    let fixed = vec![
        ByteCase::Deep { target: Target::Value, shape: DeepShape::Lists, depth: 100_000, closed: true },
        ByteCase::Deep { target: Target::Value, shape: DeepShape::Maps, depth: 100_000, closed: false },
        ByteCase::Deep { target: Target::Wal, shape: DeepShape::Alternating, depth: 100_000, closed: true },
        ByteCase::Huge { at: HugeAt::ListCount, k: 32, minus_one: true, tail: vec![] },
        ByteCase::Huge { at: HugeAt::ListCount, k: 20, minus_one: false, tail: vec![0; 8] },
        ByteCase::Huge { at: HugeAt::WalPropValueListCount, k: 32, minus_one: true, tail: vec![0] },
        ByteCase::Huge { at: HugeAt::WalManifestCount, k: 0, minus_one: false, tail: vec![0; 24] },
        ByteCase::Huge { at: HugeAt::WalManifestCount, k: 1, minus_one: false, tail: vec![0; 40] },
    ];
    ctx.explore_with(
        "decode-robustness",
        "byte strings fed to PropertyValue::decode and WalRecord::decode_body in a child process: arbitrary bytes (first byte biased to valid tags), token soup (tags, small and 2^k/2^k-1 u32s, length-prefixed strings, valid sub-encodings), 1-3 mutations of valid encodings (bit flip, byte set, u32 := 2^k[-1], truncate, insert, remove, duplicate), count/length fields set to 2^k or 2^k-1 for k <= 32 at 13 positions, 60..10^5 nested containers; oracle: Ok or Err, no panic, the process survives, peak allocation <= 128 x len + 64 KiB, and a value that decodes survives its own round trip bit-exactly; non-trivial = decodes, or gets past the top-level header into variable-length content",
        n_rob,
        if std::env::var("NVCHECK_C25_NOFIXED").is_ok() { Vec::new() } else { fixed },
        false,
        move || byte_case(depths.clone()),
        check_robustness,
    );
}

fn has_special_float(v: &PV) -> bool {
    match v {
        PV::Float(b) => f64::from_bits(*b).is_nan() || *b == 1 << 63,
        PV::List(l) => l.iter().any(has_special_float),
        PV::Map(m) => m.values().any(has_special_float),
        _ => false,
    }
}

fn has_non_ascii(v: &PV) -> bool {
    match v {
        PV::Str(s) => s.is_empty() || !s.is_ascii(),
        PV::List(l) => l.iter().any(has_non_ascii),
        PV::Map(m) => m.iter().any(|(k, v)| k.is_empty() || !k.is_ascii() || has_non_ascii(v)),
        _ => false,
    }
}
