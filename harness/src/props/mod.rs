use crate::engine::RunCtx;

pub mod c27;

pub struct Entry {
    pub id: &'static str,
    pub level: &'static str,
    pub run: fn(&mut RunCtx),
}

pub const REGISTRY: &[Entry] = &[
    Entry { id: "C27", level: "exploration", run: c27::run },
];

/// Entry point of child worker processes (`check --worker <kind> ...`).
pub fn worker_main(_args: &[String]) -> i32 {
    2
}
