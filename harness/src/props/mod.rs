use crate::engine::RunCtx;

pub mod c01;
pub mod c02;
pub mod c03;
pub mod c04;
pub mod c05;
pub mod c06;
pub mod c07;
pub mod c08;
pub mod c09;
pub mod c10;
pub mod c11;
pub mod c12;
pub mod c13;
pub mod c14;
pub mod c15;
pub mod c16;
pub mod c16_grammar;
pub mod c17;
pub mod c18;
pub mod c19;
pub mod c20;
pub mod c21;
pub mod c22;
pub mod c23;
pub mod c24;
pub mod c25;
pub mod c26;
pub mod c27;
pub mod c28;
pub mod c29;
pub mod c30;
pub mod c31;
pub mod c32;
pub mod probe;
pub mod c33;
pub mod c34;
pub mod c35;
pub mod crash;
pub mod exprlib;

pub struct Entry {
    pub id: &'static str,
    pub level: &'static str,
    pub run: fn(&mut RunCtx),
}

pub const REGISTRY: &[Entry] = &[
    Entry { id: "C01", level: "fault_enumeration", run: c01::run },
    Entry { id: "C02", level: "fault_enumeration", run: c02::run },
    Entry { id: "C03", level: "exploration", run: c03::run },
    Entry { id: "C04", level: "exploration", run: c04::run },
    Entry { id: "C05", level: "exploration", run: c05::run },
    Entry { id: "C06", level: "exploration", run: c06::run },
    Entry { id: "C07", level: "exploration", run: c07::run },
    Entry { id: "C08", level: "fault_enumeration", run: c08::run },
    Entry { id: "C09", level: "exploration", run: c09::run },
    Entry { id: "C10", level: "exploration", run: c10::run },
    Entry { id: "C11", level: "exploration", run: c11::run },
    Entry { id: "C12", level: "exploration", run: c12::run },
    Entry { id: "C13", level: "exploration", run: c13::run },
    Entry { id: "C14", level: "exploration", run: c14::run },
    Entry { id: "C15", level: "exploration", run: c15::run },
    Entry { id: "C16", level: "exploration", run: c16::run },
    Entry { id: "C17", level: "fault_enumeration", run: c17::run },
    Entry { id: "C18", level: "exploration", run: c18::run },
    Entry { id: "C19", level: "exploration", run: c19::run },
    Entry { id: "C20", level: "exploration", run: c20::run },
    Entry { id: "C21", level: "exploration", run: c21::run },
    Entry { id: "C22", level: "exploration", run: c22::run },
    Entry { id: "C23", level: "exploration", run: c23::run },
    Entry { id: "C24", level: "exploration", run: c24::run },
    Entry { id: "C25", level: "exploration", run: c25::run },
    Entry { id: "C26", level: "exploration", run: c26::run },
    Entry { id: "C27", level: "exploration", run: c27::run },
    Entry { id: "C28", level: "exploration", run: c28::run },
    Entry { id: "C29", level: "exploration", run: c29::run },
    Entry { id: "C30", level: "exploration", run: c30::run },
    Entry { id: "C31", level: "exploration", run: c31::run },
    Entry { id: "C32", level: "exploration", run: c32::run },
    Entry { id: "C33", level: "exploration", run: c33::run },
    Entry { id: "C34", level: "exploration", run: c34::run },
    Entry { id: "C35", level: "exploration", run: c35::run },
];

/// Entry point of child worker processes (`check --worker <kind> ...`).
pub fn worker_main(args: &[String]) -> i32 {
    match args.first().map(|s| s.as_str()) {
        Some("open-hold") => c10::worker(&args[1..]),
        Some("q") => exprlib::probe(&args[1..]),
        Some("qw") => qw(&args[1..]),
        Some("c25") => c25::worker_main(&args[1..]),
        Some(kind) if kind.starts_with("c16") => c16::worker_main(kind, &args[1..]),
        _ => 2,
    }
}

/// `check --worker qw <stmt>...`: runs each statement on one scratch database (write path first,
/// read path when it is not a write) and prints the outcome; a manual triage aid.
fn qw(stmts: &[String]) -> i32 {
    let dir = std::env::temp_dir().join(format!("nvcheck-qw-{}", std::process::id()));
    let _ = std::fs::remove_dir_all(&dir);
    std::fs::create_dir_all(&dir).unwrap();
    let db = nervusdb::Db::open(dir.join("db")).unwrap();
    let p = nervusdb::query::Params::new();
    for s in stmts {
        let up = s.to_uppercase();
        let is_write = ["CREATE", "SET ", "DELETE", "MERGE", "REMOVE"].iter().any(|k| up.contains(k));
        let w = if is_write { crate::cy::write(&db, s, &p) } else { Err(crate::cy::QErr::Exec(String::new())) };
        match w {
            Ok(n) => println!("W {s}\n  -> {n} changes"),
            Err(_) => match crate::cy::read(&db, s, &p) {
                Ok((cols, rows)) => println!("R {s}\n  {cols:?}\n  {rows:?}"),
                Err(e) => println!("E {s}\n  {}", e.text()),
            },
        }
    }
    drop(db);
    let _ = std::fs::remove_dir_all(&dir);
    0
}
