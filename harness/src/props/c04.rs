//! C04 Reopen preserves logical content.
use crate::engine::{Obs, RunCtx};
use crate::hist::{self, Excl, Op, Profile, Runner, StepKind, suffix_flags};
use crate::model;

pub fn run(ctx: &mut RunCtx) {
    ctx.assume("no crash: the process closes (Db::close) or drops the handle and opens it again");
    let mut p = Profile::base();
    p.ops = ctx.tier.pick(2..30, 2..50);
    p.ws = 1..7;
    p.w_compact = 3;
    p.w_reopen = 4;
    p.w_index = 1;
    p.w_many = 1;
    let cases = ctx.tier.pick(4000, 60_000);
    let mut excl = super::c05::excl_from_known(ctx, "C05");
    excl.label_change_then_checkpoint_reopen = ctx.has_open("label-lost") || ctx.has_open("label-extra");
    excl.same_tx_delete_recreate = ctx.has_open("edge-missing");
    let test = |ops: &Vec<Op>, obs: &mut Obs| {
        let dir = crate::engine::temp_dir();
        let mut r = Runner::new(dir.join("db"), excl.clone())?;
        let sf = suffix_flags(ops);
        let mut txs = 0;
        let (mut compacted, mut label_mut, mut same_key) = (false, false, false);
        let mut hard = false;
        for (i, op) in ops.iter().enumerate() {
            if op.is_reopen() {
                // dump immediately before close
                obs.sub_eval(None);
                r.check().map_err(|f| r.fail_with_log(f))?;
            }
            let k = r.apply(op, sf[i].0, sf[i].1, obs).map_err(|f| r.fail_with_log(f))?;
            match k {
                StepKind::Committed => {
                    txs += 1;
                    label_mut |= r.last_flags.label_mutation;
                    same_key |= r.last_flags.same_key_delete_create;
                }
                StepKind::Compacted => compacted = true,
                StepKind::Reopened => {
                    obs.sub_eval(None);
                    r.check().map_err(|f| r.fail_with_log(f))?;
                    if txs >= 2 && (compacted || label_mut || same_key) {
                        hard = true;
                    }
                    obs.class_if(compacted, "reopen-after-compaction");
                    obs.class_if(label_mut, "reopen-after-label-mutation");
                    obs.class_if(same_key, "reopen-after-same-key-delete-create");
                    obs.class_if(r.model.next_iid > 512, "more-than-512-nodes");
                }
                _ => {}
            }
        }
        obs.sub_eval(None);
        r.check().map_err(|f| r.fail_with_log(f))?;
        let _ = model::Model::new();
        obs.set_nontrivial(hard);
        Ok(())
    };
    ctx.explore(
        "histories",
        "generated histories with close/drop + reopen at generated positions, interleaved with compaction, checkpoint, index creation and bulk node creation (>512 nodes); dump before close == dump after open == model; non-trivial = a reopen after >=2 transactions and at least one of: earlier compaction, label mutation, same-key delete+create inside one transaction",
        cases,
        || hist::history(&p),
        test,
    );
}
