//! C27 Index key encoding preserves order and equality.
use crate::engine::{CaseResult, Failure, Obs, RunCtx, fp};
use crate::pv::{self, PV};
use nervusdb_storage::index::ordered_key::encode_ordered_value;
use proptest::prelude::*;
use serde::{Deserialize, Serialize};
use std::cmp::Ordering;

#[derive(Debug, Clone, Serialize, Deserialize)]
pub struct Triple {
    a: PV,
    b: PV,
    c: PV,
}

/// Value order within one kind (None: incomparable / not of one kind).
fn value_cmp(a: &PV, b: &PV) -> Option<Ordering> {
    match (a, b) {
        (PV::Bool(x), PV::Bool(y)) => Some(x.cmp(y)),
        (PV::Int(x), PV::Int(y)) => Some(x.cmp(y)),
        (PV::DateTime(x), PV::DateTime(y)) => Some(x.cmp(y)),
        (PV::Float(x), PV::Float(y)) => f64::from_bits(*x).partial_cmp(&f64::from_bits(*y)),
        (PV::Str(x), PV::Str(y)) => Some(x.as_bytes().cmp(y.as_bytes())), // UTF-8 byte order == code point order
        (PV::Blob(x), PV::Blob(y)) => Some(x.cmp(y)),
        _ => None,
    }
}

fn kind(a: &PV) -> &'static str {
    match a {
        PV::Null => "null",
        PV::Bool(_) => "bool",
        PV::Int(_) => "int",
        PV::Float(_) => "float",
        PV::Str(_) => "string",
        PV::DateTime(_) => "datetime",
        PV::Blob(_) => "bytes",
        PV::List(_) => "list",
        PV::Map(_) => "map",
    }
}

fn check_pair(a: &PV, b: &PV) -> CaseResult {
    let Some(ord) = value_cmp(a, b) else { return Ok(()) };
    let ea = encode_ordered_value(&a.to_api());
    let eb = encode_ordered_value(&b.to_api());
    let eord = ea.cmp(&eb);
    let k = kind(a);
    if ord == Ordering::Equal && eord != Ordering::Equal {
        let zero = matches!((a, b), (PV::Float(x), PV::Float(y)) if f64::from_bits(*x) == 0.0 && f64::from_bits(*y) == 0.0);
        let sig = if zero { "equal-values-differ:float-signed-zero".to_string() } else { format!("equal-values-differ:{k}") };
        fail!(sig, "a = b but enc(a) != enc(b): a={a:?} b={b:?} enc(a)={ea:02x?} enc(b)={eb:02x?}");
    }
    if ord != Ordering::Equal && eord == Ordering::Equal {
        fail!(format!("distinct-values-collide:{k}"), "a != b but enc(a) == enc(b): a={a:?} b={b:?} enc={ea:02x?}");
    }
    if ord != eord {
        fail!(format!("order-not-preserved:{k}"), "value order {ord:?} but byte order {eord:?}: a={a:?} b={b:?} enc(a)={ea:02x?} enc(b)={eb:02x?}");
    }
    if ea.len() != eb.len() {
        let (s, l) = if ea.len() < eb.len() { (&ea, &eb) } else { (&eb, &ea) };
        if l.starts_with(s) {
            fail!(format!("proper-prefix:{k}"), "enc of one value is a proper prefix of another: a={a:?} b={b:?} enc(a)={ea:02x?} enc(b)={eb:02x?}");
        }
    }
    Ok(())
}

fn string_related() -> impl Strategy<Value = (String, String, String)> + Clone {
    (pv::small_string(), pv::small_string(), pv::small_string(), 0u8..5).prop_map(|(a, b, c, m)| match m {
        0 => (a.clone(), format!("{a}{b}"), format!("{a}{b}{c}")),
        1 => (a.clone(), format!("{a}\0"), format!("{a}\0{c}")),
        2 => (a.clone(), a.clone(), b),
        3 => (format!("{a}\0{b}"), format!("{a}\u{1}{b}"), format!("{a}{c}")),
        _ => (a, b, c),
    })
}

fn blob_related() -> impl Strategy<Value = (Vec<u8>, Vec<u8>, Vec<u8>)> + Clone {
    (pv::small_blob(), pv::small_blob(), pv::small_blob(), 0u8..5).prop_map(|(a, b, c, m)| {
        let cat = |x: &[u8], y: &[u8]| [x, y].concat();
        match m {
            0 => (a.clone(), cat(&a, &b), cat(&cat(&a, &b), &c)),
            1 => (a.clone(), cat(&a, &[0]), cat(&a, &[0, 0xff])),
            2 => (a.clone(), a.clone(), b),
            3 => (cat(&a, &[0, 0]), cat(&a, &[0, 0xff, 0]), cat(&a, &[0xff])),
            _ => (a, b, c),
        }
    })
}

fn triple() -> impl Strategy<Value = Triple> + Clone {
    let ints = (pv::boundary_i64(), pv::boundary_i64(), -2i64..3, 0u8..3).prop_map(|(a, b, d, m)| match m {
        0 => (a, a.wrapping_add(d), b),
        1 => (a, a, b),
        _ => (a, b, b.wrapping_sub(d)),
    });
    let floats = (pv::f64_bits_non_nan(), pv::f64_bits_non_nan(), -2i64..3, 0u8..4).prop_map(|(a, b, d, m)| {
        let fix = |x: u64| if f64::from_bits(x).is_nan() { 0u64 } else { x };
        match m {
            0 => (a, fix(a.wrapping_add(d as u64)), b),
            1 => (a, a ^ (1 << 63), b), // same magnitude, opposite sign (covers +0/-0)
            2 => (a, a, b),
            _ => (a, b, fix(b.wrapping_sub(d as u64))),
        }
    });
    prop_oneof![
        3 => ints.clone().prop_map(|(a, b, c)| Triple { a: PV::Int(a), b: PV::Int(b), c: PV::Int(c) }),
        1 => ints.prop_map(|(a, b, c)| Triple { a: PV::DateTime(a), b: PV::DateTime(b), c: PV::DateTime(c) }),
        3 => floats.prop_map(|(a, b, c)| Triple { a: PV::Float(a), b: PV::Float(b), c: PV::Float(c) }),
        3 => string_related().prop_map(|(a, b, c)| Triple { a: PV::Str(a), b: PV::Str(b), c: PV::Str(c) }),
        2 => blob_related().prop_map(|(a, b, c)| Triple { a: PV::Blob(a), b: PV::Blob(b), c: PV::Blob(c) }),
        1 => (any::<bool>(), any::<bool>(), any::<bool>()).prop_map(|(a, b, c)| Triple { a: PV::Bool(a), b: PV::Bool(b), c: PV::Bool(c) }),
    ]
}

#[derive(Debug, Clone, Serialize, Deserialize)]
pub enum Lattice {
    /// all f64 whose low 48 bits are zero (65536 bit patterns)
    FloatHi16,
    /// all f64 whose bits are `hi << 52 | lo` for the 4096 exponent/sign values x 16 low patterns
    FloatExpLo,
    Bools,
    /// i64 values k * 2^s + d for all s, small k, d
    IntLattice,
}

fn check_sorted_lattice(mut vals: Vec<PV>, obs: &mut Obs) -> CaseResult {
    vals.retain(|v| !matches!(v, PV::Float(b) if f64::from_bits(*b).is_nan()));
    vals.sort_by(|a, b| value_cmp(a, b).unwrap());
    // adjacent pairs in value order decide every pair (byte order is transitive)
    for w in vals.windows(2) {
        obs.sub_eval(Some(fp(&(&w[0], &w[1]))));
        check_pair(&w[0], &w[1])?;
        check_pair(&w[1], &w[0])?;
    }
    // prefix freedom cannot be inferred from adjacency: check against both neighbours in byte order
    let mut encs: Vec<Vec<u8>> = vals.iter().map(|v| encode_ordered_value(&v.to_api())).collect();
    encs.sort();
    encs.dedup();
    for w in encs.windows(2) {
        if w[1].len() > w[0].len() && w[1].starts_with(&w[0]) {
            fail!("proper-prefix:lattice", "enc {:02x?} is a proper prefix of {:02x?}", w[0], w[1]);
        }
    }
    Ok(())
}

pub fn run(ctx: &mut RunCtx) {
    ctx.assume("value order per kind: integers/datetimes numeric, booleans false<true, strings by code point (UTF-8 byte order), byte strings lexicographic, floats IEEE-754 with +0 = -0; NaN excluded as the property states");
    let n = ctx.tier.pick(15_000_000, 300_000_000);
    ctx.explore(
        "triples",
        "triples of same-kind values generated with boundary weighting and constructed relations (equal, adjacent, prefix, sign flip); all 6 ordered pairs checked; non-trivial = at least two distinct values in the triple",
        n,
        triple,
        |t: &Triple, obs: &mut Obs| {
            let distinct = value_cmp(&t.a, &t.b) != Some(Ordering::Equal) || value_cmp(&t.b, &t.c) != Some(Ordering::Equal);
            obs.set_nontrivial(distinct);
            obs.class(kind(&t.a));
            for (x, y) in [(&t.a, &t.b), (&t.b, &t.a), (&t.a, &t.c), (&t.c, &t.a), (&t.b, &t.c), (&t.c, &t.b)] {
                check_pair(x, y)?;
            }
            Ok(())
        },
    );
    ctx.explore_with(
        "lattice",
        "exhaustive sub-lattices: every f64 with zero low 48 bits, every sign/exponent with 16 low-mantissa patterns, both booleans, integers k*2^s+d; sorted by value and every adjacent pair checked in both directions (non-trivial = each adjacent pair)",
        0,
        vec![Lattice::Bools, Lattice::FloatHi16, Lattice::FloatExpLo, Lattice::IntLattice],
        true,
        || Just(Lattice::Bools),
        |l: &Lattice, obs: &mut Obs| {
            let vals: Vec<PV> = match l {
                Lattice::Bools => vec![PV::Bool(false), PV::Bool(true), PV::Bool(false)],
                Lattice::FloatHi16 => (0u64..65536).map(|h| PV::Float(h << 48)).collect(),
                Lattice::FloatExpLo => {
                    let mut v = Vec::new();
                    for hi in 0u64..4096 {
                        for lo in [0u64, 1, 2, 3, (1 << 51), (1 << 52) - 1, (1 << 52) - 2, 0x000f_0000_0000_0000, 0x8, 0x10, 0xff, 0x100, 0xffff, 1 << 32, (1 << 32) - 1, 1 << 47] {
                            v.push(PV::Float(hi << 52 | lo));
                        }
                    }
                    v
                }
                Lattice::IntLattice => {
                    let mut v = Vec::new();
                    for s in 0..64u32 {
                        for k in [-3i64, -2, -1, 1, 2, 3] {
                            for d in -2i64..=2 {
                                v.push(PV::Int(k.wrapping_shl(s).wrapping_add(d)));
                            }
                        }
                    }
                    v.push(PV::Int(i64::MIN));
                    v.push(PV::Int(i64::MAX));
                    v.push(PV::Int(0));
                    v
                }
            };
            obs.nontrivial();
            check_sorted_lattice(vals, obs)
        },
    );
    let _ = Failure::new("", "");
}
