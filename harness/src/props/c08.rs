//! C08 Failed commits are all-or-nothing (single injected I/O fault at every I/O step of
//! one target operation: a commit, a compaction or a close).
use crate::engine::{CaseResult, Failure, Obs, RunCtx, catch, fp};
use crate::hist::{self, Excl, Hazard, Op, Profile, RW, Runner, StepKind, TxFlags, W};
use crate::iosim::{Plan, Recorder};
use crate::model::{self, Model};
use proptest::prelude::*;
use serde::{Deserialize, Serialize};
use std::sync::atomic::Ordering::SeqCst;

#[derive(Debug, Clone, Serialize, Deserialize)]
pub enum Target {
    Commit(Vec<W>),
    Compact,
    Close,
}

#[derive(Debug, Clone, Serialize, Deserialize)]
pub struct Case {
    prefix: Vec<Op>,
    target: Target,
    after: Vec<Op>,
    /// restrict to one fault position (used by reproducers); None = all positions
    #[serde(default)]
    only: Option<u64>,
}

/// Applies concrete writes to a model (used for "the failed transaction turned out durable").
pub fn apply_rws(m: &mut Model, rws: &[RW]) -> Result<(), String> {
    for rw in rws {
        match rw {
            RW::CreateNode { ext, labels, iid } => {
                if m.nodes.contains_key(iid) || m.dead.contains(iid) {
                    return Err(format!("internal id {iid} used twice"));
                }
                m.nodes.insert(*iid, model::MNode { ext: *ext, labels: labels.iter().cloned().collect(), props: Default::default() });
                m.next_iid = m.next_iid.max(iid + 1);
                m.next_ext = m.next_ext.max(ext + 1);
            }
            RW::AddLabel { n, l } => {
                if let Some(x) = m.nodes.get_mut(n) {
                    x.labels.insert(l.clone());
                }
            }
            RW::RemoveLabel { n, l } => {
                if let Some(x) = m.nodes.get_mut(n) {
                    x.labels.remove(l);
                }
            }
            RW::CreateEdge { s, t, d } => *m.edges.entry((*s, t.clone(), *d)).or_insert(0) += 1,
            RW::DeleteEdgeKey { s, t, d } => m.delete_edge_key(&(*s, t.clone(), *d)),
            RW::TombstoneNode { n } => m.delete_node(*n),
            RW::SetNodeProp { n, k, v } => {
                if let Some(x) = m.nodes.get_mut(n) {
                    x.props.insert(k.clone(), v.clone());
                }
            }
            RW::RemoveNodeProp { n, k } => {
                if let Some(x) = m.nodes.get_mut(n) {
                    x.props.remove(k);
                }
            }
            RW::SetEdgeProp { s, t, d, k, v } => {
                m.edge_props.entry((*s, t.clone(), *d)).or_default().insert(k.clone(), v.clone());
            }
            RW::RemoveEdgeProp { s, t, d, k } => {
                let key = (*s, t.clone(), *d);
                if let Some(p) = m.edge_props.get_mut(&key) {
                    p.remove(k);
                    if p.is_empty() {
                        m.edge_props.remove(&key);
                    }
                }
            }
        }
    }
    Ok(())
}

fn run_prefix(c: &Case, base: std::path::PathBuf, rec: &Recorder, obs: &mut Obs) -> Result<Runner, Failure> {
    rec.op.store(0, SeqCst);
    let mut r = Runner::new(base, Excl::default())?;
    for op in &c.prefix {
        r.apply(op, false, false, obs)?;
    }
    Ok(r)
}

fn check_db(r: &Runner, m: &Model) -> CaseResult {
    let d = model::dump_db(r.db(), &r.uni(), &m.dead)?;
    model::diff(m, &d, &r.uni())
}

fn one_fault(c: &Case, j: u64, obs: &mut Obs) -> CaseResult {
    match one_fault_inner(c, j, obs, false) {
        // the failed transaction may have consumed internal ids (they are not part of the
        // property): retry with the model's id counter advanced past them
        Err(f) if f.signature.contains("op-error:create_node:internal id") => one_fault_inner(c, j, obs, true),
        r => r,
    }
}

fn one_fault_inner(c: &Case, j: u64, obs: &mut Obs, ids_burnt: bool) -> CaseResult {
    let dir = crate::engine::temp_dir();
    let rec = Recorder::new(Plan::Record, false);
    let _g = rec.install();
    let mut r = match run_prefix(c, dir.join("db"), &rec, obs) {
        Ok(r) => r,
        Err(_) => return Ok(()),
    };
    let pre = r.model.clone();
    let start = rec.counter.load(SeqCst);
    *rec.plan.lock().unwrap() = Plan::FailAt(start + j);
    let what;
    let mut tx_rws: Vec<RW> = Vec::new();
    let mut with_tx = pre.clone();
    let outcome: Result<Result<(), String>, (String, String)> = match &c.target {
        Target::Commit(ws) => {
            what = "commit";
            let mut flags = TxFlags::default();
            tx_rws = hist::resolve_tx(&mut with_tx, ws, &Excl::default(), &Hazard::default(), obs, &mut flags);
            catch(|| hist::exec_tx(r.db(), &tx_rws, true).map_err(|(w, e)| format!("{w}: {e}")))
        }
        Target::Compact => {
            what = "compaction";
            catch(|| r.db().compact().map_err(|e| e.to_string()))
        }
        Target::Close => {
            what = "close";
            let db = r.db.take().unwrap();
            let res = catch(|| db.close().map_err(|e| e.to_string()));
            // the handle is consumed either way; continue on a fresh handle
            *rec.plan.lock().unwrap() = Plan::Record;
            match hist::open_db(&r.base) {
                Ok(db) => r.db = Some(db),
                Err(f) => return Err(Failure::new(format!("open-after-failed-close:{}", f.signature), f.message)),
            }
            res
        }
    };
    let hit = rec.fault_hit.load(SeqCst) > 0;
    *rec.plan.lock().unwrap() = Plan::Record;
    if !hit {
        return Ok(()); // position beyond the operation's I/O (event counts vary slightly between runs)
    }
    let failed = match outcome {
        Err((loc, msg)) => return Err(Failure::new(format!("panic@{loc}"), format!("{what} panicked at {loc} under an injected fault at its I/O step {j}: {msg}"))),
        Ok(Err(_)) => true,
        Ok(Ok(())) => false,
    };
    obs.class(if failed { "reported-error" } else { "fault-absorbed" });
    // ---- in-process visibility
    let now: Model = if failed || !matches!(c.target, Target::Commit(_)) { pre.clone() } else { with_tx.clone() };
    check_db(&r, &now).map_err(|f| {
        Failure::new(
            format!("in-process:{what}:{}:{}", if failed { "error-but-visible" } else { "ok-but-incomplete" }, f.signature),
            format!("{what} with a fault at I/O step {j} returned {}; in-process state then: {}", if failed { "an error" } else { "Ok" }, f.message),
        )
    })?;
    obs.sub_eval(Some(fp(&(what, j, "in-process"))));
    // ---- the database keeps accepting transactions
    r.model = now.clone();
    if ids_burnt {
        r.model.next_iid = with_tx.next_iid;
    }
    let mut after_rws: Vec<Vec<RW>> = Vec::new();
    let mut later = 0;
    for op in &c.after {
        let k = r.apply(op, false, false, obs).map_err(|f| Failure::new(format!("later-transaction-fails:{what}:{}", f.signature), format!("after a failed {what} (fault at step {j}): {}", r.fail_with_log(f).message)))?;
        if k == StepKind::Committed {
            later += 1;
            after_rws.push(r.last_rws.clone());
        }
    }
    r.check().map_err(|f| Failure::new(format!("later-transaction-wrong:{what}:{}", f.signature), r.fail_with_log(f).message))?;
    // ---- after reopen: entirely or not at all, followed by all later acknowledged transactions
    let without = r.model.clone();
    r.apply(&Op::DropReopen, false, false, obs).map_err(|f| Failure::new(format!("reopen-fails:{what}:{}", f.signature), format!("after a failed {what} (fault at step {j}) and {later} later transactions: {}", f.message)))?;
    let mut candidates = vec![without.clone()];
    if failed {
        if let Target::Commit(_) = &c.target {
            let mut m = with_tx.clone();
            let mut ok = true;
            for rws in &after_rws {
                if apply_rws(&mut m, rws).is_err() {
                    ok = false;
                    break;
                }
            }
            if ok {
                candidates.push(m);
            }
        }
    }
    let mut last = None;
    for m in &candidates {
        match check_db(&r, m) {
            Ok(()) => {
                last = None;
                break;
            }
            Err(f) => last = Some(f),
        }
    }
    if let Some(f) = last {
        return Err(Failure::new(
            format!("after-reopen:{what}:{}", f.signature),
            format!("{what} with a fault at step {j} ({}), {later} later transactions, reopen: content is neither 'without' nor 'with' the transaction: {}", if failed { "error reported" } else { "Ok reported" }, f.message),
        ));
    }
    obs.sub_eval(Some(fp(&(what, j, "reopen"))));
    obs.set_nontrivial(later >= 1);
    let _ = tx_rws;
    Ok(())
}

fn test(c: &Case, obs: &mut Obs, skip_post_commit: bool) -> CaseResult {
    // pass 1: count the target's I/O steps
    let (n, post_commit_from) = {
        let dir = crate::engine::temp_dir();
        let rec = Recorder::new(Plan::Record, false);
        let _g = rec.install();
        let mut r = match run_prefix(c, dir.join("db"), &rec, obs) {
            Ok(r) => r,
            Err(_) => {
                obs.class("fault-free-prefix-failed");
                return Ok(());
            }
        };
        let start = rec.counter.load(SeqCst);
        match &c.target {
            Target::Commit(ws) => {
                let mut m = r.model.clone();
                let mut flags = TxFlags::default();
                let rws = hist::resolve_tx(&mut m, ws, &Excl::default(), &Hazard::default(), obs, &mut flags);
                let _ = catch(|| hist::exec_tx(r.db(), &rws, true));
            }
            Target::Compact => {
                let _ = catch(|| r.db().compact());
            }
            Target::Close => {
                let db = r.db.take().unwrap();
                let _ = catch(|| db.close());
            }
        }
        let n = rec.counter.load(SeqCst) - start;
        // first step behind the commit's log fsync (the transaction is durable from there on)
        let evs = rec.take();
        let tgt = &evs[(start as usize).min(evs.len())..];
        let last_wal_sync = tgt.iter().rposition(|e| e.file.ends_with(".wal") && matches!(e.kind, crate::iosim::EvKind::Sync));
        (n, last_wal_sync.map(|i| i as u64 + 1).unwrap_or(u64::MAX))
    };
    obs.count("io_steps_of_target", n);
    obs.class(match c.target {
        Target::Commit(_) => "target-commit",
        Target::Compact => "target-compaction",
        Target::Close => "target-close",
    });
    match c.only {
        Some(j) => one_fault(c, j, obs),
        None => {
            // a few extra positions because event counts can differ slightly between runs
            for j in 0..n + 2 {
                if skip_post_commit && matches!(c.target, Target::Commit(_)) && j >= post_commit_from {
                    obs.excluded("fault-after-log-commit");
                    continue;
                }
                one_fault(c, j, obs).map_err(|f| Failure::new(f.signature, format!("[fault position {j} of {n}] {}", f.message)))?;
            }
            Ok(())
        }
    }
}

pub fn run(ctx: &mut RunCtx) {
    ctx.assume("one injected fault (EIO) per run at a chosen I/O step of the target operation (write, set_len, fsync, create, rename); the operation is not performed when it fails");
    ctx.assume("after an error the durable outcome may be either 'without' or 'entirely with' the transaction, as the property allows; in-process it must be invisible");
    let mut p = Profile::base();
    p.ops = 0..6;
    p.ws = 1..6;
    p.w_compact = 2;
    p.w_index = 1;
    p.nested_values = false;
    let mut pa = Profile::base();
    pa.ops = 1..6;
    pa.ws = 1..5;
    // compactions and reopens after the failed operation as well (a failed compaction followed
    // by a commit and a successful compaction is a history of its own)
    pa.w_compact = 3;
    pa.w_reopen = 1;
    pa.nested_values = false;
    let cases = ctx.tier.pick(12_000, 160_000);
    ctx.shrink_iters = 200;
    let skip_post_commit = ctx.excluding("fault-after-log-commit");
    ctx.explore(
        "single-faults",
        "generated prefix history, one target operation (commit of a generated transaction / compaction / close), EVERY I/O step of the target failed in turn (one fault per run), then generated later transactions, compactions and reopens, and a final reopen; oracle: error => invisible in-process; after reopen entirely-or-not-at-all plus all later transactions; later transactions must succeed; non-trivial = the fault was hit and >=1 later transaction committed",
        cases,
        || {
            let target = prop_oneof![
                5 => prop::collection::vec(hist::write_op(false), 1..7).prop_map(Target::Commit),
                2 => Just(Target::Compact),
                2 => Just(Target::Close),
            ];
            (hist::history(&p), target, hist::history(&pa)).prop_map(|(prefix, target, after)| Case { prefix, target, after, only: None })
        },
        |c: &Case, obs: &mut Obs| test(c, obs, skip_post_commit),
    );
}
