//! C09 Concurrent auto-commit writes lose no updates (C API `ndb_execute_write`).
//!
//! (a) controlled schedules: at the schedule point between snapshot acquisition and the
//!     writer lock of one statement, complete other statements run (the statement is
//!     overtaken exactly there); (b) real threads hammering shared counters.
//! Oracle (serializability witness for commutative read-modify-write statements): the final
//! value of every counter is its initial value plus the sum of the deltas of the statements
//! that returned NDB_OK; conditional creates (MERGE) leave exactly one node per key.
use crate::capi_util::CDb;
use crate::engine::{CaseResult, Failure, Obs, RunCtx, fp};
use nervusdb::verif_hooks::{self as vh, Hooks};
use proptest::prelude::*;
use serde::{Deserialize, Serialize};
use std::collections::BTreeMap;
use std::sync::{Arc, Mutex};

#[derive(Debug, Clone, Serialize, Deserialize)]
pub enum Stmt {
    /// MATCH (c:Counter {k:$k}) SET c.v = c.v + $d
    Inc { k: u8, d: i8 },
    /// MERGE (m:Once {k:$k})
    MergeOnce { k: u8 },
    /// MATCH (c:Counter {k:$k}) SET c.log = c.log + [$d]
    Append { k: u8, d: i8 },
}

#[derive(Debug, Clone, Serialize, Deserialize)]
pub struct Sched {
    /// outer statements; `inner[i]` runs completely at statement i's point between snapshot
    /// acquisition and writer-lock acquisition
    outer: Vec<Stmt>,
    inner: Vec<Vec<Stmt>>,
    counters: u8,
    /// overtaking statement j of outer i runs as an explicit transaction when bit (i+j) is set
    #[serde(default)]
    txn_mask: u32,
}

struct SharedDb(*mut capi::ndb_db_t);
unsafe impl Send for SharedDb {}
unsafe impl Sync for SharedDb {}

fn stmt_text(s: &Stmt) -> (String, String) {
    match s {
        Stmt::Inc { k, d } => ("MATCH (c:Counter {k: $k}) SET c.v = c.v + $d".to_string(), format!("{{\"k\": {k}, \"d\": {d}}}")),
        Stmt::MergeOnce { k } => ("MERGE (m:Once {k: $k})".to_string(), format!("{{\"k\": {k}}}")),
        Stmt::Append { k, d } => ("MATCH (c:Counter {k: $k}) SET c.log = c.log + [$d]".to_string(), format!("{{\"k\": {k}, \"d\": {d}}}")),
    }
}

/// The same statement through an explicit transaction (`ndb_begin_write`, `ndb_txn_query`,
/// `ndb_txn_commit`): another way of committing that auto-commit statements must serialize with.
fn exec_in_txn(db: *mut capi::ndb_db_t, s: &Stmt) -> Result<u32, String> {
    use std::ffi::CString;
    let (q, p) = stmt_text(s);
    let q = CString::new(q).unwrap();
    let p = CString::new(p).unwrap();
    let mut txn: *mut capi::ndb_txn_t = std::ptr::null_mut();
    if capi::ndb_begin_write(db, &mut txn) != capi::NDB_OK {
        return Err(crate::capi_util::last_error_message());
    }
    if capi::ndb_txn_query(txn, q.as_ptr(), p.as_ptr()) != capi::NDB_OK {
        let e = crate::capi_util::last_error_message();
        capi::ndb_txn_rollback(txn);
        return Err(e);
    }
    if capi::ndb_txn_commit(txn) != capi::NDB_OK {
        return Err(crate::capi_util::last_error_message());
    }
    Ok(1)
}

fn exec(db: *mut capi::ndb_db_t, s: &Stmt) -> Result<u32, String> {
    use std::ffi::CString;
    let (q, p) = match s {
        Stmt::Inc { k, d } => ("MATCH (c:Counter {k: $k}) SET c.v = c.v + $d".to_string(), format!("{{\"k\": {k}, \"d\": {d}}}")),
        Stmt::MergeOnce { k } => ("MERGE (m:Once {k: $k})".to_string(), format!("{{\"k\": {k}}}")),
        Stmt::Append { k, d } => ("MATCH (c:Counter {k: $k}) SET c.log = c.log + [$d]".to_string(), format!("{{\"k\": {k}, \"d\": {d}}}")),
    };
    let q = CString::new(q).unwrap();
    let p = CString::new(p).unwrap();
    let mut n = 0u32;
    let rc = capi::ndb_execute_write(db, q.as_ptr(), p.as_ptr(), &mut n);
    if rc == capi::NDB_OK { Ok(n) } else { Err(crate::capi_util::last_error_message()) }
}

#[derive(Default, Debug, Clone)]
struct Expect {
    sums: BTreeMap<u8, i64>,
    logs: BTreeMap<u8, Vec<i64>>,
    merged: std::collections::BTreeSet<u8>,
}

impl Expect {
    fn note(&mut self, s: &Stmt, counters: u8) {
        match s {
            Stmt::Inc { k, d } => {
                if *k < counters {
                    *self.sums.entry(*k).or_default() += *d as i64;
                }
            }
            Stmt::Append { k, d } => {
                if *k < counters {
                    self.logs.entry(*k).or_default().push(*d as i64);
                }
            }
            Stmt::MergeOnce { k } => {
                self.merged.insert(*k);
            }
        }
    }
}

fn setup(db: &CDb, counters: u8) -> Result<(), Failure> {
    for k in 0..counters {
        db.execute_write(&format!("CREATE (:Counter {{k: {k}, v: 0, log: []}})"), None).map_err(|e| Failure::new("harness-setup", e.to_string()))?;
    }
    Ok(())
}

fn verify(db: &CDb, exp: &Expect, counters: u8, how: &str) -> CaseResult {
    let rows = db.query_json("MATCH (c:Counter) RETURN c.k AS k, c.v AS v, c.log AS log", None).map_err(|e| Failure::new("harness-read", e.to_string()))?;
    let rows = rows.as_array().cloned().unwrap_or_default();
    if rows.len() != counters as usize {
        fail!("counter-nodes-changed", "{how}: expected {counters} counter nodes, found {}", rows.len());
    }
    for r in rows {
        let k = r["k"].as_i64().unwrap_or(-1) as u8;
        let v = r["v"].as_i64().unwrap_or(i64::MIN);
        let want = exp.sums.get(&k).copied().unwrap_or(0);
        if v != want {
            fail!("lost-update:counter", "{how}: counter {k} is {v} but the acknowledged increments sum to {want}");
        }
        let mut got: Vec<i64> = r["log"].as_array().map(|a| a.iter().filter_map(|x| x.as_i64()).collect()).unwrap_or_default();
        let mut want_log = exp.logs.get(&k).cloned().unwrap_or_default();
        got.sort();
        want_log.sort();
        if got != want_log {
            fail!("lost-update:list-append", "{how}: log of counter {k} is {got:?} but the acknowledged appends are {want_log:?}");
        }
    }
    let once = db.query_json("MATCH (m:Once) RETURN m.k AS k", None).map_err(|e| Failure::new("harness-read", e.to_string()))?;
    let mut ks: Vec<i64> = once.as_array().map(|a| a.iter().filter_map(|x| x["k"].as_i64()).collect()).unwrap_or_default();
    ks.sort();
    let want: Vec<i64> = exp.merged.iter().map(|k| *k as i64).collect();
    if ks != want {
        fail!("conditional-create-duplicated", "{how}: MERGE (:Once {{k}}) nodes are {ks:?} but exactly one per key {want:?} is expected");
    }
    Ok(())
}

struct Overtake {
    db: SharedDb,
    queue: Mutex<Vec<(Stmt, bool)>>,
    results: Mutex<Vec<(Stmt, bool)>>,
    overlapped: Mutex<u64>,
}

impl Hooks for Overtake {
    fn sched(&self, point: &'static str) {
        if point != "capi.write.after_snapshot" {
            return;
        }
        let pending: Vec<(Stmt, bool)> = std::mem::take(&mut *self.queue.lock().unwrap());
        for (s, via_txn) in pending {
            // the overtaking statements run without a handler queue of their own
            let ok = if via_txn { exec_in_txn(self.db.0, &s).is_ok() } else { exec(self.db.0, &s).is_ok() };
            *self.overlapped.lock().unwrap() += 1;
            self.results.lock().unwrap().push((s, ok));
        }
    }
}

fn sched_test(c: &Sched, obs: &mut Obs) -> CaseResult {
    let dir = crate::engine::temp_dir();
    let db = CDb::open(&dir.join("db")).map_err(|e| Failure::new("harness-open", e.to_string()))?;
    setup(&db, c.counters)?;
    let h = Arc::new(Overtake { db: SharedDb(db.raw()), queue: Mutex::new(Vec::new()), results: Mutex::new(Vec::new()), overlapped: Mutex::new(0) });
    let prev = vh::install(Some(h.clone() as Arc<dyn Hooks>));
    let mut exp = Expect::default();
    let mut same_node_overlap = false;
    for (i, s) in c.outer.iter().enumerate() {
        let inner = c.inner.get(i).cloned().unwrap_or_default();
        let key = |s: &Stmt| match s {
            Stmt::Inc { k, .. } | Stmt::Append { k, .. } => (0u8, *k),
            Stmt::MergeOnce { k } => (1u8, *k),
        };
        same_node_overlap |= inner.iter().any(|x| key(x) == key(s));
        *h.queue.lock().unwrap() = inner.into_iter().enumerate().map(|(j, x)| (x, (c.txn_mask >> ((i + j) % 32)) & 1 == 1)).collect();
        let ok = exec(db.raw(), s).is_ok();
        if ok {
            exp.note(s, c.counters);
        }
        for (s2, ok2) in h.results.lock().unwrap().drain(..) {
            if ok2 {
                exp.note(&s2, c.counters);
            }
        }
    }
    vh::install(prev);
    obs.count("overtaken_statements", *h.overlapped.lock().unwrap());
    obs.set_nontrivial(same_node_overlap);
    obs.class_if(same_node_overlap, "same-entity-overlap");
    verify(&db, &exp, c.counters, "controlled schedule")?;
    let _ = fp(&0);
    Ok(())
}

#[derive(Debug, Clone, Serialize, Deserialize)]
pub struct Stress {
    threads: Vec<Vec<Stmt>>,
    counters: u8,
}

fn stress_test(c: &Stress, obs: &mut Obs) -> CaseResult {
    let dir = crate::engine::temp_dir();
    let db = CDb::open(&dir.join("db")).map_err(|e| Failure::new("harness-open", e.to_string()))?;
    setup(&db, c.counters)?;
    let shared = Arc::new(SharedDb(db.raw()));
    let acks: Arc<Mutex<Vec<Stmt>>> = Arc::new(Mutex::new(Vec::new()));
    let barrier = Arc::new(std::sync::Barrier::new(c.threads.len()));
    std::thread::scope(|sc| {
        for t in &c.threads {
            let (shared, acks, barrier) = (shared.clone(), acks.clone(), barrier.clone());
            sc.spawn(move || {
                barrier.wait();
                for (n, s) in t.iter().enumerate() {
                    let r = if n % 3 == 2 { exec_in_txn(shared.0, s) } else { exec(shared.0, s) };
                    if r.is_ok() {
                        acks.lock().unwrap().push(s.clone());
                    }
                }
            });
        }
    });
    let mut exp = Expect::default();
    for s in acks.lock().unwrap().iter() {
        exp.note(s, c.counters);
    }
    obs.set_nontrivial(c.threads.len() >= 2 && c.threads.iter().filter(|t| !t.is_empty()).count() >= 2);
    verify(&db, &exp, c.counters, "thread stress")
}

fn stmt(counters: u8) -> impl Strategy<Value = Stmt> + Clone {
    prop_oneof![
        5 => (0..counters, -5i8..6).prop_map(|(k, d)| Stmt::Inc { k, d }),
        2 => (0u8..3).prop_map(|k| Stmt::MergeOnce { k }),
        2 => (0..counters, -5i8..6).prop_map(|(k, d)| Stmt::Append { k, d }),
    ]
}

pub fn run(ctx: &mut RunCtx) {
    ctx.assume("statements are commutative read-modify-write templates, so 'as if one at a time in some order' is equivalent to: every counter equals the sum of acknowledged deltas, every list holds exactly the acknowledged appends, every MERGE key exists once");
    ctx.assume("controlled schedules overtake a statement only at the cfg-guarded point between its snapshot acquisition and its writer-lock acquisition; the Python/Node bindings are not built here, their shared C entry point is what is driven");
    let n = ctx.tier.pick(24_000, 600_000);
    ctx.explore(
        "overtaking-schedules",
        "sequences of auto-commit statements (counter increment, list append, MERGE-once) where each statement is overtaken, between its snapshot and its writer lock, by a generated list of complete other statements; non-trivial = an overtaking statement touches the same entity",
        n,
        || {
            (1u8..4).prop_flat_map(|counters| {
                let outer = prop::collection::vec(stmt(counters), 1..8);
                (outer, Just(counters)).prop_flat_map(move |(outer, counters)| {
                    let m = outer.len();
                    (Just(outer), prop::collection::vec(prop::collection::vec(stmt(counters), 0..3), m..=m), Just(counters))
                })
            })
            .prop_flat_map(|(outer, inner, counters)| (Just(outer), Just(inner), Just(counters), prop_oneof![Just(0u32), any::<u32>()]))
            .prop_map(|(outer, inner, counters, txn_mask)| Sched { outer, inner, counters, txn_mask })
        },
        sched_test,
    );
    let m = ctx.tier.pick(1500, 30_000);
    ctx.explore(
        "thread-stress",
        "2-4 real threads each issuing up to 20 generated statements against shared counters through ndb_execute_write; same oracle; the interleaving is whatever the OS produces (any interleaving must satisfy the oracle); non-trivial = at least two threads with statements",
        m,
        || (1u8..3).prop_flat_map(|counters| (prop::collection::vec(prop::collection::vec(stmt(counters), 1..20), 2..5), Just(counters))).prop_map(|(threads, counters)| Stress { threads, counters }),
        stress_test,
    );
}
