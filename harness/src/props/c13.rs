//! C13 A failed statement has no effect.
use crate::cyw::{self, Bad, Mix, Op, Pool, RS, Route, World};
use crate::engine::{Failure, Obs, RunCtx, fp};
use proptest::prelude::*;
use serde::{Deserialize, Serialize};
use std::collections::BTreeSet;

#[derive(Debug, Clone, Serialize, Deserialize)]
pub enum Mode {
    /// the failing statement runs in auto-commit mode
    Auto(Route),
    /// the failing statement runs inside an explicit C-API transaction between valid
    /// statements; the transaction is committed afterwards
    Txn { before: Vec<Op>, after: Vec<Op>, reopen: bool },
}

#[derive(Debug, Clone, Serialize, Deserialize)]
pub struct Case {
    pub nodes: u8,
    pub pairs: u8,
    pub setup: Vec<Op>,
    pub mode: Mode,
    pub bad: Bad,
}

fn setup_mix() -> Mix {
    Mix { create_nodes: 3, create_pairs: 2, link: 3, set_prop: 3, add_label: 1, merge: 1, detach_delete: 1, delete_rel: 1, max_rows: 4, ..Default::default() }
}

/// Valid statements inside the transaction (they may build on each other and on what the
/// transaction wrote before the failing statement; sequential visibility is C24's subject
/// and holds on the fixed tree).
fn txn_mix() -> Mix {
    Mix { create_nodes: 3, create_pairs: 2, link: 3, set_prop: 3, remove_prop: 1, merge: 2, detach_delete: 1, delete_rel: 1, recent_8: 4, max_rows: 3, ..Default::default() }
}

fn strategy() -> impl Strategy<Value = Case> {
    let mode = prop_oneof![
        1 => cyw::route().prop_map(Mode::Auto),
        1 => (prop::collection::vec(cyw::op(&txn_mix()), 0..3), prop::collection::vec(cyw::op(&txn_mix()), 0..3), prop::bool::weighted(0.15))
            .prop_map(|(before, after, reopen)| Mode::Txn { before, after, reopen }),
    ];
    (2u8..7, 1u8..3, prop::collection::vec(cyw::op(&setup_mix()), 0..4), mode, cyw::bad()).prop_map(|(nodes, pairs, setup, mode, bad)| Case { nodes, pairs, setup, mode, bad })
}

fn wrap(ctx: &str, f: Failure) -> Failure {
    if f.signature.starts_with("panic@") || f.signature.starts_with("capi-call-failed") {
        return f;
    }
    Failure::new(format!("failed-stmt-left-effects:{ctx}:{}", f.signature), format!("after a failed statement ({ctx}) the database differs from the model of the successful statements: {}", f.message))
}

fn kind_name(rs: &RS) -> String {
    match rs {
        RS::Syntax => "syntax".into(),
        RS::WriteThenBadTail { .. } => "write-then-runtime-skip-limit-error".into(),
        RS::CreateNodes { px: Some(p), .. } => format!("create:{:?}", p.kind),
        RS::SetProp { px: Some(p), .. } => format!("set:{:?}", p.kind),
        RS::SetProp { then_delete: true, .. } => "set-then-refused-delete".into(),
        RS::MutThenDelete { mutation, .. } => format!("{}-then-refused-delete", match mutation {
            cyw::Mut::RemoveProp(_) => "remove-prop",
            cyw::Mut::AddLabel(_) => "add-label",
            cyw::Mut::RemoveLabel(_) => "remove-label",
        }),
        RS::Merge { px: Some(p), .. } => format!("merge:{:?}", p.kind),
        RS::Delete { .. } => "refused-delete".into(),
        RS::CreateThenDelete { .. } => "create-then-delete".into(),
        RS::LinkThenDelete { .. } => "link-then-delete".into(),
        _ => "other".into(),
    }
}

/// Writes reach the buffer before the statement fails?
fn partial_writes(rs: &RS, at: Option<usize>) -> bool {
    match rs {
        RS::CreateNodes { px: Some(_), .. } | RS::SetProp { px: Some(_), .. } | RS::Merge { px: Some(_), .. } => at.is_some_and(|a| a >= 1),
        RS::SetProp { then_delete: true, .. } | RS::MutThenDelete { .. } | RS::CreateThenDelete { .. } | RS::LinkThenDelete { .. } => true,
        _ => false,
    }
}

pub fn run(ctx: &mut RunCtx) {
    ctx.assume("label and relationship-type names interned by a failed statement are not logical content (they are invisible to every read interface of the dump)");
    ctx.assume("inside the explicit transaction the model applies the valid statements with sequential visibility (C24)");
    let cases = ctx.tier.pick(150_000, 3_000_000);
    let test = |c: &Case, obs: &mut Obs| {
        let mut w = World::new()?;
        let none: BTreeSet<u32> = BTreeSet::new();
        // ---- setup (auto-commit, must succeed)
        let mut pre: Vec<Op> = vec![
            Op::CreateNodes { labels: vec![0], vals: (0..c.nodes).map(|i| cyw::Val::Int(i as i64)).collect() },
            Op::CreatePairs { la: 0, lb: 1, ty: 0, w: Some(1), n: c.pairs },
        ];
        pre.extend(c.setup.iter().cloned());
        for op in &pre {
            let Some(rs) = cyw::resolve(op, &w.model, &Pool { only: None, recent: &none }, &mut w.next_k) else { continue };
            let mut m = w.model.clone();
            let expect = rs.apply(&mut m);
            let r = w.exec_auto(Route::CapiWrite, &rs.render())?;
            match (expect, r) {
                (Ok(()), Ok(_)) => w.model = m,
                (Err(_), Err(_)) => {}
                (Ok(()), Err(e)) => return Err(w.fail_with_log(Failure::new("valid-statement-failed", format!("setup statement failed: {e}")))),
                // a refused delete that went through is C14's subject; this case cannot continue
                (Err(_), Ok(_)) => {
                    obs.class("setup-diverged");
                    return Ok(());
                }
            }
        }
        w.check().map_err(|f| w.fail_with_log(f))?;
        let committed = w.live();
        // in transaction mode the failing statement is resolved later, against the state
        // the transaction has reached
        let (mut bad, mut at) = (cyw::RS::Syntax, None);
        if let Mode::Auto(_) = &c.mode {
            (bad, at) = cyw::resolve_bad(&c.bad, &w.model, &committed, &mut w.next_k);
        }
        let mut text = bad.render();
        let mut kind = kind_name(&bad);
        match &c.mode {
            Mode::Auto(route) => {
                let r = w.exec_auto(*route, &text)?;
                if r.is_ok() {
                    obs.class(&format!("no-error:{kind}"));
                    return Ok(());
                }
                obs.class(&format!("auto:{route:?}"));
                obs.class(&format!("kind:{kind}"));
                let nt = partial_writes(&bad, at);
                obs.set_nontrivial(nt);
                obs.sub_eval(nt.then(|| fp(&(0u8, &kind, at, bad.row_count()))));
                let ctxs = format!("auto-{route:?}");
                w.check().map_err(|f| w.fail_with_log(wrap(&ctxs, f)))?;
                // and a later valid statement still works on the untouched state
                let rs = RS::CreateNodes { labels: vec!["A".into()], rows: vec![(w.next_k, crate::pv::PV::Int(1))], px: None };
                w.next_k += 1;
                let mut m = w.model.clone();
                rs.apply(&mut m).expect("valid");
                if let Err(e) = w.exec_auto(Route::CapiWrite, &rs.render())? {
                    return Err(w.fail_with_log(Failure::new("valid-statement-failed:after-failed-statement", format!("statement after the failed one failed: {e}"))));
                }
                w.model = m;
                w.check().map_err(|f| w.fail_with_log(wrap(&ctxs, f)))?;
            }
            Mode::Txn { before, after, reopen } => {
                let mut log = std::mem::take(&mut w.log);
                let mut model = w.model.clone();
                let mut next_k = w.next_k;
                let outcome: Result<Option<&'static str>, Failure> = (|| {
                    let mut t = w.cdb().begin_write().map_err(|e| Failure::new("capi-call-failed:ndb_begin_write", e.to_string()))?;
                    log.push("begin".into());
                    let mut recent = BTreeSet::new();
                    let mut valid = |ops: &Vec<Op>, model: &mut crate::model::Model, next_k: &mut i64, t: &mut crate::capi_util::CTxn<'_>, log: &mut Vec<String>, recent: &mut BTreeSet<u32>| -> Result<(), Failure> {
                        for op in ops {
                            let Some(rs) = cyw::resolve(op, model, &Pool { only: None, recent }, next_k) else { continue };
                            let mut m = model.clone();
                            if rs.apply(&mut m).is_err() {
                                continue;
                            }
                            if let Err(e) = cyw::txn_stmt(log, t, &rs.render()) {
                                return Err(Failure::new("valid-statement-failed:in-txn", format!("valid statement inside the transaction failed: {e}")));
                            }
                            recent.extend(cyw::touched(model, &m));
                            *model = m;
                        }
                        Ok(())
                    };
                    valid(before, &mut model, &mut next_k, &mut t, &mut log, &mut recent)?;
                    let live: BTreeSet<u32> = model.nodes.keys().copied().collect();
                    (bad, at) = cyw::resolve_bad(&c.bad, &model, &live, &mut next_k);
                    text = bad.render();
                    kind = kind_name(&bad);
                    if bad.reads().iter().any(|k| cyw::nodes_with_k(&model, *k).iter().any(|n| recent.contains(n))) {
                        kind.push_str("+own-writes");
                    }
                    if cyw::txn_stmt(&mut log, &mut t, &text).is_ok() {
                        let _ = t.rollback();
                        return Ok(Some("no-error"));
                    }
                    valid(after, &mut model, &mut next_k, &mut t, &mut log, &mut recent)?;
                    log.push("commit".into());
                    t.commit().map_err(|e| Failure::new("commit-failed-after-failed-statement", format!("ndb_txn_commit failed: {e}")))?;
                    Ok(None)
                })();
                w.log = log;
                match outcome {
                    Err(f) => return Err(w.fail_with_log(f)),
                    Ok(Some(_)) => {
                        obs.class(&format!("no-error:{kind}"));
                        return Ok(());
                    }
                    Ok(None) => {}
                }
                w.model = model;
                w.next_k = next_k;
                obs.class("txn");
                obs.class(&format!("kind:{kind}"));
                obs.class_if(!before.is_empty() && !after.is_empty(), "txn:valid-before-and-after");
                let nt = partial_writes(&bad, at);
                obs.set_nontrivial(nt);
                obs.sub_eval(nt.then(|| fp(&(1u8, &kind, at, bad.row_count()))));
                w.check().map_err(|f| w.fail_with_log(wrap("txn", f)))?;
                if *reopen {
                    obs.class("txn:reopen");
                    w.reopen().map_err(|f| w.fail_with_log(f))?;
                    w.check().map_err(|f| w.fail_with_log(wrap("txn-reopen", f)))?;
                }
            }
        }
        Ok(())
    };
    ctx.explore(
        "statements",
        "generated state (2-6 nodes, 1-2 connected pairs, 0-3 more statements), then one statement constructed to fail: multi-row UNWIND-driven CREATE / MATCH+SET / MERGE whose row `at` raises (toInteger/toBoolean/list index/labels()/range limit/node as property value), SET followed by a refused DELETE, refused DELETE, CREATE+DELETE of a connected node, syntax error; run (a) auto-commit through ndb_execute_write, the Rust API and ndb_prepare_write+step: full dump == model before; (b) inside an explicit C-API transaction between 0-2 valid statements before and after, then ndb_txn_commit: full dump == model of the valid statements only (optionally again after close+open). Only cases where the statement returned an error count. Non-trivial = writes were buffered before the failure (failure at row >= 2, or SET/CREATE before a refused DELETE)",
        cases,
        strategy,
        test,
    );
}
