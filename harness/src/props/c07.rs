//! C07 Uncommitted transactions leave no trace.
//!
//! Twin databases: A executes the generated history, B executes the same history with every
//! abandoned transaction removed (B is "the same history without them"). After every abandon
//! and around every reopen: dump(A) == model, Cypher battery / index lookups / vector search
//! of A == those of B, and (metamorphic) the observations of A immediately before the
//! transaction began equal those after it was abandoned.
use super::c31::{self, Hits, VModel};
use crate::cy::{self, CV};
use crate::engine::{CaseResult, Failure, Obs, RunCtx, catch, fp, idx};
use crate::hist::{self, Excl, KEYS, LABELS, Op, RW, Runner, TYPES, TxFlags, W};
use crate::pv::PV;
use nervusdb::{Db, GraphSnapshot};
use proptest::prelude::*;
use serde::{Deserialize, Serialize};
use std::collections::{BTreeMap, BTreeSet};
use std::ffi::CString;

const DIM: usize = 3;
const HNSW_M: usize = 16;

/// Cypher write statements used inside abandoned C-API transactions.
#[derive(Debug, Clone, Serialize, Deserialize, PartialEq)]
pub enum CyW {
    CreateNode { l: u8, v: i8 },
    /// new label and new relationship type
    CreateNew,
    SetProp { n: u16, k: u8, v: i8 },
    SetAllOfLabel { l: u8, k: u8, v: i8 },
    DetachDelete { n: u16 },
    AddLabel { n: u16, new: bool, l: u8 },
    RemoveProp { n: u16, k: u8 },
    CreateEdge { a: u16, b: u16, t: u8 },
    DeleteAllRels,
    Merge,
}

impl CyW {
    fn text(&self, live: &[u32]) -> String {
        let node = |i: &u16| if live.is_empty() { 0 } else { live[idx(*i, live.len())] };
        let label = |l: &u8| LABELS[*l as usize % LABELS.len()];
        let key = |k: &u8| KEYS[*k as usize % KEYS.len()];
        match self {
            CyW::CreateNode { l, v } => format!("CREATE (n:{} {{p: {v}, name: 'abandoned'}})", label(l)),
            CyW::CreateNew => "CREATE (a:Zed {p: 1})-[:NEWT {q: 2}]->(b:B)".to_string(),
            CyW::SetProp { n, k, v } => format!("MATCH (n) WHERE id(n) = {} SET n.{} = {v}", node(n), key(k)),
            CyW::SetAllOfLabel { l, k, v } => format!("MATCH (n:{}) SET n.{} = {v}", label(l), key(k)),
            CyW::DetachDelete { n } => format!("MATCH (n) WHERE id(n) = {} DETACH DELETE n", node(n)),
            CyW::AddLabel { n, new, l } => format!("MATCH (n) WHERE id(n) = {} SET n:{}", node(n), if *new { "Zed2" } else { label(l) }),
            CyW::RemoveProp { n, k } => format!("MATCH (n) WHERE id(n) = {} REMOVE n.{}", node(n), key(k)),
            CyW::CreateEdge { a, b, t } => format!(
                "MATCH (a), (b) WHERE id(a) = {} AND id(b) = {} CREATE (a)-[:{}]->(b)",
                node(a),
                node(b),
                TYPES[*t as usize % TYPES.len()]
            ),
            CyW::DeleteAllRels => "MATCH ()-[r]->() DELETE r".to_string(),
            CyW::Merge => "MERGE (n:A {name: 'merged'}) ON CREATE SET n.q = 1".to_string(),
        }
    }
}

/// Statements that write first and then raise (verified by probe: `toBoolean(<int>)` and
/// `toInteger(<list>)` raise InvalidArgumentValue).
#[derive(Debug, Clone, Copy, Serialize, Deserialize, PartialEq)]
pub enum FailStmt {
    CreateThenToBoolean,
    CreateNewLabelThenToInteger,
    SetAllThenFail,
}

impl FailStmt {
    fn text(self) -> &'static str {
        match self {
            FailStmt::CreateThenToBoolean => "UNWIND [1, 2, 3] AS x CREATE (n:A {p: x}) WITH n, x WHERE toBoolean(x) RETURN x",
            FailStmt::CreateNewLabelThenToInteger => "CREATE (n:Zed {p: 1}) WITH n UNWIND [0, 1] AS x CREATE (m:B {q: toInteger([x])})",
            FailStmt::SetAllThenFail => "CREATE (z:A {p: 99}) WITH z MATCH (n) SET n.p = 99 WITH n WHERE toBoolean(1) RETURN n",
        }
    }
}

#[derive(Debug, Clone, Serialize, Deserialize, PartialEq)]
pub enum Op7 {
    /// Rust API transaction; `vecs` targets nodes live at the end of the body (created ones included)
    Tx { ws: Vec<W>, vecs: Vec<(u16, Vec<f32>)>, commit: bool },
    /// C API: ndb_begin_write, statements / low-level calls, optional failing statement, ndb_txn_rollback
    CapiAbandon { stmts: Vec<CyW>, new_node_vec: Option<Vec<f32>>, vec_on: Option<(u16, Vec<f32>)>, fail: Option<FailStmt> },
    /// failing auto-commit statement (Rust prepare/execute_mixed or ndb_execute_write)
    AutoFail { f: FailStmt, capi: bool },
    Compact,
    Reopen { close: bool },
    CreateIndex { l: u8, k: u8 },
}

fn cyw() -> BoxedStrategy<CyW> {
    let n = any::<u16>();
    let l = 0u8..LABELS.len() as u8;
    let k = 0u8..KEYS.len() as u8;
    let v = -3i8..100;
    prop_oneof![
        3 => (l.clone(), v.clone()).prop_map(|(l, v)| CyW::CreateNode { l, v }),
        2 => Just(CyW::CreateNew),
        3 => (n, k.clone(), v.clone()).prop_map(|(n, k, v)| CyW::SetProp { n, k, v }),
        3 => (l.clone(), k.clone(), v).prop_map(|(l, k, v)| CyW::SetAllOfLabel { l, k, v }),
        2 => n.prop_map(|n| CyW::DetachDelete { n }),
        2 => (n, any::<bool>(), l).prop_map(|(n, new, l)| CyW::AddLabel { n, new, l }),
        1 => (n, k).prop_map(|(n, k)| CyW::RemoveProp { n, k }),
        2 => (n, n, 0u8..TYPES.len() as u8).prop_map(|(a, b, t)| CyW::CreateEdge { a, b, t }),
        1 => Just(CyW::DeleteAllRels),
        1 => Just(CyW::Merge),
    ]
    .boxed()
}

fn fail_stmt() -> BoxedStrategy<FailStmt> {
    prop::sample::select(vec![FailStmt::CreateThenToBoolean, FailStmt::CreateNewLabelThenToInteger, FailStmt::SetAllThenFail]).boxed()
}

fn op7() -> BoxedStrategy<Op7> {
    let ws = prop::collection::vec(hist::write_op(true), 0..7);
    let vecs = prop::collection::vec((any::<u16>(), c31::vector(DIM)), 0..3);
    prop_oneof![
        6 => (ws.clone(), vecs.clone()).prop_map(|(ws, vecs)| Op7::Tx { ws, vecs, commit: true }),
        6 => (ws, vecs).prop_map(|(ws, vecs)| Op7::Tx { ws, vecs, commit: false }),
        2 => (prop::collection::vec(cyw(), 0..4), prop::option::of(c31::vector(DIM)), prop::option::of((any::<u16>(), c31::vector(DIM))), prop::option::weighted(0.3, fail_stmt()))
            .prop_map(|(stmts, new_node_vec, vec_on, fail)| Op7::CapiAbandon { stmts, new_node_vec, vec_on, fail }),
        2 => (fail_stmt(), any::<bool>()).prop_map(|(f, capi)| Op7::AutoFail { f, capi }),
        1 => Just(Op7::Compact),
        2 => any::<bool>().prop_map(|close| Op7::Reopen { close }),
        // mostly (A|B).(p|q|name): the label/key pairs that the statements touch most
        3 => (prop_oneof![3 => 0u8..2, 1 => 0u8..LABELS.len() as u8], prop_oneof![3 => 0u8..3, 1 => 0u8..KEYS.len() as u8]).prop_map(|(l, k)| Op7::CreateIndex { l, k }),
    ]
    .boxed()
}

// ---------------------------------------------------------------- observations

#[derive(Debug, Clone, PartialEq)]
struct Seen {
    /// per battery query: sorted canonical rows or the error text
    rows: Vec<Result<Vec<Vec<CV>>, String>>,
    lookups: Vec<Option<Vec<u32>>>,
    hits: Vec<Hits>,
}

struct Battery {
    queries: Vec<(String, Vec<(String, PV)>)>,
    lookups: Vec<(String, String, PV)>,
    probes: Vec<(Vec<f32>, usize)>,
}

const FIXED_QUERIES: [&str; 10] = [
    // the node value is canonicalised with sorted labels: the order of labels(n) follows label
    // ids, which openCypher leaves unspecified (and which an abandoned transaction may shift
    // by interning a name first)
    "MATCH (n) RETURN id(n) AS i, n AS n, properties(n) AS p",
    "MATCH (a)-[r]->(b) RETURN id(a) AS a, type(r) AS t, id(b) AS b, properties(r) AS p",
    "MATCH (b)<-[r]-(a) RETURN id(a) AS a, type(r) AS t, id(b) AS b",
    "MATCH (n:A) RETURN id(n) AS i, n.p AS p",
    "MATCH (n:Zed) RETURN count(n) AS c",
    "MATCH (n:Zed2) RETURN count(n) AS c",
    "MATCH ()-[r:NEWT]->() RETURN count(r) AS c",
    "MATCH (n) RETURN count(*) AS c",
    "MATCH (n) WHERE n.p = 99 OR n.name = 'abandoned' OR n.name = 'merged' RETURN id(n) AS i",
    "MATCH (n)-[r]-(m) RETURN count(r) AS c",
];

fn battery(model: &crate::model::Model, indexes: &BTreeSet<(String, String)>, probes: &[(Vec<f32>, usize)]) -> Battery {
    let mut queries: Vec<(String, Vec<(String, PV)>)> = FIXED_QUERIES.iter().map(|q| (q.to_string(), vec![])).collect();
    let mut lookups = Vec::new();
    for (l, k) in indexes {
        let mut vals: Vec<PV> = vec![PV::Int(1), PV::Int(7), PV::Int(99)];
        for n in model.nodes.values() {
            if let Some(v) = n.props.get(k) {
                if vals.len() < 8 && !vals.iter().any(|x| x.same(v)) {
                    vals.push(v.clone());
                }
            }
        }
        for v in vals {
            queries.push((format!("MATCH (n:{l} {{{k}: $v}}) RETURN id(n) AS i"), vec![("v".to_string(), v.clone())]));
            lookups.push((l.clone(), k.clone(), v));
        }
    }
    Battery { queries, lookups, probes: probes.to_vec() }
}

fn observe(db: &Db, b: &Battery) -> Result<Seen, Failure> {
    let mut rows = Vec::new();
    for (q, ps) in &b.queries {
        // the wall clock must not decide a comparison: no effective soft timeout
        let opts = nervusdb::query::ExecuteOptions { soft_timeout_ms: 3_600_000, ..Default::default() };
        let params = cy::params_from(ps, Some(opts));
        match cy::read(db, q, &params) {
            Ok((_, r)) => rows.push(Ok(cy::sorted(r))),
            Err(cy::QErr::Panic(loc, msg)) => return Err(Failure::new(format!("panic@{loc}"), format!("query {q:?} panicked at {loc}: {msg}"))),
            Err(e) => rows.push(Err(e.text())),
        }
    }
    let mut lookups = Vec::new();
    for (l, k, v) in &b.lookups {
        let r = catch(|| {
            let snap = db.snapshot();
            snap.lookup_index(l, k, &v.to_api()).map(|mut ids| {
                ids.sort();
                ids
            })
        })
        .map_err(|(loc, msg)| Failure::new(format!("panic@{loc}"), format!("lookup_index panicked at {loc}: {msg}")))?;
        lookups.push(r);
    }
    let mut hits = Vec::new();
    for (q, k) in &b.probes {
        hits.push(c31::search(db, q, *k)?);
    }
    Ok(Seen { rows, lookups, hits })
}

fn rows_eq(a: &Result<Vec<Vec<CV>>, String>, b: &Result<Vec<Vec<CV>>, String>) -> bool {
    match (a, b) {
        (Ok(x), Ok(y)) => cy::rows_same_multiset(x, y),
        (Err(_), Err(_)) => true,
        _ => false,
    }
}

/// Equal results; equal-distance groups may be ordered differently only at the cut-off.
fn hits_same_up_to_ties(a: &Hits, b: &Hits) -> bool {
    if a.len() != b.len() || a.iter().zip(b).any(|(x, y)| x.1.to_bits() != y.1.to_bits()) {
        return false;
    }
    let mut i = 0;
    while i < a.len() {
        let mut j = i;
        while j < a.len() && a[j].1.to_bits() == a[i].1.to_bits() {
            j += 1;
        }
        if j < a.len() {
            let sa: BTreeSet<u32> = a[i..j].iter().map(|x| x.0).collect();
            let sb: BTreeSet<u32> = b[i..j].iter().map(|x| x.0).collect();
            if sa != sb {
                return false;
            }
        }
        i = j;
    }
    true
}

/// `what`: "abandoned transaction changed ..." (A before vs after) or "differs from the history without ..." (A vs B).
fn compare(sig_prefix: &str, what: &str, b: &Battery, x: &Seen, y: &Seen, exact_vectors: bool) -> CaseResult {
    for (i, (rx, ry)) in x.rows.iter().zip(&y.rows).enumerate() {
        if !rows_eq(rx, ry) {
            fail!(format!("{sig_prefix}:query-result"), "{what}: query {:?} params {:?}\n   first: {rx:?}\n  second: {ry:?}", b.queries[i].0, b.queries[i].1);
        }
    }
    for (i, (lx, ly)) in x.lookups.iter().zip(&y.lookups).enumerate() {
        if lx != ly {
            fail!(format!("{sig_prefix}:index-lookup"), "{what}: lookup_index{:?}\n   first: {lx:?}\n  second: {ly:?}", b.lookups[i]);
        }
    }
    for (i, (hx, hy)) in x.hits.iter().zip(&y.hits).enumerate() {
        let same = if exact_vectors { c31::bits(hx) == c31::bits(hy) } else { hits_same_up_to_ties(hx, hy) };
        if !same {
            fail!(format!("{sig_prefix}:vector-search"), "{what}: search_vector{:?}\n   first: {hx:?}\n  second: {hy:?}", b.probes[i]);
        }
    }
    Ok(())
}

// ---------------------------------------------------------------- C API

struct CapiDb(*mut capi::ndb_db_t);

fn capi_err() -> String {
    let mut buf = vec![0i8; 512];
    let n = capi::ndb_last_error_message(buf.as_mut_ptr().cast(), buf.len());
    let bytes: Vec<u8> = buf.iter().take(n.min(511)).map(|c| *c as u8).collect();
    format!("code {} {}", capi::ndb_last_error_code(), String::from_utf8_lossy(&bytes))
}

impl CapiDb {
    fn open(base: &std::path::Path) -> Result<Self, Failure> {
        let p = CString::new(base.to_str().unwrap()).unwrap();
        let mut db: *mut capi::ndb_db_t = std::ptr::null_mut();
        let rc = c31::guarded("ndb_open", || Ok(capi::ndb_open(p.as_ptr(), &mut db)))?;
        if rc != capi::NDB_OK || db.is_null() {
            return Err(c31::db_fail("ndb_open", capi_err()));
        }
        Ok(CapiDb(db))
    }
    fn close(self) -> Result<(), Failure> {
        let rc = c31::guarded("ndb_close", || Ok(capi::ndb_close(self.0)))?;
        if rc != capi::NDB_OK {
            return Err(c31::db_fail("ndb_close", capi_err()));
        }
        Ok(())
    }
}

/// Runs an abandoned C-API transaction. Returns the number of calls that reported success.
fn capi_abandon(db: &CapiDb, stmts: &[String], new_node_vec: &Option<Vec<f32>>, vec_on: &Option<(u32, Vec<f32>)>, fail: Option<FailStmt>, ext: u64) -> Result<usize, Failure> {
    let r = catch(|| -> Result<usize, Failure> {
        let mut ok = 0usize;
        let mut txn: *mut capi::ndb_txn_t = std::ptr::null_mut();
        if capi::ndb_begin_write(db.0, &mut txn) != capi::NDB_OK || txn.is_null() {
            return Err(c31::db_fail("ndb_begin_write", capi_err()));
        }
        for s in stmts {
            let c = CString::new(s.as_str()).unwrap();
            if capi::ndb_txn_query(txn, c.as_ptr(), std::ptr::null()) == capi::NDB_OK {
                ok += 1;
            }
        }
        if let Some(v) = new_node_vec {
            let name = CString::new("Zed").unwrap();
            let mut label = 0u32;
            let mut node = 0u32;
            if capi::ndb_txn_get_or_create_label(txn, name.as_ptr(), &mut label) == capi::NDB_OK
                && capi::ndb_txn_create_node(txn, ext, label, &mut node) == capi::NDB_OK
                && capi::ndb_txn_set_vector(txn, node, v.as_ptr(), v.len()) == capi::NDB_OK
            {
                ok += 1;
            }
        }
        if let Some((n, v)) = vec_on {
            if capi::ndb_txn_set_vector(txn, *n, v.as_ptr(), v.len()) == capi::NDB_OK {
                ok += 1;
            }
        }
        if let Some(f) = fail {
            let c = CString::new(f.text()).unwrap();
            if capi::ndb_txn_query(txn, c.as_ptr(), std::ptr::null()) == capi::NDB_OK {
                let _ = capi::ndb_txn_rollback(txn);
                return Err(Failure::new("harness:failing-statement-succeeded", format!("{:?} returned NDB_OK inside a transaction", f.text())));
            }
        }
        if capi::ndb_txn_rollback(txn) != capi::NDB_OK {
            return Err(c31::db_fail("ndb_txn_rollback", capi_err()));
        }
        Ok(ok)
    });
    match r {
        Ok(x) => x,
        Err((loc, msg)) => Err(Failure::new(format!("panic@{loc}"), format!("C API transaction panicked at {loc}: {msg}"))),
    }
}

// ---------------------------------------------------------------- the case

fn exec_tx(db: &Db, rws: &[RW], vecs: &[(u32, Vec<f32>)], commit: bool) -> Result<(), Failure> {
    let r = catch(|| -> Result<(), (String, String)> {
        let mut tx = db.begin_write();
        hist::apply_rws(&mut tx, rws)?;
        for (n, v) in vecs {
            tx.set_vector(*n, v.clone()).map_err(|e| ("set_vector".to_string(), e.to_string()))?;
        }
        if commit {
            tx.commit().map_err(|e| ("commit".to_string(), e.to_string()))?;
        } else {
            drop(tx);
        }
        Ok(())
    });
    match r {
        Ok(Ok(())) => Ok(()),
        Ok(Err((what, e))) => Err(c31::db_fail(&what, e)),
        Err((loc, msg)) => Err(Failure::new(format!("panic@{loc}"), format!("transaction panicked at {loc}: {msg}"))),
    }
}

fn vmodel(model: &crate::model::Model, vecs: &BTreeMap<u32, Vec<f32>>) -> VModel {
    VModel { next: model.next_iid, live: model.nodes.keys().copied().collect(), dead: model.dead.clone(), vecs: vecs.clone(), reinserted: false }
}

fn check_all_hits(model: &crate::model::Model, vecs: &BTreeMap<u32, Vec<f32>>, b: &Battery, s: &Seen, which: &str) -> CaseResult {
    let vm = vmodel(model, vecs);
    for ((q, k), h) in b.probes.iter().zip(&s.hits) {
        c31::check_hits(&vm, HNSW_M, q, *k, h, which)?;
    }
    Ok(())
}

fn run_case(ops: &Vec<Op7>, obs: &mut Obs) -> CaseResult {
    let dir_a = crate::engine::temp_dir();
    let dir_b = crate::engine::temp_dir();
    let mut a = Runner::new(dir_a.join("db"), Excl::default())?;
    let mut b = Runner::new(dir_b.join("db"), Excl::default())?;
    let mut vecs: BTreeMap<u32, Vec<f32>> = BTreeMap::new();
    let mut indexes: BTreeSet<(String, String)> = BTreeSet::new();
    // probes: the zero vector plus every vector that an abandoned transaction of this case writes
    let mut probes: Vec<(Vec<f32>, usize)> = vec![(vec![0.0; DIM], 5)];
    for o in ops {
        let mut add = |v: &Vec<f32>| {
            if probes.len() < 9 {
                probes.push((v.clone(), 1));
                probes.push((v.clone(), 40));
            }
        };
        match o {
            Op7::Tx { vecs, commit: false, .. } => vecs.iter().for_each(|(_, v)| add(v)),
            Op7::CapiAbandon { new_node_vec, vec_on, .. } => {
                new_node_vec.iter().for_each(&mut add);
                vec_on.iter().for_each(|(_, v)| add(v));
            }
            _ => {}
        }
    }
    let mut abandoned_with_writes = 0u32;
    let mut pending_abandon = false; // an abandon happened and no reopen/compaction since
    let mut ext_counter: u64 = 1 << 40;
    let log = |a: &Runner, f: Failure| a.fail_with_log(f);

    for (step, o) in ops.iter().enumerate() {
        let small = vecs.len() <= 2 * HNSW_M + 1;
        match o {
            Op7::Tx { ws, vecs: vspec, commit } => {
                let mut m2 = a.model.clone();
                let mut flags = TxFlags::default();
                let rws = hist::resolve_tx(&mut m2, ws, &a.excl, &a.hz, obs, &mut flags);
                let targets = m2.live_nodes();
                let vs: Vec<(u32, Vec<f32>)> = if targets.is_empty() { vec![] } else { vspec.iter().map(|(n, v)| (targets[idx(*n, targets.len())], v.clone())).collect() };
                a.log.push(format!("Tx(commit={commit}) {rws:?} vectors {vs:?}"));
                if *commit {
                    exec_tx(a.db(), &rws, &vs, true).map_err(|f| log(&a, f))?;
                    exec_tx(b.db(), &rws, &vs, true).map_err(|f| log(&a, f))?;
                    a.model = m2.clone();
                    b.model = m2;
                    for (n, v) in vs {
                        vecs.insert(n, v);
                    }
                    obs.sub_eval(None);
                    a.check().map_err(|f| log(&a, f))?;
                } else {
                    let bat = battery(&a.model, &indexes, &probes);
                    let before = observe(a.db(), &bat).map_err(|f| log(&a, f))?;
                    exec_tx(a.db(), &rws, &vs, false).map_err(|f| log(&a, f))?;
                    a.model.next_ext = m2.next_ext;
                    b.model.next_ext = m2.next_ext;
                    let has_writes = !rws.is_empty() || !vs.is_empty();
                    let index_relevant = rws.iter().any(|w| match w {
                        RW::SetNodeProp { n, k, .. } | RW::RemoveNodeProp { n, k } => m2.nodes.get(n).or(a.model.nodes.get(n)).is_some_and(|node| node.labels.iter().any(|l| indexes.contains(&(l.clone(), k.clone())))),
                        _ => false,
                    });
                    obs.class("abandon:rust-drop");
                    obs.class_if(!vs.is_empty(), "abandoned-body:set_vector");
                    obs.class_if(index_relevant, "abandoned-body:indexed-property-change");
                    obs.class_if(flags.deletes, "abandoned-body:delete");
                    obs.class_if(flags.label_mutation, "abandoned-body:label-change");
                    after_abandon(&mut a, &b, &vecs, &bat, &before, small, has_writes, step, obs)?;
                    if has_writes {
                        abandoned_with_writes += 1;
                        pending_abandon = true;
                    }
                }
            }
            Op7::CapiAbandon { stmts, new_node_vec, vec_on, fail } => {
                let live = a.model.live_nodes();
                let texts: Vec<String> = stmts.iter().map(|s| s.text(&live)).collect();
                let on: Option<(u32, Vec<f32>)> = match vec_on {
                    Some((n, v)) if !live.is_empty() => Some((live[idx(*n, live.len())], v.clone())),
                    _ => None,
                };
                a.log.push(format!("CapiAbandon {texts:?} new_node_vec {new_node_vec:?} vec_on {on:?} fail {fail:?}"));
                let bat = battery(&a.model, &indexes, &probes);
                let before = observe(a.db(), &bat).map_err(|f| log(&a, f))?;
                // hand the files over to a C API handle (no second handle on the same files)
                drop(a.db.take());
                let h = CapiDb::open(&a.base).map_err(|f| log(&a, f))?;
                ext_counter += 1;
                let ok_calls = capi_abandon(&h, &texts, new_node_vec, &on, *fail, ext_counter).map_err(|f| log(&a, f))?;
                h.close().map_err(|f| log(&a, f))?;
                a.db = Some(hist::open_db(&a.base).map_err(|f| log(&a, f))?);
                // the twin gets the same close + reopen, without the transaction
                b.apply(&Op::CloseReopen, false, false, obs)?;
                obs.class(if fail.is_some() { "abandon:capi-rollback-after-failed-statement" } else { "abandon:capi-rollback" });
                obs.class_if(new_node_vec.is_some() || on.is_some(), "abandoned-body:set_vector");
                obs.class_if(stmts.iter().any(|s| matches!(s, CyW::CreateNew | CyW::AddLabel { new: true, .. })) || new_node_vec.is_some(), "abandoned-body:new-label-or-type");
                let has = |l: &u8, k: &str| indexes.contains(&(LABELS[*l as usize % LABELS.len()].to_string(), k.to_string()));
                let idx_rel = stmts.iter().any(|s| match s {
                    CyW::CreateNode { l, .. } => has(l, "p") || has(l, "name"),
                    CyW::SetAllOfLabel { l, k, .. } => has(l, KEYS[*k as usize % KEYS.len()]),
                    CyW::SetProp { n, k, .. } | CyW::RemoveProp { n, k } if !live.is_empty() => {
                        let node = &a.model.nodes[&live[idx(*n, live.len())]];
                        node.labels.iter().any(|l| indexes.contains(&(l.clone(), KEYS[*k as usize % KEYS.len()].to_string())))
                    }
                    _ => false,
                }) || (fail.is_some() && has(&0, "p"));
                obs.class_if(idx_rel, "abandoned-body:indexed-property-change");
                let has_writes = ok_calls > 0 || fail.is_some();
                after_abandon(&mut a, &b, &vecs, &bat, &before, small, has_writes, step, obs)?;
                if has_writes {
                    abandoned_with_writes += 1;
                }
            }
            Op7::AutoFail { f, capi } => {
                a.log.push(format!("AutoFail {:?} capi={capi}", f.text()));
                let bat = battery(&a.model, &indexes, &probes);
                let before = observe(a.db(), &bat).map_err(|f| log(&a, f))?;
                if *capi {
                    drop(a.db.take());
                    let h = CapiDb::open(&a.base).map_err(|f| log(&a, f))?;
                    let c = CString::new(f.text()).unwrap();
                    let mut n = 0u32;
                    let rc = c31::guarded("ndb_execute_write", || Ok(capi::ndb_execute_write(h.0, c.as_ptr(), std::ptr::null(), &mut n))).map_err(|f| log(&a, f))?;
                    h.close().map_err(|f| log(&a, f))?;
                    a.db = Some(hist::open_db(&a.base).map_err(|f| log(&a, f))?);
                    b.apply(&Op::CloseReopen, false, false, obs)?;
                    if rc == capi::NDB_OK {
                        fail!("harness:failing-statement-succeeded", "{:?} returned NDB_OK", f.text());
                    }
                    obs.class("abandon:failed-auto-commit-capi");
                } else {
                    match cy::write(a.db(), f.text(), &cy::params_from(&[], None)) {
                        Ok(_) => fail!("harness:failing-statement-succeeded", "{:?} succeeded", f.text()),
                        Err(cy::QErr::Panic(loc, msg)) => fail!(format!("panic@{loc}"), "statement panicked at {loc}: {msg}"),
                        Err(_) => {}
                    }
                    pending_abandon = true;
                    obs.class("abandon:failed-auto-commit-rust");
                }
                obs.class_if(matches!(f, FailStmt::CreateNewLabelThenToInteger), "abandoned-body:new-label-or-type");
                obs.class_if(indexes.contains(&("A".to_string(), "p".to_string())) && !matches!(f, FailStmt::CreateNewLabelThenToInteger), "abandoned-body:indexed-property-change");
                after_abandon(&mut a, &b, &vecs, &bat, &before, small, true, step, obs)?;
                abandoned_with_writes += 1;
            }
            Op7::Compact => {
                a.apply(&Op::Compact, false, false, obs).map_err(|f| log(&a, f))?;
                b.apply(&Op::Compact, false, false, obs)?;
                obs.class_if(pending_abandon, "compaction-after-abandon");
                obs.sub_eval(None);
                a.check().map_err(|f| log(&a, f))?;
            }
            Op7::Reopen { close } => {
                let op = if *close { Op::CloseReopen } else { Op::DropReopen };
                a.apply(&op, false, false, obs).map_err(|f| log(&a, f))?;
                b.apply(&op, false, false, obs)?;
                obs.class_if(pending_abandon, "reopen-after-abandon");
                pending_abandon = false;
                let bat = battery(&a.model, &indexes, &probes);
                let sa = observe(a.db(), &bat).map_err(|f| log(&a, f))?;
                let sb = observe(b.db(), &bat)?;
                obs.sub_eval(None);
                a.check().map_err(|f| Failure::new(format!("after-reopen:{}", f.signature), f.message)).map_err(|f| log(&a, f))?;
                check_all_hits(&a.model, &vecs, &bat, &sa, "after reopen").map_err(|f| log(&a, f))?;
                compare("after-reopen-differs-from-history-without-abandoned", "after reopen, the history with abandoned transactions (first) differs from the same history without them (second)", &bat, &sa, &sb, false).map_err(|f| log(&a, f))?;
            }
            Op7::CreateIndex { l, k } => {
                let op = Op::CreateIndex { l: *l, k: *k };
                a.apply(&op, false, false, obs).map_err(|f| log(&a, f))?;
                b.apply(&op, false, false, obs)?;
                indexes.insert((LABELS[*l as usize % LABELS.len()].to_string(), KEYS[*k as usize % KEYS.len()].to_string()));
            }
        }
    }
    // end of history: compare, then reopen both and compare again
    for round in 0..2 {
        let bat = battery(&a.model, &indexes, &probes);
        let sa = observe(a.db(), &bat).map_err(|f| log(&a, f))?;
        let sb = observe(b.db(), &bat)?;
        obs.sub_eval(None);
        a.check().map_err(|f| log(&a, f))?;
        b.check()?;
        check_all_hits(&a.model, &vecs, &bat, &sa, "end of history").map_err(|f| log(&a, f))?;
        compare(
            if round == 0 { "differs-from-history-without-abandoned" } else { "after-reopen-differs-from-history-without-abandoned" },
            "the history with abandoned transactions (first) differs from the same history without them (second)",
            &bat,
            &sa,
            &sb,
            false,
        )
        .map_err(|f| log(&a, f))?;
        if round == 0 {
            a.apply(&Op::DropReopen, false, false, obs).map_err(|f| log(&a, f))?;
            b.apply(&Op::DropReopen, false, false, obs)?;
        }
    }
    obs.class_if(abandoned_with_writes >= 2, "several-abandoned-transactions");
    obs.set_nontrivial(abandoned_with_writes > 0);
    Ok(())
}

#[allow(clippy::too_many_arguments)]
fn after_abandon(a: &mut Runner, b: &Runner, vecs: &BTreeMap<u32, Vec<f32>>, bat: &Battery, before: &Seen, small: bool, has_writes: bool, step: usize, obs: &mut Obs) -> CaseResult {
    let after = observe(a.db(), bat).map_err(|f| a.fail_with_log(f))?;
    obs.sub_eval(if has_writes { Some(fp(&step)) } else { None });
    a.check().map_err(|f| Failure::new(format!("after-abandon:{}", f.signature), f.message)).map_err(|f| a.fail_with_log(f))?;
    compare("abandoned-transaction-changed", "observations immediately before the transaction began (first) and after it was abandoned (second) differ", bat, before, &after, true).map_err(|f| a.fail_with_log(f))?;
    check_all_hits(&a.model, vecs, bat, &after, "after abandon").map_err(|f| a.fail_with_log(f))?;
    let sb = observe(b.db(), bat)?;
    let _ = small;
    compare("differs-from-history-without-abandoned", "the history with abandoned transactions (first) differs from the same history without them (second)", bat, &after, &sb, false).map_err(|f| a.fail_with_log(f))
}

pub fn run(ctx: &mut RunCtx) {
    // SAFETY: single-threaded here (shards are spawned by explore and joined before it returns)
    unsafe {
        std::env::set_var("NERVUSDB_HNSW_M", HNSW_M.to_string());
        std::env::remove_var("NERVUSDB_HNSW_EF_CONSTRUCTION");
        std::env::remove_var("NERVUSDB_HNSW_EF_SEARCH");
    }
    ctx.assume("label / relationship-type names interned by an abandoned transaction stay in the name dictionary (they are logged by get_or_create_label itself); this is not observable through queries, vector search or the dump and is not asserted");
    ctx.assume("external ids used by an abandoned transaction are not reused by later transactions of the history (both twins skip them)");
    ctx.assume("C API transactions run on a handle of their own: the Rust handle is dropped before ndb_open and reopened after ndb_close, and the twin database gets the same close + reopen");
    ctx.assume("vector comparison between the twins tolerates a different choice among equal distances at the cut-off; the index stays in the exact regime (<= 33 vectors, M = 16) for almost every case");
    let cases = ctx.tier.pick(40_000, 150_000);
    let max_ops = ctx.tier.pick(14, 30);
    ctx.explore(
        "histories",
        "twin databases: generated history (committed and abandoned Rust transactions with every write kind incl. set_vector, abandoned C-API transactions of Cypher statements and low-level calls ended by ndb_txn_rollback with or without a failed statement, failing auto-commit statements through Rust and ndb_execute_write, index creation, compaction, reopen) vs the same history without the abandoned transactions; after each abandon: dump == model, battery of Cypher reads / lookup_index / search_vector equal before Begin and after the abandon and equal to the twin; same after every reopen and at the end; non-trivial = >=1 abandoned transaction that performed a write",
        cases,
        move || prop::collection::vec(op7(), 1..max_ops),
        run_case,
    );
}
