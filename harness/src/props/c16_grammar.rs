//! Choice-tape driven Cypher generator shared by the C16 check and the libFuzzer target
//! (`verif/fuzz/fuzz_targets/query_exec.rs` includes this file with `#[path]`).
//!
//! Only `std` is used. A derivation is a function of a byte tape: `pick(n)` consumes one
//! byte (two when `n > 256`) and an exhausted tape answers 0 / "no", so every production
//! lists its simplest alternative first and shrinking the tape (shorter, smaller bytes)
//! shrinks the query. The generator tracks the variables in scope so that most queries
//! pass binding validation and reach execution; a small share of deliberately wrong
//! variable kinds / unknown names keeps the error paths covered.

pub struct Tape<'a> {
    data: &'a [u8],
    pos: usize,
}

impl<'a> Tape<'a> {
    pub fn new(data: &'a [u8]) -> Self {
        Tape { data, pos: 0 }
    }
    pub fn byte(&mut self) -> u8 {
        let b = self.data.get(self.pos).copied().unwrap_or(0);
        self.pos += 1;
        b
    }
    /// Uniform-ish choice in `0..n`; 0 once the tape is exhausted.
    pub fn pick(&mut self, n: usize) -> usize {
        if n <= 1 {
            return 0;
        }
        if n <= 256 {
            (self.byte() as usize * n) >> 8
        } else {
            let v = ((self.byte() as usize) << 8) | self.byte() as usize;
            (v * n) >> 16
        }
    }
    /// True with probability about `p`/256; false once the tape is exhausted.
    pub fn chance(&mut self, p: u16) -> bool {
        let b = self.byte() as u16;
        b != 0 && b + p > 255
    }
    pub fn exhausted(&self) -> bool {
        self.pos >= self.data.len()
    }
    pub fn rest(&mut self) -> &'a [u8] {
        let r = &self.data[self.pos.min(self.data.len())..];
        self.pos = self.data.len();
        r
    }
}

pub const LABELS: [&str; 5] = ["A", "B", "C", "D", "Person"];
pub const TYPES: [&str; 4] = ["R", "S", "A", "KNOWS"];
pub const KEYS: [&str; 6] = ["p", "q", "name", "k4", "k5", "age"];

/// (name, min args, max args)
pub const FUNCTIONS: &[(&str, u8, u8)] = &[
    ("abs", 1, 1), ("ceil", 1, 1), ("floor", 1, 1), ("round", 1, 1), ("sign", 1, 1), ("sqrt", 1, 1),
    ("log", 1, 1), ("e", 0, 0), ("pi", 0, 0), ("rand", 0, 0), ("exp", 1, 1), ("sin", 1, 1),
    ("toLower", 1, 1), ("toUpper", 1, 1), ("reverse", 1, 1), ("toString", 1, 1), ("trim", 1, 1),
    ("lTrim", 1, 1), ("rTrim", 1, 1), ("substring", 2, 3), ("left", 2, 2), ("right", 2, 2),
    ("replace", 3, 3), ("split", 2, 2), ("coalesce", 1, 3), ("size", 1, 1), ("head", 1, 1),
    ("tail", 1, 1), ("last", 1, 1), ("keys", 1, 1), ("length", 1, 1), ("nodes", 1, 1),
    ("relationships", 1, 1), ("range", 2, 3), ("properties", 1, 1), ("startNode", 1, 1),
    ("endNode", 1, 1), ("labels", 1, 1), ("type", 1, 1), ("id", 1, 1), ("toInteger", 1, 1),
    ("toFloat", 1, 1), ("toBoolean", 1, 1), ("exists", 1, 1), ("date", 0, 1), ("time", 0, 1),
    ("localtime", 0, 1), ("datetime", 0, 1), ("localdatetime", 0, 1), ("duration", 1, 1),
    ("datetime.fromepoch", 2, 2), ("datetime.fromepochmillis", 1, 1), ("date.truncate", 2, 3),
    ("datetime.truncate", 2, 3), ("localdatetime.truncate", 2, 3), ("time.truncate", 2, 3),
    ("localtime.truncate", 2, 3), ("duration.between", 2, 2), ("duration.inMonths", 2, 2),
    ("duration.inDays", 2, 2), ("duration.inSeconds", 2, 2), ("date.transaction", 0, 1),
    ("datetime.realtime", 0, 1), ("unknownFunction", 0, 2), ("my.ns.func", 0, 2),
];

pub const AGGREGATES: &[&str] = &["count", "sum", "avg", "min", "max", "collect", "percentileDisc", "percentileCont"];

const TEMPORAL_STRINGS: &[&str] = &[
    "2015-07-21", "2015-W30-2", "2015-202", "1984-10-11T12:31:14.645876123+01:00", "12:31:14.645876123",
    "21:40:32+01:00", "2015-07-21T21:40:32.142[Europe/London]", "P14DT16H12M", "P1Y2M3W4DT5H6M7.5S",
    "-P1Y", "PT0.000000001S", "P999999999999Y", "+999999999-12-31", "-999999999-01-01", "0000-01-01",
    "9999-12-31T23:59:59.999999999Z", "2015-02-30", "24:00:00", "1970-01-01T00:00:00+18:00",
    "P9223372036854775807D", "PT9223372036854775807S", "P-9223372036854775808M", "",
];

const TEMPORAL_KEYS: &[&str] = &[
    "year", "month", "day", "hour", "minute", "second", "millisecond", "microsecond", "nanosecond",
    "week", "dayOfWeek", "ordinalDay", "quarter", "dayOfQuarter", "timezone", "years", "months", "weeks",
    "days", "hours", "minutes", "seconds", "milliseconds", "microseconds", "nanoseconds", "date", "time",
    "datetime", "epochSeconds", "epochMillis",
];

/// Literals the lexer / parser rejects (the whole statement dies with them): used rarely.
const BAD_NUMBERS: &[&str] = &[
    "9223372036854775808", "99999999999999999999", "0x8000000000000001", "0xFFFFFFFFFFFFFFFFF", "0o777777777777777777777777",
    "0x", "1_000", "1e309", "1e", "1.e5x", "0o8", "123456789012345678901234567890",
];

const INTS: &[&str] = &[
    "0", "1", "2", "3", "7", "10", "100", "1000", "65536", "2147483647", "2147483648", "4294967295",
    "4294967296", "9007199254740993", "9223372036854775806", "9223372036854775807", "0x7FFFFFFFFFFFFFFF", "0o17",
    "0o777777777777777777777", "00", "007", "4611686018427387904", "3037000500", "86400000000000", "1000000000",
];

const FLOATS: &[&str] = &[
    "0.0", "1.0", "0.5", ".5", "1e0", "1e308", "1.7976931348623157e308", "4.9e-324", "1e-400", "1E+10", "3.14159",
    "9223372036854775808.0", "1.0e-5", "0.1e1", "123456789012345678901234567890.0", "9007199254740993.0", "1e18", "1e19",
];

const ODD_STRINGS: &[&str] = &[
    "", "a", "abc", "Abc dEf", " \\t x \\n ", "\\u00e9", "\\u4e2d\\u6587", "\u{e9}\u{4e2d}\u{1F600}", "a\u{301}", "\u{1F468}\u{200D}\u{1F469}\u{200D}\u{1F467}",
    "\u{FFFD}", "\u{10FFFF}", "\\\\", "\\'", "\\\"", "\u{0}", "\u{202E}rtl", "\u{feff}bom", "\u{DF}\u{130}\u{149}", "0", "-1", "1.5", "true", "NaN", "Infinity",
    "null", "\\uD800", "\\u00", "%", "$p0", "`", "MATCH (n) RETURN n", "\u{1F1E9}\u{1F1EA}", "\u{FB01}", "\u{1E9E}",
];

#[derive(Clone, Default)]
struct Scope {
    nodes: Vec<String>,
    rels: Vec<String>,
    paths: Vec<String>,
    scalars: Vec<String>,
    lists: Vec<String>,
}

impl Scope {
    fn all(&self) -> Vec<&String> {
        self.nodes.iter().chain(&self.rels).chain(&self.paths).chain(&self.scalars).chain(&self.lists).collect()
    }
    fn has(&self, v: &str) -> bool {
        self.all().iter().any(|x| x.as_str() == v)
    }
}

pub struct Gen<'a> {
    t: Tape<'a>,
    out: String,
    scope: Scope,
    fresh: u32,
    /// parameter names the caller will bind
    pub params: Vec<String>,
    max_depth: u32,
    max_len: usize,
    pub wrote: bool,
    /// exclusion by construction (open finding "expression loops ignore the timeout"):
    /// loops nested inside loops iterate over small literal lists only and a `reduce`
    /// accumulator is referenced at most once per step
    restrict_loops: bool,
    /// exclusion by construction (open finding "every OPTIONAL MATCH doubles the plan"):
    /// at most `MAX_OPTIONAL` OPTIONAL MATCH clauses per statement
    restrict_optional: bool,
    optional_count: u32,
    loop_depth: u32,
    pub excluded_loops: u32,
}

pub struct Generated {
    pub text: String,
    pub is_write: bool,
    /// how often a nested loop source / accumulator use was restricted
    pub excluded_loops: u32,
}

/// Derives one query from `tape`. `params`: names that will be bound (`$name`).
/// Exclusions by construction that follow from open findings.
#[derive(Debug, Clone, Copy, Default)]
pub struct Restrict {
    pub loops: bool,
    pub optional_chain: bool,
}

pub const MAX_OPTIONAL: u32 = 5;

pub fn generate(tape: &[u8], params: &[String], restrict: Restrict) -> Generated {
    let mut g = Gen {
        t: Tape::new(tape),
        out: String::new(),
        scope: Scope::default(),
        fresh: 0,
        params: params.to_vec(),
        max_depth: 6,
        max_len: 6000,
        wrote: false,
        restrict_loops: restrict.loops,
        restrict_optional: restrict.optional_chain,
        optional_count: 0,
        loop_depth: 0,
        excluded_loops: 0,
    };
    g.max_depth = 2 + g.t.pick(6) as u32;
    g.query(0);
    Generated { text: g.out, is_write: g.wrote, excluded_loops: g.excluded_loops }
}

impl<'a> Gen<'a> {
    fn w(&mut self, s: &str) {
        self.out.push_str(s);
    }
    fn either(&mut self, p: u16, a: &str, b: &str) {
        let s = if self.t.chance(p) { a } else { b };
        self.w(s);
    }
    fn full(&self) -> bool {
        self.out.len() > self.max_len
    }
    fn fresh(&mut self, prefix: &str) -> String {
        self.fresh += 1;
        format!("{prefix}{}", self.fresh)
    }
    fn pick_of<'b>(&mut self, xs: &'b [&'b str]) -> &'b str {
        xs[self.t.pick(xs.len())]
    }

    // ---------------------------------------------------------------- queries
    fn query(&mut self, d: u32) {
        if d == 0 && self.t.chance(10) {
            self.w("EXPLAIN ");
        }
        self.single_query(d);
        let mut unions = 0;
        while unions < 3 && !self.full() && self.t.chance(14) {
            self.either(128, " UNION ALL ", " UNION ");
            self.scope = Scope::default();
            self.single_query(d);
            unions += 1;
        }
    }

    fn single_query(&mut self, d: u32) {
        let outer = if d == 0 { Scope::default() } else { self.scope.clone() };
        let n = 1 + self.t.pick(5);
        let mut terminated = false;
        for i in 0..n {
            if self.full() {
                break;
            }
            if i > 0 {
                self.w(" ");
            }
            match self.t.pick(16) {
                0 | 1 | 2 | 3 => self.match_clause(d),
                4 => self.unwind(d),
                5 | 6 => self.with(d),
                7 => {
                    if d == 0 {
                        self.create()
                    } else {
                        self.match_clause(d)
                    }
                }
                8 => {
                    if d == 0 {
                        self.merge()
                    } else {
                        self.unwind(d)
                    }
                }
                9 => {
                    // updates of existing entities need bound entities ("SET need input")
                    let bound = !self.scope.nodes.is_empty() || !self.scope.rels.is_empty();
                    if d == 0 && (bound || self.t.chance(8)) {
                        self.set_clause()
                    } else if d == 0 {
                        self.match_clause(d)
                    } else {
                        self.with(d)
                    }
                }
                10 => {
                    let bound = !self.scope.nodes.is_empty() || !self.scope.rels.is_empty();
                    if d == 0 && (bound || self.t.chance(8)) {
                        self.delete_or_remove()
                    } else {
                        self.match_clause(d)
                    }
                }
                11 => self.call(d),
                12 => {
                    if d == 0 {
                        self.foreach(d)
                    } else {
                        self.unwind(d)
                    }
                }
                13 => {
                    // a free-standing WHERE is only legal after MATCH / WITH: mostly avoid it first
                    if i > 0 || self.t.chance(8) {
                        self.w("WHERE ");
                        self.expr(1);
                    } else {
                        self.match_clause(d);
                    }
                }
                _ => {
                    self.ret(d);
                    terminated = true;
                }
            }
            if terminated {
                break;
            }
        }
        if !terminated && (!self.wrote || self.t.chance(160)) {
            self.w(" ");
            self.ret(d);
        }
        if d > 0 {
            // the enclosing query keeps its own variables
            let produced = std::mem::replace(&mut self.scope, outer);
            let _ = produced;
        }
    }

    fn match_clause(&mut self, d: u32) {
        if self.t.chance(50) {
            if self.restrict_optional && self.optional_count >= MAX_OPTIONAL {
                self.excluded_loops += 1;
            } else {
                self.optional_count += 1;
                self.w("OPTIONAL ");
            }
        }
        self.w("MATCH ");
        let n = 1 + self.t.pick(2);
        for i in 0..n {
            if i > 0 {
                self.w(", ");
            }
            self.pattern(true, false, d);
        }
        if self.t.chance(110) {
            self.w(" WHERE ");
            { let dd = 1 + self.t.pick(self.max_depth as usize) as u32; self.expr(dd); }
        }
    }

    fn unwind(&mut self, _d: u32) {
        self.w("UNWIND ");
        match self.t.pick(4) {
            0 => self.list_literal(2),
            1 => {
                self.w("range(");
                self.int_lit();
                self.w(", ");
                self.int_lit();
                self.w(")");
            }
            _ => self.expr(2),
        }
        let v = self.fresh("x");
        self.w(" AS ");
        self.w(&v);
        self.scope.scalars.push(v);
    }

    fn projection_items(&mut self, allow_star: bool, always_alias: bool) -> Scope {
        let mut next = Scope::default();
        if allow_star && (!self.scope.all().is_empty() || self.t.chance(6)) && self.t.chance(30) {
            self.w("*");
            next = self.scope.clone();
            if !self.t.chance(60) {
                return next;
            }
            self.w(", ");
        }
        let n = 1 + self.t.pick(4);
        for i in 0..n {
            if i > 0 {
                self.w(", ");
            }
            // keep variables of every kind alive across WITH
            let all_nodes = self.scope.nodes.clone();
            let all_rels = self.scope.rels.clone();
            let all_paths = self.scope.paths.clone();
            match self.t.pick(8) {
                0 | 1 if !all_nodes.is_empty() => {
                    let v = all_nodes[self.t.pick(all_nodes.len())].clone();
                    self.w(&v);
                    if !next.has(&v) {
                        next.nodes.push(v);
                    } else {
                        // the same column twice is ColumnNameConflict: rename the copy
                        let a = self.fresh("d");
                        self.w(" AS ");
                        self.w(&a);
                        next.nodes.push(a);
                    }
                }
                2 if !all_rels.is_empty() => {
                    let v = all_rels[self.t.pick(all_rels.len())].clone();
                    self.w(&v);
                    if !next.has(&v) {
                        next.rels.push(v);
                    } else {
                        // the same column twice is ColumnNameConflict: rename the copy
                        let a = self.fresh("d");
                        self.w(" AS ");
                        self.w(&a);
                        next.rels.push(a);
                    }
                }
                3 if !all_paths.is_empty() => {
                    let v = all_paths[self.t.pick(all_paths.len())].clone();
                    self.w(&v);
                    if !next.has(&v) {
                        next.paths.push(v);
                    } else {
                        // the same column twice is ColumnNameConflict: rename the copy
                        let a = self.fresh("d");
                        self.w(" AS ");
                        self.w(&a);
                        next.paths.push(a);
                    }
                }
                4 => {
                    self.aggregate();
                    let a = self.fresh("agg");
                    self.w(" AS ");
                    self.w(&a);
                    next.scalars.push(a);
                }
                5 => {
                    self.list_literal(2);
                    let a = self.fresh("l");
                    self.w(" AS ");
                    self.w(&a);
                    next.lists.push(a);
                }
                _ => {
                    { let dd = 1 + self.t.pick(self.max_depth as usize) as u32; self.expr(dd); }
                    if always_alias || self.t.chance(230) {
                        let a = self.fresh("c");
                        self.w(" AS ");
                        self.w(&a);
                        next.scalars.push(a);
                    }
                }
            }
        }
        next
    }

    fn order_skip_limit(&mut self) {
        if self.t.chance(70) {
            self.w(" ORDER BY ");
            let n = 1 + self.t.pick(3);
            for i in 0..n {
                if i > 0 {
                    self.w(", ");
                }
                self.expr(2);
                match self.t.pick(5) {
                    1 => self.w(" DESC"),
                    2 => self.w(" ASC"),
                    3 => self.w(" DESCENDING"),
                    _ => {}
                }
            }
        }
        if self.t.chance(40) {
            self.w(" SKIP ");
            self.small_or_odd_count();
        }
        if self.t.chance(60) {
            self.w(" LIMIT ");
            self.small_or_odd_count();
        }
    }

    fn small_or_odd_count(&mut self) {
        match self.t.pick(10) {
            0..=5 => {
                let n = self.t.pick(12);
                self.w(&n.to_string());
            }
            6 => self.w("9223372036854775807"),
            7 => self.w("-1"),
            8 => {
                if let Some(p) = self.param_name() {
                    self.w(&p)
                } else {
                    self.w("0")
                }
            }
            _ => self.expr(1),
        }
    }

    fn with(&mut self, _d: u32) {
        self.w("WITH ");
        if self.t.chance(40) {
            self.w("DISTINCT ");
        }
        let old = self.scope.clone();
        let next = self.projection_items(true, true);
        // ORDER BY / WHERE after WITH see the projected names (and, partly, the old ones)
        self.scope = next.clone();
        if self.t.chance(24) {
            self.scope = old;
        }
        self.order_skip_limit();
        if self.t.chance(60) {
            self.w(" WHERE ");
            self.expr(2);
        }
        self.scope = next;
    }

    fn ret(&mut self, _d: u32) {
        self.w("RETURN ");
        if self.t.chance(40) {
            self.w("DISTINCT ");
        }
        let old = self.scope.clone();
        let next = self.projection_items(true, false);
        if !self.t.chance(40) {
            let mut merged = old;
            merged.scalars.extend(next.scalars.iter().cloned());
            self.scope = merged;
        } else {
            self.scope = next;
        }
        self.order_skip_limit();
    }

    fn call(&mut self, d: u32) {
        if d < 3 && !self.t.chance(100) {
            self.w("CALL { ");
            let before = self.scope.clone();
            if !before.all().is_empty() && self.t.chance(128) {
                self.w("WITH ");
                let vs: Vec<String> = before.all().into_iter().take(2).cloned().collect();
                self.w(&vs.join(", "));
                self.w(" ");
            } else {
                self.scope = Scope::default();
            }
            let a = self.fresh("s");
            match self.t.pick(3) {
                0 => {
                    self.w("RETURN ");
                    self.expr(2);
                    self.w(" AS ");
                    self.w(&a);
                }
                1 => {
                    self.w("MATCH (z) RETURN count(z) AS ");
                    self.w(&a);
                }
                _ => {
                    self.single_query(d + 1);
                    self.scope = before.clone();
                    self.w(" }");
                    return;
                }
            }
            self.w(" }");
            self.scope = before;
            self.scope.scalars.push(a);
        } else {
            match self.t.pick(6) {
                0 => self.w("CALL db.info()"),
                1 => {
                    self.w("CALL math.add(");
                    self.expr(1);
                    self.w(", ");
                    self.expr(1);
                    self.w(") YIELD result");
                    self.scope.scalars.push("result".into());
                }
                2 => self.w("CALL test.doNothing()"),
                3 => {
                    self.w("CALL test.labels() YIELD label");
                    self.scope.scalars.push("label".into());
                }
                4 => {
                    self.w("CALL test.my.proc(");
                    self.expr(1);
                    self.w(", ");
                    self.expr(1);
                    self.w(") YIELD *");
                }
                _ => self.w("CALL no.such.proc(1) YIELD a AS b"),
            }
        }
    }

    fn create(&mut self) {
        self.wrote = true;
        self.w("CREATE ");
        let n = 1 + self.t.pick(2);
        for i in 0..n {
            if i > 0 {
                self.w(", ");
            }
            self.pattern(false, true, 0);
        }
    }

    fn merge(&mut self) {
        self.wrote = true;
        self.w("MERGE ");
        self.pattern(false, true, 0);
        if self.t.chance(70) {
            self.w(" ON CREATE SET ");
            self.set_items();
        }
        if self.t.chance(70) {
            self.w(" ON MATCH SET ");
            self.set_items();
        }
    }

    fn entity_var(&mut self) -> String {
        let mut c: Vec<String> = self.scope.nodes.iter().chain(&self.scope.rels).cloned().collect();
        if c.is_empty() || self.t.chance(6) {
            c = self.scope.all().into_iter().cloned().collect();
        }
        if c.is_empty() {
            return "n".into();
        }
        c[self.t.pick(c.len())].clone()
    }

    fn set_items(&mut self) {
        let n = 1 + self.t.pick(3);
        for i in 0..n {
            if i > 0 {
                self.w(", ");
            }
            let v = self.entity_var();
            match self.t.pick(6) {
                0 | 1 | 2 => {
                    let k = self.pick_of(&KEYS);
                    self.w(&format!("{v}.{k} = "));
                    self.expr(2);
                }
                3 => {
                    self.w(&format!("{v} = "));
                    self.map_literal(2);
                }
                4 => {
                    self.w(&format!("{v} += "));
                    if self.t.chance(128) {
                        self.map_literal(2)
                    } else {
                        self.expr(2)
                    }
                }
                _ => {
                    self.w(&v);
                    let n = 1 + self.t.pick(2);
                    for _ in 0..n {
                        let l = self.pick_of(&LABELS);
                        self.w(":");
                        self.w(l);
                    }
                }
            }
        }
    }

    fn set_clause(&mut self) {
        self.wrote = true;
        self.w("SET ");
        self.set_items();
    }

    fn delete_or_remove(&mut self) {
        self.wrote = true;
        match self.t.pick(4) {
            0 => {
                self.w("REMOVE ");
                let v = self.entity_var();
                let k = self.pick_of(&KEYS);
                self.w(&format!("{v}.{k}"));
                if self.t.chance(80) {
                    let v = self.entity_var();
                    let l = self.pick_of(&LABELS);
                    self.w(&format!(", {v}:{l}"));
                }
            }
            1 => {
                self.w("DELETE ");
                let v = self.entity_var();
                self.w(&v);
            }
            2 => {
                self.w("DETACH DELETE ");
                let v = self.entity_var();
                self.w(&v);
                if self.t.chance(60) {
                    self.w(", ");
                    self.expr(1);
                }
            }
            _ => {
                self.w("DELETE ");
                self.expr(2);
            }
        }
    }

    fn foreach(&mut self, d: u32) {
        self.wrote = true;
        let v = self.fresh("f");
        self.w(&format!("FOREACH ({v} IN "));
        if self.t.chance(150) {
            self.list_literal(2)
        } else {
            self.expr(2)
        }
        self.w(" | ");
        let saved = self.scope.clone();
        self.scope.scalars.push(v);
        let n = 1 + self.t.pick(2);
        for i in 0..n {
            if i > 0 {
                self.w(" ");
            }
            match self.t.pick(6) {
                0 | 1 => self.create(),
                2 => self.merge(),
                3 => self.set_clause(),
                4 if d < 2 => self.foreach(d + 1),
                _ => self.delete_or_remove(),
            }
        }
        self.scope = saved;
        self.w(")");
    }

    // --------------------------------------------------------------- patterns
    /// `bind`: new variables enter the scope; `create`: pattern for CREATE/MERGE.
    fn pattern(&mut self, bind: bool, create: bool, _d: u32) {
        let mut path_var = None;
        let mut wrap = None;
        if !create {
            if self.t.chance(36) {
                let p = self.fresh("p");
                self.w(&format!("{p} = "));
                path_var = Some(p);
            }
            if self.t.chance(16) {
                wrap = Some(if self.t.chance(128) { "shortestPath(" } else { "allShortestPaths(" });
            }
        }
        if let Some(wp) = wrap {
            self.w(wp);
        }
        self.node_pattern(bind || create, create);
        let hops = if wrap.is_some() { 1 } else { self.t.pick(4) };
        for _ in 0..hops {
            self.rel_pattern(bind || create, create, wrap.is_some());
            self.node_pattern(bind || create, create);
        }
        if wrap.is_some() {
            self.w(")");
        }
        if let Some(p) = path_var {
            if bind {
                self.scope.paths.push(p);
            }
        }
    }

    fn node_pattern(&mut self, bind: bool, create: bool) {
        self.w("(");
        match self.t.pick(5) {
            0 => {}
            1 | 2 => {
                let v = self.fresh("n");
                self.w(&v);
                if bind {
                    self.scope.nodes.push(v);
                }
            }
            _ => {
                if !self.scope.nodes.is_empty() {
                    let i = self.t.pick(self.scope.nodes.len());
                    let v = self.scope.nodes[i].clone();
                    self.w(&v);
                    self.w(")");
                    return;
                }
                let v = self.fresh("n");
                self.w(&v);
                if bind {
                    self.scope.nodes.push(v);
                }
            }
        }
        let nl = self.t.pick(3);
        for _ in 0..nl {
            let l = self.pick_of(&LABELS);
            self.w(":");
            self.w(l);
        }
        if self.t.chance(60) {
            self.w(" ");
            self.pattern_props(create);
        }
        self.w(")");
    }

    fn pattern_props(&mut self, _create: bool) {
        self.w("{");
        let n = self.t.pick(3);
        for i in 0..n {
            if i > 0 {
                self.w(", ");
            }
            let k = self.pick_of(&KEYS);
            self.w(k);
            self.w(": ");
            if self.t.chance(40) {
                self.expr(2)
            } else {
                self.literal()
            }
        }
        self.w("}");
    }

    fn rel_pattern(&mut self, bind: bool, create: bool, in_shortest: bool) {
        let dir = if create { 1 + self.t.pick(2) } else { self.t.pick(4) };
        self.w(if dir == 2 { "<-" } else { "-" });
        let detail = create || self.t.chance(200);
        if detail {
            self.w("[");
            if self.t.chance(140) {
                let v = self.fresh("r");
                self.w(&v);
                if bind {
                    self.scope.rels.push(v);
                }
            }
            let nt = if create { 1 } else { self.t.pick(3) };
            for i in 0..nt {
                self.w(if i == 0 { ":" } else { "|" });
                let t = self.pick_of(&TYPES);
                self.w(t);
            }
            if !create && (in_shortest || self.t.chance(40)) {
                match self.t.pick(8) {
                    0 => self.w("*"),
                    1 => self.w("*1..2"),
                    2 => self.w("*0..1"),
                    3 => self.w("*..3"),
                    4 => self.w("*2.."),
                    5 => self.w("*0"),
                    6 => self.w("*3..1"),
                    _ => self.w("*1..4294967295"),
                }
            }
            if self.t.chance(30) {
                self.w(" ");
                self.pattern_props(create);
            }
            self.w("]");
        }
        self.w(match dir {
            1 => "->",
            3 => "->",
            _ => "-",
        });
    }

    // ------------------------------------------------------------ expressions
    fn param_name(&mut self) -> Option<String> {
        if self.params.is_empty() {
            return None;
        }
        let i = self.t.pick(self.params.len());
        Some(format!("${}", self.params[i]))
    }

    fn int_lit(&mut self) {
        match self.t.pick(8) {
            0..=3 => {
                let n = self.t.pick(20) as i64 - 3;
                self.w(&n.to_string());
            }
            4 => {
                let s = self.pick_of(INTS);
                self.w(s);
            }
            5 => {
                let s = self.pick_of(INTS);
                self.w("-");
                self.w(s);
            }
            6 => {
                if self.t.chance(40) {
                    // literals that are rejected, incl. long digit strings
                    if self.t.chance(128) {
                        let s = self.pick_of(BAD_NUMBERS);
                        self.w(s);
                    } else {
                        let n = 20 + self.t.pick(400);
                        let dch = (b'1' + self.t.pick(9) as u8) as char;
                        for _ in 0..n {
                            self.out.push(dch);
                        }
                    }
                } else {
                    let n = 1 + self.t.pick(18);
                    let dch = (b'1' + self.t.pick(8) as u8) as char;
                    for _ in 0..n {
                        self.out.push(dch);
                    }
                }
            }
            _ => {
                let a = self.t.byte() as i64;
                let sh = self.t.pick(63);
                let v = (a << sh).wrapping_sub(self.t.pick(3) as i64);
                self.w(&v.to_string());
            }
        }
    }

    fn string_lit(&mut self) {
        let q = if self.t.chance(60) { '"' } else { '\'' };
        self.out.push(q);
        match self.t.pick(8) {
            0 | 1 => {
                let s = self.pick_of(&["a", "abc", "x", "", "Alice", "foo bar"]);
                self.w(s);
            }
            2 | 3 => {
                let s = self.pick_of(ODD_STRINGS);
                let s = s.replace(q, "");
                self.w(&s);
            }
            4 => {
                let s = self.pick_of(TEMPORAL_STRINGS);
                self.w(s);
            }
            5 => {
                let n = 1 + self.t.pick(3000);
                let unit = self.pick_of(&["a", "ab ", "\u{e9}", "\u{1F600}", "\\n", "0"]);
                for _ in 0..n {
                    self.w(unit);
                }
            }
            _ => {
                let n = self.t.pick(8);
                for _ in 0..n {
                    let b = self.t.byte();
                    let c = match b {
                        0..=94 => (b' ' + b) as char,
                        95..=180 => char::from_u32(0xa0 + (b as u32 - 95) * 37).unwrap_or('?'),
                        181..=230 => char::from_u32(0x4e00 + (b as u32 - 181) * 211).unwrap_or('?'),
                        _ => char::from_u32(0x1F300 + (b as u32 - 231) * 13).unwrap_or('?'),
                    };
                    if c == q || c == '\\' {
                        continue;
                    }
                    self.out.push(c);
                }
            }
        }
        self.out.push(q);
    }

    fn literal(&mut self) {
        match self.t.pick(9) {
            0 | 1 => self.int_lit(),
            2 => {
                let s = self.pick_of(FLOATS);
                self.w(s);
            }
            3 | 4 => self.string_lit(),
            5 => self.w("null"),
            6 => self.either(128, "true", "false"),
            7 => {
                if let Some(p) = self.param_name() {
                    self.w(&p)
                } else {
                    self.w("$missing")
                }
            }
            _ => {
                self.w("-");
                let s = self.pick_of(FLOATS);
                self.w(s);
            }
        }
    }

    fn list_literal(&mut self, d: u32) {
        self.w("[");
        let n = match self.t.pick(8) {
            7 => 20 + self.t.pick(300),
            k => k % 5,
        };
        for i in 0..n {
            if self.full() {
                break;
            }
            if i > 0 {
                self.w(", ");
            }
            if d == 0 || n > 8 {
                self.literal()
            } else {
                self.expr(d - 1)
            }
        }
        self.w("]");
    }

    fn map_literal(&mut self, d: u32) {
        self.w("{");
        let n = self.t.pick(4);
        for i in 0..n {
            if i > 0 {
                self.w(", ");
            }
            match self.t.pick(6) {
                0 => {
                    let k = self.pick_of(TEMPORAL_KEYS);
                    self.w(k);
                }
                1 => self.w("`odd key`"),
                2 => self.w("null"),
                _ => {
                    let k = self.pick_of(&KEYS);
                    self.w(k);
                }
            }
            self.w(": ");
            if d == 0 {
                self.literal()
            } else {
                self.expr(d - 1)
            }
        }
        self.w("}");
    }

    fn temporal_map(&mut self) {
        self.w("{");
        let n = 1 + self.t.pick(5);
        for i in 0..n {
            if i > 0 {
                self.w(", ");
            }
            let k = self.pick_of(TEMPORAL_KEYS);
            self.w(k);
            self.w(": ");
            match self.t.pick(6) {
                0..=2 => {
                    let v = self.t.pick(70) as i64 - 3;
                    self.w(&v.to_string());
                }
                3 => self.int_lit(),
                4 => {
                    let s = self.pick_of(&["'+01:00'", "'Europe/Stockholm'", "'Z'", "'-18:00'", "'Nowhere/None'", "1.5", "null"]);
                    self.w(s);
                }
                _ => self.temporal_value(),
            }
        }
        self.w("}");
    }

    fn temporal_value(&mut self) {
        let f = self.pick_of(&["date", "time", "localtime", "datetime", "localdatetime", "duration"]);
        self.w(f);
        self.w("(");
        match self.t.pick(4) {
            0 => {
                let s = self.pick_of(TEMPORAL_STRINGS);
                self.w(&format!("'{s}'"));
            }
            1 | 2 => self.temporal_map(),
            _ => {
                if f != "duration" {
                    // current instant
                } else {
                    self.w("'PT1S'");
                }
            }
        }
        self.w(")");
    }

    fn variable(&mut self) {
        let all: Vec<String> = self.scope.all().into_iter().cloned().collect();
        if all.is_empty() || self.t.chance(1) {
            if self.t.chance(24) {
                self.w("undefinedVar")
            } else {
                self.literal()
            }
            return;
        }
        let v = all[self.t.pick(all.len())].clone();
        self.w(&v);
    }

    fn prop_access(&mut self) {
        let v = if self.scope.nodes.is_empty() && self.scope.rels.is_empty() {
            None
        } else {
            Some(self.entity_var())
        };
        match v {
            Some(v) => {
                let k = self.pick_of(&KEYS);
                self.w(&format!("{v}.{k}"));
            }
            None => self.literal(),
        }
    }

    fn aggregate(&mut self) {
        let f = AGGREGATES[self.t.pick(AGGREGATES.len())];
        self.w(f);
        self.w("(");
        if f == "count" && self.t.chance(100) {
            self.w("*)");
            return;
        }
        if !f.starts_with("percentile") && self.t.chance(50) {
            self.w("DISTINCT ");
        }
        match self.t.pick(3) {
            0 => self.variable(),
            1 => self.prop_access(),
            _ => self.expr(1),
        }
        if f.starts_with("percentile") {
            self.w(", ");
            let s = self.pick_of(&["0.5", "0", "1", "0.0", "1.0", "0.99", "-0.1", "1.1", "null", "$p0"]);
            self.w(s);
        }
        self.w(")");
    }

    fn atom(&mut self) {
        match self.t.pick(7) {
            0 | 1 => self.literal(),
            2 | 3 => self.variable(),
            4 | 5 => self.prop_access(),
            _ => {
                if let Some(p) = self.param_name() {
                    self.w(&p)
                } else {
                    self.literal()
                }
            }
        }
    }

    fn binop(&mut self) -> &'static str {
        const OPS: &[&str] = &[
            " + ", " - ", " * ", " / ", " % ", " ^ ", " = ", " <> ", " < ", " <= ", " > ", " >= ", " AND ",
            " OR ", " XOR ", " IN ", " STARTS WITH ", " ENDS WITH ", " CONTAINS ", " != ", "+", "-",
        ];
        OPS[self.t.pick(OPS.len())]
    }

    pub fn expr(&mut self, d: u32) {
        if d == 0 || self.full() {
            self.atom();
            return;
        }
        let d1 = d - 1;
        match self.t.pick(30) {
            0..=3 => self.atom(),
            4..=7 => {
                self.expr(d1);
                let op = self.binop();
                self.w(op);
                self.expr(d1);
            }
            8 => {
                self.w("(");
                self.expr(d1);
                self.w(")");
            }
            9 => {
                self.either(128, "NOT ", "-");
                self.expr(d1);
            }
            10 => {
                self.expr(d1);
                self.either(128, " IS NULL", " IS NOT NULL");
            }
            11 | 12 | 13 => self.function_call(d1),
            14 => self.list_literal(d1),
            15 => self.map_literal(d1),
            16 => {
                // index / slice
                self.expr(d1);
                self.w("[");
                match self.t.pick(5) {
                    0 => self.expr(d1),
                    1 => {
                        self.expr(d1);
                        self.w("..");
                        self.expr(d1);
                    }
                    2 => {
                        self.w("..");
                        self.expr(d1);
                    }
                    3 => {
                        self.expr(d1);
                        self.w("..");
                    }
                    _ => self.int_lit(),
                }
                self.w("]");
            }
            17 => self.case_expr(d1),
            18 => {
                // list comprehension
                let v = self.fresh("e");
                self.w(&format!("[{v} IN "));
                self.loop_source(d1);
                let saved = self.scope.clone();
                self.scope.scalars.push(v);
                self.loop_depth += 1;
                if self.t.chance(128) {
                    self.w(" WHERE ");
                    self.expr(d1);
                }
                if self.t.chance(160) {
                    self.w(" | ");
                    self.expr(d1);
                }
                self.loop_depth -= 1;
                self.scope = saved;
                self.w("]");
            }
            19 => {
                // pattern comprehension
                self.w("[");
                let saved = self.scope.clone();
                self.pattern(true, false, 1);
                if self.t.chance(100) {
                    self.w(" WHERE ");
                    self.expr(d1);
                }
                self.w(" | ");
                self.expr(d1);
                self.scope = saved;
                self.w("]");
            }
            20 => {
                let q = self.pick_of(&["any", "all", "none", "single"]);
                let v = self.fresh("e");
                self.w(&format!("{q}({v} IN "));
                self.loop_source(d1);
                let saved = self.scope.clone();
                self.scope.scalars.push(v);
                self.loop_depth += 1;
                if self.t.chance(220) {
                    self.w(" WHERE ");
                    self.expr(d1);
                }
                self.loop_depth -= 1;
                self.scope = saved;
                self.w(")");
            }
            21 => {
                let acc = self.fresh("acc");
                let v = self.fresh("e");
                self.w(&format!("reduce({acc} = "));
                self.expr(d1);
                self.w(&format!(", {v} IN "));
                self.loop_source(d1);
                self.w(" | ");
                let saved = self.scope.clone();
                self.scope.scalars.push(v);
                self.loop_depth += 1;
                if self.restrict_loops {
                    // the accumulator is used exactly once per step (no doubling)
                    self.excluded_loops += 1;
                    self.w(&acc);
                    let op = self.pick_of(&[" + ", " - ", " * ", " + ", " AND ", " OR "]);
                    self.w(op);
                    self.expr(d1);
                } else {
                    self.scope.scalars.push(acc);
                    self.expr(d1);
                }
                self.loop_depth -= 1;
                self.scope = saved;
                self.w(")");
            }
            22 => {
                // EXISTS forms
                self.w("EXISTS { ");
                let saved = self.scope.clone();
                match self.t.pick(3) {
                    0 => self.pattern(true, false, 1),
                    1 => {
                        self.pattern(true, false, 1);
                        self.w(" WHERE ");
                        self.expr(d1);
                    }
                    _ => self.single_query(1),
                }
                self.scope = saved;
                self.w(" }");
            }
            23 => {
                // pattern predicate on a bound node (anything else is UnexpectedSyntax)
                if self.scope.nodes.is_empty() || self.t.chance(10) {
                    let saved = self.scope.clone();
                    self.node_pattern(false, false);
                    self.rel_pattern(false, false, false);
                    self.node_pattern(false, false);
                    self.scope = saved;
                } else {
                    let i = self.t.pick(self.scope.nodes.len());
                    let v = self.scope.nodes[i].clone();
                    self.w(&format!("({v})"));
                    let saved = self.scope.clone();
                    self.rel_pattern(false, false, false);
                    self.scope = saved;
                    if self.scope.nodes.len() > 1 && self.t.chance(100) {
                        let j = self.t.pick(self.scope.nodes.len());
                        let o = self.scope.nodes[j].clone();
                        self.w(&format!("({o})"));
                    } else {
                        self.w("()");
                    }
                }
            }
            24 => {
                // label predicate
                let v = self.entity_var();
                let l = self.pick_of(&LABELS);
                self.w(&format!("{v}:{l}"));
            }
            25 => self.temporal_value(),
            26 => {
                // property of an arbitrary expression / temporal accessor
                self.w("(");
                self.expr(d1);
                self.w(").");
                let k = if self.t.chance(128) { self.pick_of(TEMPORAL_KEYS) } else { self.pick_of(&KEYS) };
                self.w(k);
            }
            27 => self.aggregate(),
            28 => {
                // comparison chain
                self.expr(d1);
                let n = 1 + self.t.pick(3);
                for _ in 0..n {
                    let op = self.pick_of(&[" < ", " <= ", " = ", " <> ", " > ", " >= "]);
                    self.w(op);
                    self.expr(d1);
                }
            }
            _ => {
                // string concatenation / arithmetic with literals of mixed kinds
                self.literal();
                let op = self.binop();
                self.w(op);
                self.literal();
            }
        }
    }

    /// The list a comprehension / quantifier / reduce iterates over.
    fn loop_source(&mut self, d: u32) {
        if self.restrict_loops && self.loop_depth >= 1 {
            self.excluded_loops += 1;
            self.w("[");
            let n = self.t.pick(5);
            for i in 0..n {
                if i > 0 {
                    self.w(", ");
                }
                self.literal_small();
            }
            self.w("]");
        } else {
            self.expr(d);
        }
    }

    fn literal_small(&mut self) {
        match self.t.pick(5) {
            0 | 1 => {
                let n = self.t.pick(20) as i64 - 3;
                self.w(&n.to_string());
            }
            2 => self.w("null"),
            3 => self.w("'a'"),
            _ => self.w("1.5"),
        }
    }

    fn function_call(&mut self, d: u32) {
        let (mut name, mut lo, mut hi) = FUNCTIONS[self.t.pick(FUNCTIONS.len())];
        if self.restrict_loops && self.loop_depth >= 1 && name == "range" {
            // no large generated lists inside a loop body
            self.excluded_loops += 1;
            (name, lo, hi) = ("size", 1, 1);
        }
        self.w(name);
        self.w("(");
        let mut n = lo as usize + self.t.pick((hi - lo) as usize + 1);
        if self.t.chance(8) {
            n = self.t.pick(5);
        }
        let temporal = name.starts_with("date") || name.starts_with("time") || name.starts_with("local") || name.starts_with("duration");
        for i in 0..n {
            if i > 0 {
                self.w(", ");
            }
            if temporal && self.t.chance(200) {
                match self.t.pick(4) {
                    0 => {
                        let s = self.pick_of(TEMPORAL_STRINGS);
                        self.w(&format!("'{s}'"));
                    }
                    1 => self.temporal_map(),
                    2 => {
                        let u = self.pick_of(&["'day'", "'month'", "'year'", "'week'", "'hour'", "'millennium'", "'century'", "'decade'", "'weekYear'", "'quarter'", "'minute'", "'second'", "'millisecond'", "'microsecond'", "'nope'"]);
                        self.w(u);
                    }
                    _ => self.temporal_value(),
                }
            } else {
                self.expr(d);
            }
        }
        self.w(")");
    }

    fn case_expr(&mut self, d: u32) {
        self.w("CASE ");
        if self.t.chance(128) {
            self.expr(d);
            self.w(" ");
        }
        let n = 1 + self.t.pick(3);
        for _ in 0..n {
            self.w("WHEN ");
            self.expr(d);
            self.w(" THEN ");
            self.expr(d);
            self.w(" ");
        }
        if self.t.chance(128) {
            self.w("ELSE ");
            self.expr(d);
            self.w(" ");
        }
        self.w("END");
    }
}

// ------------------------------------------------------------------ deep shapes

/// Every recursive production of the parser, as a (prefix, suffix) pair that is
/// repeated `depth` times around an atom, plus left-/right-leaning operator chains.
pub const DEEP_SHAPES: &[&str] = &[
    "paren", "list", "map", "not", "neg", "plus-unary", "sign-alternating", "add-chain", "and-chain", "or-chain", "pow-chain",
    "cmp-chain", "concat-chain", "right-add", "case-else", "case-when", "case-operand", "func", "index", "index-nest",
    "slice", "prop-chain", "is-null-chain", "list-comp", "pattern-comp", "quantifier", "reduce", "exists-subquery",
    "exists-pattern-where", "call-subquery", "foreach", "union-chain", "comment", "label-chain", "pattern-hops",
    "match-chain", "with-chain", "map-in-pattern", "list-wide", "in-chain", "string-concat-long", "backtrack-pattern",
    "unwind-nest", "line-comment", "coalesce-nest", "mixed-brackets", "match-patterns-wide", "create-patterns-wide",
    "create-chain", "merge-chain", "set-items-wide", "return-items-wide", "order-by-wide", "labels-wide", "types-wide",
    "shortest-nest", "map-wide", "args-wide", "when-wide", "semicolons", "optional-match-chain", "delete-wide",
];

/// Clause contexts an expression can be placed in.
pub const DEEP_CONTEXTS: &[&str] = &[
    "return", "where", "unwind", "with", "order-by", "limit", "create-prop", "set", "match-prop", "explain",
    "foreach-invalid", "merge-on-create", "delete", "call-arg",
];

fn rep(s: &str, n: usize) -> String {
    s.repeat(n)
}

/// Expression of nesting `depth` for `shape` (or a whole query for clause-level shapes).
pub fn deep_text(shape: &str, depth: usize, ctx: &str, atom: &str) -> String {
    let d = depth;
    let whole: Option<String> = match shape {
        "exists-subquery" => Some(format!(
            "RETURN {}{atom}{}",
            rep("EXISTS { MATCH (n) WHERE ", d),
            rep(" RETURN n }", d)
        )),
        "call-subquery" => Some(format!("{}RETURN {atom} AS x{} RETURN x", rep("CALL { ", d), rep(" }", d))),
        "foreach" => Some(format!(
            "{}CREATE (:A {{p: {atom}}}){}",
            (0..d).map(|i| format!("FOREACH (v{i} IN [1] | ")).collect::<String>(),
            rep(")", d)
        )),
        "union-chain" => Some(format!("RETURN {atom} AS x{}", rep(" UNION ALL RETURN 1 AS x", d))),
        "comment" => Some(format!("{}RETURN {atom}", rep("/* c */ ", d))),
        "line-comment" => Some(format!("{}RETURN {atom}", rep("// c\n", d))),
        "pattern-hops" => Some(format!("MATCH (a){} RETURN a LIMIT 1", rep("-->()", d))),
        "match-chain" => Some(format!("{}RETURN {atom} LIMIT 1", rep("MATCH (n) ", d))),
        "with-chain" => Some(format!("WITH {atom} AS x {}RETURN x", rep("WITH x AS x ", d))),
        "map-in-pattern" => Some(format!("MATCH (n {{p: {}{atom}{}}}) RETURN n", rep("{a: ", d), rep("}", d))),
        "unwind-nest" => Some(format!(
            "{}RETURN {atom}",
            (0..d).map(|i| format!("UNWIND [1] AS u{i} ")).collect::<String>()
        )),
        "backtrack-pattern" => Some(format!("RETURN {}1{}", rep("[(", d), rep(")]", d))),
        "match-patterns-wide" => Some(format!("MATCH (a){} RETURN count(*)", (0..d).map(|i| format!(", (b{i}:NoSuch)")).collect::<String>())),
        "create-patterns-wide" => Some(format!("CREATE (a){}", (0..d).map(|i| format!(", (b{i}:W)")).collect::<String>())),
        "create-chain" => Some(rep("CREATE (:W {p: 1}) ", d)),
        "merge-chain" => Some((0..d).map(|i| format!("MERGE (m{i}:W {{p: {i}}}) ")).collect::<String>()),
        "set-items-wide" => Some(format!("MATCH (n) SET n.p = {atom}{}", rep(", n.q = 1", d))),
        "return-items-wide" => Some(format!("RETURN {atom} AS c{}", (0..d).map(|i| format!(", {i} AS c{i}")).collect::<String>())),
        "order-by-wide" => Some(format!("MATCH (n) RETURN n ORDER BY n.p{} LIMIT 3", rep(", n.q", d))),
        "labels-wide" => Some(format!("MATCH (n{}) RETURN n", rep(":A", d))),
        "types-wide" => Some(format!("MATCH ()-[r:R{}]->() RETURN r", rep("|S", d))),
        "shortest-nest" => Some(format!("MATCH p = {}(a)-[*]-(b){} RETURN p", rep("shortestPath(", d), rep(")", d))),
        "semicolons" => Some(format!("RETURN {atom}{}", rep(";", d))),
        "optional-match-chain" => Some(format!("MATCH (n) {}RETURN n LIMIT 1", rep("OPTIONAL MATCH (n)-->(m) ", d))),
        "delete-wide" => Some(format!("MATCH (n:NoSuch) DELETE n{}", rep(", n", d))),
        _ => None,
    };
    if let Some(q) = whole {
        return q;
    }
    let e = match shape {
        "paren" => format!("{}{atom}{}", rep("(", d), rep(")", d)),
        "list" => format!("{}{atom}{}", rep("[", d), rep("]", d)),
        "map" => format!("{}{atom}{}", rep("{a: ", d), rep("}", d)),
        "not" => format!("{}{atom}", rep("NOT ", d)),
        "neg" => format!("{}{atom}", rep("- ", d)),
        "plus-unary" => format!("{}{atom}", rep("+ ", d)),
        "sign-alternating" => format!("{}{atom}", rep("+ - ", d / 2 + 1)),
        "add-chain" => format!("{atom}{}", rep(" + 1", d)),
        "and-chain" => format!("{atom}{}", rep(" AND true", d)),
        "or-chain" => format!("{atom}{}", rep(" OR false", d)),
        "pow-chain" => format!("{atom}{}", rep(" ^ 1", d)),
        "cmp-chain" => format!("{atom}{}", rep(" < 2", d)),
        "concat-chain" => format!("{atom}{}", rep(" + 'ab'", d)),
        "in-chain" => format!("{atom}{}", rep(" IN [true]", d)),
        "right-add" => format!("{}{atom}{}", rep("1 + (", d), rep(")", d)),
        "case-else" => format!("{}{atom}{}", rep("CASE WHEN false THEN 0 ELSE ", d), rep(" END", d)),
        "case-when" => format!("{}{atom}{}", rep("CASE WHEN ", d), rep(" THEN true END", d)),
        "case-operand" => format!("{}{atom}{}", rep("CASE ", d), rep(" WHEN 1 THEN 1 END", d)),
        "func" => format!("{}{atom}{}", rep("abs(", d), rep(")", d)),
        "coalesce-nest" => format!("{}{atom}{}", rep("coalesce(null, ", d), rep(")", d)),
        "index" => format!("[{atom}]{}", rep("[0]", d)),
        "index-nest" => format!("{}0{}", rep("[0][", d), rep("]", d)),
        "slice" => format!("[{atom}]{}", rep("[0..]", d)),
        "prop-chain" => format!("{{a: {atom}}}{}", rep(".a", d)),
        "is-null-chain" => format!("{atom}{}", rep(" IS NULL", d)),
        "list-comp" => format!("{}[{atom}]{}", rep("[x IN ", d), rep(" | x]", d)),
        "pattern-comp" => format!("{}{atom}{}", rep("[(a)-->(b) | ", d), rep("]", d)),
        "quantifier" => format!("{}[{atom}]{}", rep("any(x IN ", d), rep(" WHERE true)", d)),
        "reduce" => format!("{}{atom}{}", rep("reduce(a = 0, x IN [1] | a + ", d), rep(")", d)),
        "exists-pattern-where" => format!("{}{atom}{}", rep("EXISTS { (a)-->(b) WHERE ", d), rep(" }", d)),
        "label-chain" => format!("{atom}{}", rep(":A", d)),
        "list-wide" => format!("[{}{atom}]", rep("1, ", d)),
        "string-concat-long" => format!("'{}' + {atom}", rep("ab", d)),
        "map-wide" => format!("{{{}z: {atom}}}", (0..d).map(|i| format!("k{i}: 1, ")).collect::<String>()),
        "args-wide" => format!("coalesce({}{atom})", rep("null, ", d)),
        "when-wide" => format!("CASE {atom}{} END", rep(" WHEN 0 THEN 0", d)),
        "mixed-brackets" => {
            let mut s = String::new();
            for i in 0..d {
                s.push_str(["(", "[", "{a: ", "-", "NOT "][i % 5]);
            }
            s.push_str(atom);
            for i in (0..d).rev() {
                s.push_str([")", "]", "}", "", ""][i % 5]);
            }
            s
        }
        _ => format!("{}{atom}{}", rep("(", d), rep(")", d)),
    };
    match ctx {
        "return" => format!("RETURN {e} AS v"),
        "where" => format!("MATCH (n) WHERE {e} RETURN n LIMIT 2"),
        "unwind" => format!("UNWIND [{e}] AS v RETURN v"),
        "with" => format!("WITH {e} AS v RETURN v"),
        "order-by" => format!("MATCH (n) RETURN n ORDER BY {e} LIMIT 2"),
        "limit" => format!("MATCH (n) RETURN n LIMIT {e}"),
        "create-prop" => format!("CREATE (n:A {{p: {e}}})"),
        "set" => format!("MATCH (n) SET n.p = {e}"),
        "match-prop" => format!("MATCH (n {{p: {e}}}) RETURN n"),
        "explain" => format!("EXPLAIN MATCH (n) WHERE {e} RETURN n"),
        "foreach-invalid" => format!("FOREACH (x IN [1] | RETURN {e})"),
        "merge-on-create" => format!("MERGE (n:A {{p: 1}}) ON CREATE SET n.q = {e}"),
        "delete" => format!("MATCH (n) DELETE {e}"),
        "call-arg" => format!("CALL math.add({e}, 1) YIELD result RETURN result"),
        _ => format!("RETURN {e}"),
    }
}

// -------------------------------------------------------------------- mutations

/// Rough token split that keeps the text reconstructible (`concat(tokens) == text`).
pub fn tokens(s: &str) -> Vec<&str> {
    let mut out = Vec::new();
    let b = s.as_bytes();
    let mut i = 0;
    let is_word = |c: u8| c.is_ascii_alphanumeric() || c == b'_' || c >= 0x80;
    while i < b.len() {
        let st = i;
        let c = b[i];
        if is_word(c) {
            while i < b.len() && is_word(b[i]) {
                i += 1;
            }
        } else if c == b'\'' || c == b'"' {
            i += 1;
            while i < b.len() && b[i] != c {
                if b[i] == b'\\' {
                    i += 1;
                }
                i += 1;
            }
            i = (i + 1).min(b.len());
        } else if c.is_ascii_whitespace() {
            while i < b.len() && b[i].is_ascii_whitespace() {
                i += 1;
            }
        } else {
            i += 1;
        }
        // never split inside a UTF-8 sequence
        while i < b.len() && !s.is_char_boundary(i) {
            i += 1;
        }
        out.push(&s[st..i]);
    }
    out
}

pub const DICT: &[&str] = &[
    "(", ")", "[", "]", "{", "}", ",", ":", ".", "..", "|", "-", "->", "<-", "--", "*", "+", "/", "%", "^", "=", "<>",
    "<", ">", "<=", ">=", "!=", "$", "$p0", "`", "'", "\"", ";", "//", "/*", "*/", " ", "\n", "\0", "\u{feff}",
    "MATCH", "OPTIONAL", "WHERE", "RETURN", "WITH", "UNWIND", "AS", "CREATE", "MERGE", "SET", "DELETE", "DETACH",
    "REMOVE", "ORDER", "BY", "SKIP", "LIMIT", "DISTINCT", "UNION", "ALL", "CALL", "YIELD", "FOREACH", "IN", "ON",
    "CASE", "WHEN", "THEN", "ELSE", "END", "EXISTS", "NOT", "AND", "OR", "XOR", "IS", "NULL", "STARTS", "ENDS",
    "CONTAINS", "EXPLAIN", "true", "false", "null", "count", "collect", "shortestPath", "allShortestPaths", "reduce",
    "any", "all", "none", "single", "n", "m", "r", "x", "0", "1", "-1", "9223372036854775807", "9223372036854775808",
    "1e308", "1e309", "0x", "0.0", ".5", "''", "'a'", "[]", "{}", "()", "(n)", "-[r]->", "*1..2", "*", "*0..", "n.p",
    "count(*)", "range(0, 100000)", "date()", "duration('P1D')", "\u{1F600}", "\u{e9}", "A", ":A", ":R",
];

/// (kind, position, argument) edits applied to `base`; `other` supplies splice material.
pub fn mutate(base: &str, other: &str, ops: &[(u8, u16, u16)]) -> String {
    let mut toks: Vec<String> = tokens(base).into_iter().map(|s| s.to_string()).collect();
    let donor: Vec<String> = tokens(other).into_iter().map(|s| s.to_string()).collect();
    let at = |i: u16, len: usize| if len == 0 { 0 } else { (i as usize * len) >> 16 };
    for (kind, pos, arg) in ops {
        let len = toks.len();
        if len == 0 {
            toks.push(DICT[at(*arg, DICT.len())].to_string());
            continue;
        }
        let p = at(*pos, len);
        match kind % 14 {
            9..=13 => {
                // replace the next number / string literal by another literal of its class
                // (keeps the statement valid: boundary values reach every argument position)
                let is_num = |t: &str| t.as_bytes().first().is_some_and(|c| c.is_ascii_digit());
                let is_str = |t: &str| t.len() >= 2 && (t.starts_with('\'') || t.starts_with('"'));
                if let Some(q) = (p..len).chain(0..p).find(|&q| is_num(&toks[q]) || is_str(&toks[q])) {
                    if is_num(&toks[q]) {
                        const NUMS: &[&str] = &[
                            "0", "1", "2", "3", "10", "100", "1000", "10000", "65536", "2147483647", "2147483648", "4294967296",
                            "9223372036854775806", "9223372036854775807", "9007199254740993", "0x7FFFFFFFFFFFFFFF", "0.0", "0.5",
                            "1.5", "1e308", "4.9e-324", "1e18", "1e19", "9223372036854775808.0", "86400000000000", "3037000500",
                        ];
                        toks[q] = NUMS[at(*arg, NUMS.len())].to_string();
                    } else {
                        const STRS: &[&str] = &[
                            "''", "'a'", "'abc'", "'\u{e9}\u{4e2d}\u{1F600}'", "'a\u{301}'", "' '", "'0'", "'-1'", "'1.5'", "'true'", "'null'",
                            "'2015-07-21'", "'P14DT16H12M'", "'12:31:14.645876123+01:00'", "'+999999999-12-31'", "'P9223372036854775807D'",
                            "'\\u00e9'", "'\u{0}'", "'%'", "'A'", "'name'", "'p'",
                        ];
                        toks[q] = STRS[at(*arg, STRS.len())].to_string();
                    }
                }
            }
            0 => {
                toks.remove(p);
            }
            1 => {
                let t = toks[p].clone();
                let n = 1 + (*arg as usize % 3);
                for _ in 0..n {
                    toks.insert(p, t.clone());
                }
            }
            2 => {
                // splice a donor range
                if !donor.is_empty() {
                    let s = at(*arg, donor.len());
                    let e = (s + 1 + (*arg as usize % 7)).min(donor.len());
                    let tail = toks.split_off(p);
                    toks.extend(donor[s..e].iter().cloned());
                    toks.extend(tail);
                }
            }
            3 => toks[p] = DICT[at(*arg, DICT.len())].to_string(),
            4 => toks.insert(p, DICT[at(*arg, DICT.len())].to_string()),
            5 => {
                let q = at(*arg, len);
                toks.swap(p, q);
            }
            6 => {
                // truncate
                toks.truncate(p + 1);
            }
            7 => {
                // replace the tail by the donor's tail
                if !donor.is_empty() {
                    let s = at(*arg, donor.len());
                    toks.truncate(p);
                    toks.extend(donor[s..].iter().cloned());
                }
            }
            _ => {
                // duplicate a range many times (wide, not deep)
                let e = (p + 1 + (*arg as usize % 5)).min(len);
                let seg: Vec<String> = toks[p..e].to_vec();
                let times = 2 + (*arg as usize % 40);
                let tail = toks.split_off(e);
                for _ in 0..times {
                    toks.extend(seg.iter().cloned());
                }
                toks.extend(tail);
            }
        }
    }
    toks.concat()
}

/// Maximum bracket nesting of a text (cheap proxy for expression depth).
pub fn nesting_depth(s: &str) -> usize {
    let mut d = 0usize;
    let mut m = 0usize;
    for c in s.bytes() {
        match c {
            b'(' | b'[' | b'{' => {
                d += 1;
                m = m.max(d);
            }
            b')' | b']' | b'}' => d = d.saturating_sub(1),
            _ => {}
        }
    }
    m
}
