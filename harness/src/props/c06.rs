//! C06 Storage reads agree with a graph model (no compaction, no reopen: those are C04/C05).
use crate::engine::{Obs, RunCtx, fp};
use crate::hist::{self, Excl, Op, Profile, Runner, StepKind};

pub fn run(ctx: &mut RunCtx) {
    ctx.assume("relationship identity is the (src, type, dst) key as documented: parallel instances share properties and are deleted together; a deleted relationship's properties are removed by the history itself");
    ctx.assume("two label operations on the same (node, label) inside one transaction are not generated (the engine applies additions before removals)");
    let mut p = Profile::base();
    p.ops = ctx.tier.pick(2..40, 2..60);
    p.ws = 1..9;
    let cases = ctx.tier.pick(24_000, 150_000);
    let test = |ops: &Vec<Op>, obs: &mut Obs| {
        let dir = crate::engine::temp_dir();
        let mut r = Runner::new(dir.join("db"), Excl::default())?;
        let mut runs = 0u32;
        let mut shadowing = false;
        for op in ops {
            let k = r.apply(op, false, false, obs).map_err(|f| r.fail_with_log(f))?;
            if k == StepKind::Committed {
                if r.last_flags.writes > 0 {
                    runs += 1;
                }
                shadowing |= r.last_flags.deletes || r.last_flags.prop_removal;
                obs.sub_eval(None);
                r.check().map_err(|f| r.fail_with_log(f))?;
            }
        }
        obs.class_if(runs >= 3, "runs>=3");
        obs.class_if(shadowing, "tombstone-or-removal");
        obs.class_if(r.model.edges.values().any(|c| *c > 1), "parallel-edges");
        obs.class_if(r.model.edges.keys().any(|k| k.0 == k.2), "self-loop");
        obs.set_nontrivial(runs >= 3 && shadowing);
        let _ = fp(&0);
        Ok(())
    };
    ctx.explore(
        "histories",
        "generated multi-transaction histories over <=4 labels, 3 types (one name shared with a label), 5 keys, all nine value kinds; full dump (nodes, external ids, labels, node_properties and node_property, neighbors and incoming_neighbors with and without type filter as multisets, edge_properties and edge_property) compared with the model after every commit; non-trivial = >=3 non-empty runs and at least one tombstone or property removal",
        cases,
        || hist::history(&p),
        test,
    );
}
