//! Ad-hoc probe (not a property): runs the statements of the file named by `NVPROBE`
//! against a fresh database and prints what the engine returns.
//! Line prefixes: `!` write statement, `?` read query, `E` explain, `#` comment,
//! `@compact`, `@reopen`.
use crate::cy;
use crate::engine::RunCtx;
use nervusdb::Db;
use nervusdb::query::{Params, prepare};

pub fn run(_ctx: &mut RunCtx) {
    if let Ok(name) = std::env::var("NVMKCASE") {
        match mkcase(&name) {
            Some(j) => println!("CASE {}", j),
            None => println!("unknown case {name}"),
        }
        return;
    }
    let Ok(path) = std::env::var("NVPROBE") else {
        println!("set NVPROBE=<file>");
        return;
    };
    let txt = std::fs::read_to_string(&path).expect("probe file");
    let dir = crate::engine::temp_dir();
    let mut base = dir.join("db");
    let mut db = Some(Db::open(&base).expect("open"));
    // NVPROBE_CASE=<replay file of a refcy case>: start from that case's graph
    let mut keep = None;
    if let Ok(cf) = std::env::var("NVPROBE_CASE") {
        let j: serde_json::Value = serde_json::from_str(&std::fs::read_to_string(&cf).expect("case file")).expect("json");
        let g = j.get("case").and_then(|c| c.get("g")).or_else(|| j.get("g")).expect("case.g").clone();
        let spec: crate::refcy::r#gen::GraphSpec = serde_json::from_value(g).expect("graph spec");
        let built = crate::refcy::build_db(&spec).expect("build");
        println!("graph: nodes {:?}\n       rels {:?}\n       rel props {:?}", built.model.nodes, built.model.edges, built.model.edge_props);
        base = built.dir.join("db");
        db = Some(built.db);
        keep = Some(built.dir);
    }
    let _keep = keep;
    let params = Params::new();
    for line in txt.lines() {
        let line = line.trim();
        if line.is_empty() || line.starts_with('#') {
            continue;
        }
        if line == "@compact" {
            println!("compact: {:?}", db.as_ref().unwrap().compact().map_err(|e| e.to_string()));
            continue;
        }
        if line == "@reopen" {
            let d = db.take().unwrap();
            let _ = d.close();
            db = Some(Db::open(&base).expect("reopen"));
            continue;
        }
        let (kind, q) = line.split_at(1);
        let q = q.trim();
        let d = db.as_ref().unwrap();
        match kind {
            "!" => println!("W {q}\n   => {:?}", cy::write(d, q, &params)),
            "?" => match cy::read(d, q, &params) {
                Ok((cols, rows)) => {
                    println!("R {q}\n   cols {cols:?} ({} rows)", rows.len());
                    for r in rows {
                        println!("   {}", r.iter().map(show).collect::<Vec<_>>().join(" | "));
                    }
                }
                Err(e) => println!("R {q}\n   ERR {e:?}"),
            },
            "E" => match prepare(&format!("EXPLAIN {q}")) {
                Ok(p) => println!("E {q}\n{}", p.explain_string().unwrap_or("<none>")),
                Err(e) => println!("E {q}\n   ERR {e}"),
            },
            _ => println!("?? {line}"),
        }
    }
}

pub fn show(v: &cy::CV) -> String {
    use cy::CV;
    match v {
        CV::Null => "null".into(),
        CV::Bool(b) => b.to_string(),
        CV::Int(i) => i.to_string(),
        CV::Float(b) => format!("{:?}", f64::from_bits(*b)),
        CV::Str(s) => format!("{s:?}"),
        CV::List(l) => format!("[{}]", l.iter().map(show).collect::<Vec<_>>().join(", ")),
        CV::Map(m) => format!("{{{}}}", m.iter().map(|(k, v)| format!("{k}: {}", show(v))).collect::<Vec<_>>().join(", ")),
        CV::Node { id, labels, props } => format!("({id}:{}{{{}}})", labels.join(":"), props.iter().map(|(k, v)| format!("{k}: {}", show(v))).collect::<Vec<_>>().join(", ")),
        CV::Rel { src, ty, dst, props } => format!("[{src}-{ty}->{dst}{{{}}}]", props.iter().map(|(k, v)| format!("{k}: {}", show(v))).collect::<Vec<_>>().join(", ")),
        o => format!("{o:?}"),
    }
}

/// Hand-written reproducers (printed as case JSON for known_findings.json): `NVMKCASE=<name>`.
pub fn mkcase(name: &str) -> Option<serde_json::Value> {
    use crate::pv::PV;
    use crate::refcy::ast::*;
    use crate::refcy::r#gen::{ColKind, Feat, GNode, GRel, GraphSpec};
    let graph = |nodes: Vec<GNode>, rels: Vec<GRel>| GraphSpec { nodes, rels, del_nodes: vec![], del_rels: vec![], split: 65535, compact_mid: false, compact_end: false, reopen: false };
    let node = |labels: Vec<u8>, props: Vec<(u8, PV)>| GNode { labels, props };
    // with n nodes, index i of n is addressed by the u16 (i * 65536 / n) rounded up
    let at = |i: usize, n: usize| -> u16 { (((i * 65536) + n - 1) / n) as u16 };
    let rel = |s: u16, t: u8, d: u16, props: Vec<(u8, PV)>| GRel { s, t, d, par: 0, props };
    let np = |v: Option<&str>, labels: &[&str]| NodePat { var: v.map(|s| s.to_string()), labels: labels.iter().map(|s| s.to_string()).collect(), props: vec![] };
    let rp = |v: Option<&str>, types: &[&str], dir: Dir, range: Option<Range>| RelPat { var: v.map(|s| s.to_string()), types: types.iter().map(|s| s.to_string()).collect(), dir, range, props: vec![] };
    let ret = |items: Vec<(Expr, &str)>| Clause::Return { p: Proj { items: items.into_iter().map(|(e, a)| (e, a.to_string())).collect(), ..Default::default() } };
    let read = |g: GraphSpec, clauses: Vec<Clause>, n: usize| serde_json::to_value(crate::refcy::ReadCase { g, q: RQuery::single(clauses), kinds: vec![ColKind::Exact; n], params: vec![], feat: Feat::default(), excluded: None }).ok();
    let stmt = |clauses: Vec<Clause>| crate::props::c12::Stmt { clauses, params: vec![] };
    match name {
        // MATCH (c:C) MATCH (x)-[:S*2]->(c) over (a)-[:S]->(a), (a)-[:S]->(c:C)
        "varlen-incoming-self-loop" => read(
            graph(vec![node(vec![], vec![]), node(vec![2], vec![])], vec![rel(at(0, 2), 1, at(0, 2), vec![]), rel(at(0, 2), 1, at(1, 2), vec![])]),
            vec![
                Clause::Match { optional: false, pats: vec![PathPat { start: np(Some("c"), &["C"]), steps: vec![] }], where_: None },
                Clause::Match { optional: false, pats: vec![PathPat { start: np(Some("x"), &[]), steps: vec![(rp(None, &["S"], Dir::Out, Some(Range { min: Some(2), max: Some(2), exact: true })), np(Some("c"), &[]))] }], where_: None },
                ret(vec![(Expr::func("id", vec![Expr::var("x")]), "c0")]),
            ],
            1,
        ),
        // MATCH (n) RETURN properties(n) on a node without properties
        "properties-of-empty" => read(
            graph(vec![node(vec![0], vec![])], vec![]),
            vec![Clause::Match { optional: false, pats: vec![PathPat { start: np(Some("n"), &[]), steps: vec![] }], where_: None }, ret(vec![(Expr::func("properties", vec![Expr::var("n")]), "c0")])],
            1,
        ),
        // CREATE (x:A {i: 1})-[:R]->(y:A {i: 2}) ; MERGE (x:A)-[:R]->(y:B)
        "merge-whole-pattern" => serde_json::to_value(crate::props::c12::Case {
            force: false,
            g: graph(vec![node(vec![0], vec![(0, PV::Int(1))]), node(vec![0], vec![(0, PV::Int(2))])], vec![rel(at(0, 2), 0, at(1, 2), vec![])]),
            stmts: vec![stmt(vec![Clause::Merge { pat: PathPat { start: np(Some("x"), &["A"]), steps: vec![(rp(None, &["R"], Dir::Out, None), np(Some("y"), &["B"]))] }, on_create: vec![], on_match: vec![] }])],
        })
        .ok(),
        // MATCH (a)-[r:R]->(b) DELETE r ; MATCH (a:A), (b:B) CREATE (a)-[:R]->(b)   (r had properties)
        "deleted-relationship-properties" => serde_json::to_value(crate::props::c12::Case {
            force: false,
            g: graph(vec![node(vec![0], vec![]), node(vec![1], vec![])], vec![rel(at(0, 2), 0, at(1, 2), vec![(0, PV::Int(1))])]),
            stmts: vec![
                stmt(vec![
                    Clause::Match { optional: false, pats: vec![PathPat { start: np(Some("a"), &[]), steps: vec![(rp(Some("r"), &["R"], Dir::Out, None), np(Some("b"), &[]))] }], where_: None },
                    Clause::Delete { detach: false, exprs: vec![Expr::var("r")] },
                ]),
                stmt(vec![
                    Clause::Match { optional: false, pats: vec![PathPat { start: np(Some("a"), &["A"]), steps: vec![] }, PathPat { start: np(Some("b"), &["B"]), steps: vec![] }], where_: None },
                    Clause::Create { pats: vec![PathPat { start: np(Some("a"), &[]), steps: vec![(rp(None, &["R"], Dir::Out, None), np(Some("b"), &[]))] }] },
                ]),
            ],
        })
        .ok(),
        // MATCH (n:A) SET n = {}, n.i = 0
        "set-items-order" => serde_json::to_value(crate::props::c12::Case {
            force: false,
            g: graph(vec![node(vec![0], vec![(2, PV::Str("x".into()))])], vec![]),
            stmts: vec![stmt(vec![
                Clause::Match { optional: false, pats: vec![PathPat { start: np(Some("n"), &["A"]), steps: vec![] }], where_: None },
                Clause::Set { items: vec![SetItem::Replace { target: "n".into(), value: Expr::Map(vec![]) }, SetItem::Prop { target: "n".into(), key: "i".into(), value: Expr::int(0) }] },
            ])],
        })
        .ok(),
        // MATCH (n:A) SET n = {f: -0.0} over f = 0.0
        "set-map-negative-zero" => serde_json::to_value(crate::props::c12::Case {
            force: false,
            g: graph(vec![node(vec![0], vec![(1, PV::f(0.0))])], vec![]),
            stmts: vec![stmt(vec![
                Clause::Match { optional: false, pats: vec![PathPat { start: np(Some("n"), &["A"]), steps: vec![] }], where_: None },
                Clause::Set { items: vec![SetItem::Replace { target: "n".into(), value: Expr::Map(vec![("f".into(), Expr::Lit(PV::f(-0.0)))]) }] },
            ])],
        })
        .ok(),
        _ => None,
    }
}
