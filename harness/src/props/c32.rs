//! C32 Node identities are unique and allocation never fails.
use crate::cy::{self, CV};
use crate::cyw::{self, RS, Route, World};
use crate::engine::{CaseResult, Failure, Obs, RunCtx, fp};
use crate::pv::PV;
use nervusdb::verif_hooks::{self, Hooks};
use proptest::prelude::*;
use serde::{Deserialize, Serialize};
use std::collections::BTreeSet;
use std::sync::Arc;
use std::sync::atomic::{AtomicI64, AtomicU64, Ordering};

#[derive(Debug, Clone, Serialize, Deserialize)]
pub enum Create {
    /// `UNWIND [..n rows..] AS r CREATE (:L {k: r.k, p: r.v})`
    Unwind(u8),
    /// `UNWIND [..] AS r CREATE (:A {k: r.a})-[:R]->(:B {k: r.b})` (two nodes per row)
    Pairs(u8),
    /// `UNWIND [..] AS r MERGE (n:L {k: r.k}) ON CREATE SET n.p = r.v` on fresh keys
    MergeFresh(u8),
    /// MERGE over a mix of existing and fresh keys
    MergeMixed(u8),
}

#[derive(Debug, Clone, Serialize, Deserialize)]
pub enum Step {
    Stmt(Create, Route),
    /// several creating statements in one explicit transaction
    Txn(Vec<Create>),
    /// the clock jumps by `jump` ns (may be negative) and from now on advances by `inc` per reading
    Clock { jump: i64, inc: i8 },
    /// a detach-delete of one node (identities must never be reused afterwards)
    Delete(u16),
    /// a node created through the low-level API with a caller-chosen external id at
    /// `offset` ns from the current clock value (ids the Cypher allocator must then avoid)
    Raw(i8),
    Compact,
    Reopen,
}

struct Clock {
    now: AtomicU64,
    inc: AtomicI64,
    reads: AtomicU64,
}

impl Hooks for Clock {
    fn clock_ns(&self, _real: u64) -> u64 {
        self.reads.fetch_add(1, Ordering::Relaxed);
        let inc = self.inc.load(Ordering::Relaxed);
        let v = self.now.load(Ordering::Relaxed);
        self.now.store(v.saturating_add_signed(inc), Ordering::Relaxed);
        v
    }
}

struct Uninstall;
impl Drop for Uninstall {
    fn drop(&mut self) {
        verif_hooks::install(None);
    }
}

fn create() -> impl Strategy<Value = Create> + Clone {
    prop_oneof![
        5 => (1u8..40).prop_map(Create::Unwind),
        2 => (1u8..12).prop_map(Create::Pairs),
        3 => (1u8..12).prop_map(Create::MergeFresh),
        1 => (2u8..8).prop_map(Create::MergeMixed),
    ]
}

fn strategy(n: std::ops::Range<usize>) -> impl Strategy<Value = (i8, Vec<Step>)> {
    let step = prop_oneof![
        12 => (create(), cyw::route()).prop_map(|(c, r)| Step::Stmt(c, r)),
        3 => prop::collection::vec(create(), 2..4).prop_map(Step::Txn),
        4 => (prop_oneof![Just(0i64), -50i64..50, -5_000_000_000i64..5_000_000_000, Just(-1i64), Just(1i64)], prop_oneof![3 => Just(0i8), 2 => Just(1i8), 1 => -3i8..4, 1 => Just(100i8)])
            .prop_map(|(jump, inc)| Step::Clock { jump, inc }),
        1 => any::<u16>().prop_map(Step::Delete),
        1 => (-3i8..40).prop_map(Step::Raw),
        1 => Just(Step::Compact),
        1 => Just(Step::Reopen),
    ];
    // "recycling" pattern built by construction: the newest node(s) are deleted, the tombstone is
    // compacted away, the handle is reopened and the clock is set back to before those
    // nodes were created -- the allocator must still not hand their identities out again
    let recycle = (1usize..4, prop_oneof![Just(-1_000i64), Just(-5_000_000_000i64), -200i64..0], create(), cyw::route()).prop_map(|(k, jump, c, r)| {
        let mut v: Vec<Step> = (0..k).map(|_| Step::Delete(u16::MAX)).collect();
        v.push(Step::Compact);
        v.push(Step::Reopen);
        v.push(Step::Clock { jump, inc: 0 });
        v.push(Step::Stmt(c, r));
        v
    });
    let chunk = prop_oneof![12 => step.prop_map(|s| vec![s]), 1 => recycle];
    (prop_oneof![3 => Just(0i8), 2 => Just(1i8), 1 => -2i8..3], prop::collection::vec(chunk, n).prop_map(|v| v.concat()))
}

fn build(c: &Create, model: &crate::model::Model, next_k: &mut i64) -> RS {
    let mut fresh = || {
        let k = *next_k;
        *next_k += 1;
        k
    };
    match c {
        Create::Unwind(n) => RS::CreateNodes { labels: vec!["A".into()], rows: (0..*n).map(|i| (fresh(), PV::Int(i as i64))).collect(), px: None },
        Create::Pairs(n) => RS::CreatePairs { la: "A".into(), lb: "B".into(), ty: "R".into(), w: None, rows: (0..*n).map(|_| (fresh(), fresh())).collect() },
        Create::MergeFresh(n) => RS::Merge { label: "A".into(), rows: (0..*n).map(|i| (fresh(), PV::Int(i as i64))).collect(), on_create: true, on_match: false, px: None },
        Create::MergeMixed(n) => {
            let existing: Vec<i64> = model.nodes.iter().filter(|(_, nd)| nd.labels.contains("A")).filter_map(|(i, _)| cyw::k_of(model, *i)).take(*n as usize / 2).collect();
            let mut rows: Vec<(i64, PV)> = existing.into_iter().map(|k| (k, PV::Int(1))).collect();
            while rows.len() < *n as usize {
                rows.push((fresh(), PV::Int(2)));
            }
            RS::Merge { label: "A".into(), rows, on_create: true, on_match: true, px: None }
        }
    }
}

fn id_check(w: &World) -> CaseResult {
    let (_, rows) = cy::read(w.db(), "MATCH (n) RETURN id(n) AS i", &Default::default()).map_err(|e| Failure::new("read-failed", e.text()))?;
    let mut seen = BTreeSet::new();
    for r in &rows {
        let CV::Int(i) = r[0] else { fail!("read-failed", "id(n) is not an integer") };
        if !seen.insert(i) {
            fail!("internal-id-duplicate", "MATCH (n) RETURN id(n) returns {i} twice");
        }
    }
    let want: BTreeSet<i64> = w.model.nodes.keys().map(|i| *i as i64).collect();
    if seen != want {
        fail!("internal-ids-differ", "id(n) over all nodes is {seen:?}, expected {want:?}");
    }
    Ok(())
}

pub fn run(ctx: &mut RunCtx) {
    ctx.assume("the clock hook replaces the wall clock used for node identity allocation on the test thread; every reading returns the generated clock value and then advances it by the generated increment (0 = stalled, negative = running backwards)");
    let cases = ctx.tier.pick(10_000, 200_000);
    let n = ctx.tier.pick(2..12, 2..30);
    let test = |case: &(i8, Vec<Step>), obs: &mut Obs| {
        let clock = Arc::new(Clock { now: AtomicU64::new(1_700_000_000_000_000_000), inc: AtomicI64::new(case.0 as i64), reads: AtomicU64::new(0) });
        verif_hooks::install(Some(clock.clone()));
        let _un = Uninstall;
        let mut w = World::new()?;
        // (first clock value, last clock value + nodes created) of every creating statement
        let mut windows: Vec<(u64, u64)> = Vec::new();
        let mut same_clock = false;
        let mut backwards = false;
        let mut creating = 0u32;
        let mut note = |windows: &mut Vec<(u64, u64)>, first: u64, last: u64, created: u64, same_clock: &mut bool, backwards: &mut bool| {
            let win = (first.min(last), first.max(last) + created);
            for (a, b) in windows.iter() {
                if win.0 <= *b && *a <= win.1 {
                    *same_clock = true;
                }
                if win.1 < *a {
                    *backwards = true;
                }
            }
            windows.push(win);
        };
        for step in &case.1 {
            match step {
                Step::Clock { jump, inc } => {
                    let v = clock.now.load(Ordering::Relaxed);
                    clock.now.store(v.saturating_add_signed(*jump).max(1), Ordering::Relaxed);
                    clock.inc.store(*inc as i64, Ordering::Relaxed);
                    w.log.push(format!("clock: jump {jump}, then +{inc} per reading (now {})", clock.now.load(Ordering::Relaxed)));
                    continue;
                }
                Step::Compact => {
                    w.compact().map_err(|f| w.fail_with_log(f))?;
                    obs.class("compact");
                }
                Step::Reopen => {
                    w.reopen().map_err(|f| w.fail_with_log(f))?;
                    obs.class("reopen");
                }
                Step::Raw(offset) => {
                    let ext = clock.now.load(Ordering::Relaxed).saturating_add_signed(*offset as i64).max(1);
                    if w.all_ext.contains_key(&ext) {
                        continue; // a taken identity is legitimately refused
                    }
                    w.log.push(format!("low-level create_node(external id {ext})"));
                    let r = (|| -> Result<u32, String> {
                        let mut t = w.db().begin_write();
                        let l = t.get_or_create_label("A").map_err(|e| e.to_string())?;
                        let n = t.create_node(ext, l).map_err(|e| e.to_string())?;
                        t.commit().map_err(|e| e.to_string())?;
                        Ok(n)
                    })();
                    match r {
                        Ok(n) => {
                            let id = w.model.create_node(&["A".to_string()]);
                            if id != n {
                                return Err(w.fail_with_log(Failure::new("internal-ids-differ", format!("low-level create returned internal id {n}, expected {id}"))));
                            }
                            w.model.nodes.get_mut(&id).unwrap().ext = ext;
                            w.all_ext.insert(ext, id);
                            obs.class("explicit-external-id");
                        }
                        Err(e) => return Err(w.fail_with_log(Failure::new("create-failed:explicit-id", format!("low-level create with unused external id {ext} failed: {e}")))),
                    }
                }
                Step::Delete(i) => {
                    let live: Vec<u32> = w.model.nodes.keys().copied().filter(|n| cyw::k_of(&w.model, *n).is_some()).collect();
                    if live.is_empty() {
                        continue;
                    }
                    let n = live[crate::engine::idx(*i, live.len())];
                    let rs = RS::Delete { ks: vec![cyw::k_of(&w.model, n).unwrap()], detach: true };
                    let mut m = w.model.clone();
                    rs.apply(&mut m).expect("detach delete is always valid");
                    if let Err(e) = w.exec_auto(Route::CapiWrite, &rs.render())? {
                        return Err(w.fail_with_log(Failure::new("valid-statement-failed", format!("delete failed: {e}"))));
                    }
                    w.model = m;
                    obs.class("delete");
                }
                Step::Stmt(c, route) => {
                    let rs = build(c, &w.model, &mut w.next_k);
                    let mut m = w.model.clone();
                    rs.apply(&mut m).expect("valid");
                    let created = (m.next_iid - w.model.next_iid) as u64;
                    let first = clock.now.load(Ordering::Relaxed);
                    let r = w.exec_auto(*route, &rs.render())?;
                    let last = clock.now.load(Ordering::Relaxed);
                    w.log.push(format!("  clock {first} -> {last}, {created} nodes"));
                    if let Err(e) = r {
                        let sig = if e.contains("external id") { "create-failed:external-id-collision" } else { "create-failed:other" };
                        return Err(w.fail_with_log(Failure::new(sig, format!("a creating statement failed: {e}"))));
                    }
                    w.model = m;
                    if created > 0 {
                        creating += 1;
                        note(&mut windows, first, last, created, &mut same_clock, &mut backwards);
                    }
                }
                Step::Txn(cs) => {
                    let mut log = std::mem::take(&mut w.log);
                    let mut model = w.model.clone();
                    let mut next_k = w.next_k;
                    let mut wins = Vec::new();
                    let r: CaseResult = (|| {
                        let mut t = w.cdb().begin_write().map_err(|e| Failure::new("capi-call-failed:ndb_begin_write", e.to_string()))?;
                        log.push("begin".into());
                        for c in cs {
                            let rs = build(c, &model, &mut next_k);
                            let mut m = model.clone();
                            rs.apply(&mut m).expect("valid");
                            let created = (m.next_iid - model.next_iid) as u64;
                            let first = clock.now.load(Ordering::Relaxed);
                            let r = cyw::txn_stmt(&mut log, &mut t, &rs.render());
                            let last = clock.now.load(Ordering::Relaxed);
                            if let Err(e) = r {
                                let sig = if e.contains("external id") { "create-failed:external-id-collision" } else { "create-failed:other" };
                                fail!(sig, "a creating statement inside a transaction failed: {e}");
                            }
                            model = m;
                            if created > 0 {
                                wins.push((first, last, created));
                            }
                        }
                        log.push("commit".into());
                        t.commit().map_err(|e| Failure::new("commit-failed", e.to_string()))?;
                        Ok(())
                    })();
                    w.log = log;
                    r.map_err(|f| w.fail_with_log(f))?;
                    w.model = model;
                    w.next_k = next_k;
                    for (f, l, c) in wins {
                        creating += 1;
                        note(&mut windows, f, l, c, &mut same_clock, &mut backwards);
                    }
                    obs.class("txn");
                }
            }
            obs.sub_eval(None);
            // adopt_ext (inside check) fails if an external id was ever used before;
            // the dump compares every node's external id with the one adopted at creation
            w.check().map_err(|f| w.fail_with_log(f))?;
            id_check(&w).map_err(|f| w.fail_with_log(f))?;
        }
        obs.class_if(same_clock, "statements-share-clock-window");
        obs.class_if(backwards, "clock-behind-earlier-statement");
        obs.class_if(w.model.next_iid > 100, "more-than-100-nodes");
        obs.count("nodes_created", w.model.next_iid as u64);
        obs.count("clock_reads", clock.reads.load(Ordering::Relaxed));
        obs.set_nontrivial(creating >= 2 && (same_clock || backwards));
        let _ = fp(&0);
        Ok(())
    };
    ctx.explore(
        "histories",
        "create-heavy Cypher histories (UNWIND-driven CREATE of 1-39 nodes, two-node patterns, MERGE creating 1-11 nodes, MERGE over existing and fresh keys; through ndb_execute_write, the Rust API, prepared statements and explicit multi-statement transactions; plus low-level creates with caller-chosen external ids next to the clock value) under a generated clock (stalled, advancing by less than the number of nodes created, running or jumping backwards, jumping forwards), with detach-deletes, compaction and close+open; every creating statement must succeed; no external id (resolve_external) is ever seen on two different nodes over the whole history; id(n) over all nodes has no duplicates and equals the model; the dump after every step (incl. compaction/reopen) shows every node's external id unchanged. Non-trivial = >= 2 creating statements whose clock windows [first reading, last reading + nodes created] overlap, or a statement whose window lies before an earlier one",
        cases,
        || strategy(n.clone()),
        test,
    );
}
