//! Shared engine of C01 (acknowledged commits survive crashes) and C02 (recovery yields a
//! committed prefix): one traced execution of a generated history, then enumeration of
//! crash points under process death (incl. torn writes) and power loss.
use crate::engine::{CaseResult, Failure, Obs, RunCtx, fp};
use crate::hist::{self, Excl, Op, Profile, Runner, StepKind};
use crate::iosim::{CrashState, Ev, EvKind, Image, Plan, Recorder, torn_prefixes};
use crate::model::{self, Model};
use proptest::prelude::*;
use serde::{Deserialize, Serialize};
use std::collections::HashSet;

#[derive(Debug, Clone, Copy, PartialEq, Eq)]
pub enum Which {
    Acked,  // C01
    Prefix, // C02
}

#[derive(Debug, Clone, Serialize, Deserialize)]
pub struct Case {
    pub ops: Vec<Op>,
    /// transactions run after recovery at sampled crash points
    pub after: Vec<Op>,
    /// reproducers of known findings bypass the exclusions by construction
    #[serde(default)]
    pub force: bool,
}

pub fn profile(tier_thorough: bool) -> Profile {
    let mut p = Profile::base();
    p.ops = if tier_thorough { 2..14 } else { 2..10 };
    p.ws = 1..6;
    p.w_compact = 3;
    p.w_reopen = 2;
    p.w_index = 2;
    p.nested_values = false;
    p
}

fn op_phase(op: Option<&Op>) -> &'static str {
    match op {
        Some(Op::Tx { .. }) | Some(Op::ManyNodes { .. }) => "commit",
        Some(Op::Compact) | Some(Op::Checkpoint) => "compaction",
        Some(Op::CloseReopen) => "close-reopen",
        Some(Op::DropReopen) => "reopen",
        Some(Op::CreateIndex { .. }) => "create-index",
        None => "initial-open",
    }
}

pub struct Traced {
    pub events: Vec<Ev>,
    pub states: Vec<Model>,
    pub final_acked: usize,
}

/// Runs the history once with the recorder installed. `Err` = the fault-free run itself
/// failed (not this property's business; the case is skipped and counted).
pub fn trace(ops: &[Op], base: &std::path::Path, obs: &mut Obs) -> Result<Traced, Failure> {
    let rec = Recorder::new(Plan::Record, true);
    let _g = rec.install();
    use std::sync::atomic::Ordering::SeqCst;
    rec.op.store(usize::MAX, SeqCst);
    let mut r = Runner::new(base.to_path_buf(), Excl::default())?;
    for (i, op) in ops.iter().enumerate() {
        rec.op.store(i, SeqCst);
        if matches!(op, Op::Tx { commit: true, .. } | Op::ManyNodes { .. }) {
            rec.started.store(r.states.len(), SeqCst);
        }
        let k = r.apply(op, false, false, obs)?;
        if k == StepKind::Committed {
            rec.acked.store(r.states.len() - 1, SeqCst);
        }
    }
    drop(r.db.take());
    let unhooked = rec.unhooked_unlinks.load(SeqCst);
    if unhooked > 0 {
        obs.count("removals-that-bypassed-the-io-hook", unhooked);
    }
    Ok(Traced { events: rec.take(), states: r.states, final_acked: rec.acked.load(SeqCst) })
}

fn image_fp(img: &Image) -> u64 {
    fp(&img.files.iter().map(|(k, v)| (k.clone(), fp(v))).collect::<Vec<_>>())
}

pub struct EvalOutcome {
    /// newest matching state
    pub matched: Option<usize>,
    /// every state whose graph equals the recovered content (they may differ in id counters)
    pub all: Vec<usize>,
}

/// Opens the image and finds the newest commit-ordered model state it equals.
pub fn eval_image(img: &Image, states: &[Model], started: usize, ctxmsg: &str) -> Result<(EvalOutcome, crate::engine::TempDir, Option<nervusdb::Db>), Failure> {
    let dir = crate::engine::temp_dir();
    img.write_to(dir.path()).map_err(|e| Failure::new("harness-io", e.to_string()))?;
    let base = dir.join("db");
    let db = hist::open_db(&base).map_err(|f| Failure::new(format!("open-fails:{}", f.signature), format!("{ctxmsg}: {}", f.message)))?;
    let keys = hist::keys_vec();
    let types = hist::types_vec();
    let uni = model::Universe { keys: &keys, types: &types };
    let hi = started.min(states.len() - 1);
    // the dead set only matters for the resurrect check; use the newest candidate's
    let d = model::dump_db(&db, &uni, &states[hi].dead).map_err(|f| Failure::new(format!("read-fails:{}", f.signature), format!("{ctxmsg}: {}", f.message)))?;
    let mut all = Vec::new();
    for j in (0..=hi).rev() {
        let dj = if j == hi { d.clone() } else { let mut x = d.clone(); x.dead_flags.clear(); x };
        if model::diff(&states[j], &dj, &uni).is_ok() {
            all.push(j);
        }
    }
    Ok((EvalOutcome { matched: all.first().copied(), all }, dir, Some(db)))
}

/// With an index present, equality look-ups through Cypher must agree with the recovered
/// state as well (index pages are updated in place inside the commit).
fn index_queries_agree(db: &nervusdb::Db, m: &Model, ops: &[Op], obs: &mut Obs) -> CaseResult {
    use crate::pv::PV;
    let mut pairs: Vec<(String, String)> = Vec::new();
    for op in ops {
        if let Op::CreateIndex { l, k } = op {
            let p = (hist::LABELS[*l as usize % hist::LABELS.len()].to_string(), hist::KEYS[*k as usize % hist::KEYS.len()].to_string());
            if !pairs.contains(&p) {
                pairs.push(p);
            }
        }
    }
    fn num(p: &PV) -> Option<f64> {
        match p {
            PV::Int(i) => Some(*i as f64),
            PV::Float(b) => Some(f64::from_bits(*b)),
            _ => None,
        }
    }
    for (label, key) in pairs {
        let mut values: Vec<PV> = m.nodes.values().filter_map(|n| n.props.get(&key).cloned()).filter(|v| matches!(v, PV::Int(_) | PV::Str(_) | PV::Bool(_))).collect();
        values.sort();
        values.dedup();
        for v in values.into_iter().take(6) {
            if let PV::Int(i) = v {
                if i.unsigned_abs() > (1u64 << 52) {
                    continue; // keep clear of the Int/Float boundary cases (C23's subject)
                }
            }
            let mut want: Vec<i64> = m
                .nodes
                .iter()
                .filter(|(_, n)| n.labels.contains(&label))
                .filter(|(_, n)| match n.props.get(&key) {
                    Some(x) => x == &v || (num(x).is_some() && num(x) == num(&v)),
                    None => false,
                })
                .map(|(id, _)| *id as i64)
                .collect();
            want.sort();
            let q = format!("MATCH (n:{label} {{{key}: $v}}) RETURN id(n) AS id");
            let params = crate::cy::params_from(&[("v".to_string(), v.clone())], None);
            let (_, rows) = crate::cy::read(db, &q, &params).map_err(|e| Failure::new("index-query-fails-after-recovery", format!("{q} with v={v:?}: {}", e.text())))?;
            let mut got: Vec<i64> = rows.iter().filter_map(|r| match r.first() { Some(crate::cy::CV::Int(i)) => Some(*i), _ => None }).collect();
            got.sort();
            obs.count("index_queries_after_recovery", 1);
            if !want.is_empty() {
                obs.count("index_queries_with_hits", 1);
            }
            if got != want {
                fail!("index-query-wrong-after-recovery", "{q} with v={v:?} returns {got:?}, the recovered state says {want:?}");
            }
        }
    }
    Ok(())
}

fn judge(which: Which, out: &EvalOutcome, acked: usize, started: usize, states: &[Model], img_desc: &str, phase: &str, db: &nervusdb::Db) -> CaseResult {
    match out.matched {
        None => {
            // describe the difference against the newest acknowledged state
            let keys = hist::keys_vec();
            let types = hist::types_vec();
            let uni = model::Universe { keys: &keys, types: &types };
            let a = acked.min(states.len() - 1);
            let why = model::dump_db(db, &uni, &states[a].dead).and_then(|d| model::diff(&states[a], &d, &uni)).err().map(|f| format!("{} ({})", f.signature, f.message)).unwrap_or_default();
            let sig = match which {
                Which::Prefix => format!("not-a-committed-prefix:{phase}"),
                Which::Acked => format!("acked-commit-lost:{phase}:no-prefix"),
            };
            fail!(sig, "{img_desc}: recovered content equals none of the commit-ordered states 0..={started} (acked {acked}); vs acked state: {why}")
        }
        Some(j) => {
            if which == Which::Acked && j < acked {
                fail!(format!("acked-commit-lost:{phase}"), "{img_desc}: recovered content equals state {j} but {acked} commits had been acknowledged before the crash");
            }
            Ok(())
        }
    }
}

pub fn test(c: &Case, obs: &mut Obs, which: Which, cap: usize, no_reorder_pagefile: bool) -> CaseResult {
    let no_reorder_pagefile = no_reorder_pagefile && !c.force;
    let dir = crate::engine::temp_dir();
    let base = dir.join("db");
    let t = match trace(&c.ops, &base, obs) {
        Ok(t) => t,
        Err(f) => {
            obs.class(&format!("fault-free-run-failed:{}", f.signature));
            return Ok(());
        }
    };
    let n = t.events.len();
    obs.count("crash_points_total", (n + 1) as u64);
    let case_fp = fp(&serde_json::to_string(&c.ops).unwrap_or_default());
    // selection: everything for short traces, otherwise op boundaries + a seeded sample
    let stride = if n + 1 <= cap { 1 } else { n.div_ceil(cap) };
    obs.class_if(stride == 1, "exhaustive-crash-points");
    let mut st = CrashState::default();
    let mut seen: HashSet<(u64, usize, usize)> = HashSet::new();
    let mut explored = 0u64;
    for k in 0..=n {
        let (acked, started, opi) = if k < n { (t.events[k].acked, t.events[k].started, t.events[k].op) } else { (t.final_acked, t.final_acked, usize::MAX - 1) };
        let boundary = k == 0 || k == n || t.events[k - 1].op != opi || (k + 1 < n && t.events[k + 1].op != opi);
        let selected = stride == 1 || boundary || fp(&(case_fp, k)) % stride as u64 == 0;
        if selected {
            let phase = op_phase(if opi >= c.ops.len() { None } else { c.ops.get(opi) });
            let inside = k < n && k > 0 && t.events[k - 1].op == opi; // strictly inside an operation
            let mut images: Vec<(Image, String)> = vec![(st.live.clone(), format!("process death before event {k}/{n} ({})", if k < n { t.events[k].short() } else { "end".into() }))];
            if k < n {
                // tearing inside one write call is applied to the log only (its checksums are
                // the stated mechanism); a page write is one atomic I/O step of the property
                if let (EvKind::Write { data, .. }, true) = (&t.events[k].kind, t.events[k].file.contains(".wal")) {
                    for p in torn_prefixes(data.len()) {
                        images.push((st.torn(&t.events[k], p), format!("process death tearing event {k} ({}) after {p} bytes", t.events[k].short())));
                    }
                }
            }
            let pc = st.pending_count();
            if pc > 0 {
                let np = st.pending_of("db.ndb");
                images.push((st.power_loss(|_| false), format!("power loss before event {k}: none of {pc} unsynced writes persisted")));
                if pc > 1 {
                    if no_reorder_pagefile {
                        // page-file writes persist as a prefix (in issue order); log writes as any subset
                        obs.excluded("power-loss-nonprefix-pagefile");
                        for s in 0..3u64 {
                            let h = fp(&(case_fp, k, s));
                            let pl = if s == 0 { np } else if s == 1 { np.saturating_sub(1) } else { (h % (np as u64 + 1)) as usize };
                            images.push((st.power_loss_mixed("db.ndb", pl, |i| (h >> (i % 64)) & 1 == 1), format!("power loss before event {k}: first {pl} of {np} unsynced page-file writes and subset {h:#x} of the other files' persisted")));
                        }
                        images.push((st.power_loss_mixed("db.ndb", 0, |_| true), format!("power loss before event {k}: no page-file write but every other unsynced write persisted")));
                    } else {
                        for s in 0..2u64 {
                            let h = fp(&(case_fp, k, s));
                            images.push((st.power_loss(|i| (h >> (i % 64)) & 1 == 1), format!("power loss before event {k}: subset {h:#x} of {pc} unsynced writes persisted")));
                        }
                        images.push((st.power_loss(|i| i + 1 != pc), format!("power loss before event {k}: all but the last of {pc} unsynced writes persisted")));
                    }
                }
            }
            for (img, desc) in images {
                if !seen.insert((image_fp(&img), acked, started)) {
                    continue;
                }
                explored += 1;
                let nontrivial = match which {
                    Which::Acked => acked >= 1 && (inside || desc.starts_with("power")),
                    Which::Prefix => inside || desc.starts_with("power") || desc.contains("tearing"),
                };
                obs.sub_eval(if nontrivial { Some(fp(&(k, &desc))) } else { None });
                obs.class(phase);
                obs.class_if(desc.starts_with("power"), "power-loss");
                obs.class_if(desc.contains("tearing"), "torn-write");
                let ctxmsg = format!("{desc}; phase {phase}; acked {acked} started {started}");
                let r = eval_image(&img, &t.states, started, &ctxmsg);
                let (out, _d, db) = match r {
                    Ok(x) => x,
                    Err(f) => {
                        // open or read failure: violates both properties (C01 only if something was acknowledged)
                        if which == Which::Acked && acked == 0 {
                            continue;
                        }
                        return Err(Failure::new(format!("{}:{phase}", f.signature), f.message));
                    }
                };
                let db = db.unwrap();
                judge(which, &out, acked, started, &t.states, &ctxmsg, phase, &db)?;
                {
                    if let Some(j) = out.matched {
                        index_queries_agree(&db, &t.states[j], &c.ops, obs).map_err(|f| Failure::new(format!("{}:{phase}", f.signature), format!("{ctxmsg}: {}", f.message)))?;
                    }
                }
                // second round at a sample of points: keep working on the recovered database
                let r2_every = c.ops.iter().filter(|o| matches!(o, Op::CreateIndex { .. })).count() > 0 && c.ops.len() < 10;
                if !c.after.is_empty() && (fp(&(case_fp, k, "round2")) % 4 == 0 || (r2_every && fp(&(case_fp, k, "round2")) % 2 == 0)) {
                    drop(db);
                    // states with equal graphs can differ in their id counters (a node created
                    // and deleted in one transaction): the continuation must work from one of them
                    let snapshot = Image::read_from(_d.path()).map_err(|e| Failure::new("harness-io", e.to_string()))?;
                    let mut last = None;
                    for (n, j) in out.all.iter().enumerate() {
                        if n > 0 {
                            let _ = std::fs::remove_dir_all(_d.path());
                            snapshot.write_to(_d.path()).map_err(|e| Failure::new("harness-io", e.to_string()))?;
                        }
                        match round_two(&_d, &t.states[*j], &c.after, &c.ops, obs) {
                            Ok(()) => {
                                last = None;
                                break;
                            }
                            Err(f) => {
                                let retry = f.signature.starts_with("op-error:create_node:internal id");
                                last = Some(f);
                                if !retry {
                                    break;
                                }
                            }
                        }
                    }
                    if let Some(f) = last {
                        return Err(Failure::new(format!("after-recovery:{phase}:{}", f.signature), format!("{ctxmsg}; then: {}", f.message)));
                    }
                }
            }
        }
        if k < n {
            st.advance(&t.events[k]);
        }
    }
    obs.count("crash_images_explored", explored);
    obs.set_nontrivial(true);
    Ok(())
}

/// After recovery the database must keep accepting and durably storing transactions.
fn round_two(dir: &crate::engine::TempDir, state: &Model, after: &[Op], index_ops: &[Op], obs: &mut Obs) -> CaseResult {
    let mut r = Runner::new(dir.join("db"), Excl::default())?;
    r.model = state.clone();
    r.states = vec![state.clone()];
    for op in after {
        r.apply(op, false, false, obs).map_err(|f| r.fail_with_log(f))?;
    }
    r.check().map_err(|f| r.fail_with_log(f))?;
    index_queries_agree(r.db(), &r.model, index_ops, obs).map_err(|f| r.fail_with_log(f))?;
    r.apply(&Op::DropReopen, false, false, obs).map_err(|f| r.fail_with_log(f))?;
    obs.sub_eval(None);
    r.check().map_err(|f| r.fail_with_log(f))?;
    index_queries_agree(r.db(), &r.model, index_ops, obs).map_err(|f| r.fail_with_log(f))
}

pub fn run_which(ctx: &mut RunCtx, which: Which) {
    ctx.assume("process death: every byte written before the crash point is in the files; a single write call to the log may additionally be torn at generated byte offsets; a page-file write call is one atomic I/O step (sector tearing inside a page write is outside the property's quantifier)");
    ctx.assume("power loss: per file only data before its last fsync is certain, any subset of later writes may persist (none / all-but-last / two seeded subsets are tried); create/rename/unlink are durable in issue order (journalled metadata, ext4-ordered model) -- strict POSIX directory-fsync semantics are NOT asserted");
    ctx.assume("the page file and the log are the only files; crash points are the hook events of /repo's WAL, pager and vacuum code (one event per write/set_len/fsync/create/rename call)");
    let thorough = ctx.tier == crate::engine::Tier::Thorough;
    let p = profile(thorough);
    let mut pa = Profile::base();
    pa.ops = 1..3;
    pa.ws = 1..4;
    pa.nested_values = false;
    let cases = ctx.tier.pick(96, 2000);
    let cap = ctx.tier.pick(400, 100_000);
    ctx.shrink_iters = 150;
    let no_reorder = ctx.excluding("power-loss-nonprefix-pagefile");
    let rule = match which {
        Which::Acked => "one traced run per generated history (transactions, compaction, checkpoint, close+reopen, index creation), then every selected I/O step is a crash point under process death (plus torn prefixes of the write) and power loss; the reopened image must equal a commit-ordered model state containing every acknowledged commit; a quarter of the points continue with new transactions and another reopen; non-trivial evaluation = crash strictly inside an operation (or power loss) after >=1 acknowledged commit",
        Which::Prefix => "same trace and crash images as C01; the reopened image must open and equal one of the commit-ordered model states 0..started (no partial transaction, no gap); non-trivial evaluation = crash strictly inside an operation, a torn write, or power loss",
    };
    {
        // histories built around one index: indexed values are inserted, updated, removed and
        // their nodes deleted, so that index pages change inside the crashing operations
        let icases = ctx.tier.pick(64, 1200);
        ctx.explore(
            "index-crash-points",
            "histories around an index on (A, p): index creation at a generated position, transactions that create :A nodes with small p values, update / remove p, delete nodes, compaction, reopen; same crash images and prefix oracle as the main section plus Cypher equality look-ups `MATCH (n:A {p: $v})` compared with the recovered state for every stored value; non-trivial as in the main section",
            icases,
            || {
                use crate::hist::W;
                use crate::pv::PV;
                let val = prop_oneof![(0i64..4).prop_map(PV::Int), prop::sample::select(vec!["x", "y"]).prop_map(|s| PV::Str(s.to_string())), any::<bool>().prop_map(PV::Bool)];
                let w = prop_oneof![
                    4 => val.clone().prop_map(|v| vec![W::CreateNode { labels: vec![0] }, W::SetNodeProp { n: u16::MAX, k: 0, v }]),
                    3 => (any::<u16>(), val).prop_map(|(n, v)| vec![W::SetNodeProp { n, k: 0, v }]),
                    1 => any::<u16>().prop_map(|n| vec![W::RemoveNodeProp { n, k: 0 }]),
                    1 => any::<u16>().prop_map(|n| vec![W::DeleteNode { n }]),
                    1 => (any::<u16>(), 0u8..2).prop_map(|(n, l)| vec![W::RemoveLabel { n, l }]),
                    1 => (any::<u16>(), 0u8..2).prop_map(|(n, l)| vec![W::AddLabel { n, l }]),
                ];
                let op = prop_oneof![
                    8 => prop::collection::vec(w, 1..4).prop_map(|ws| Op::Tx { ws: ws.concat(), commit: true }),
                    2 => Just(Op::CreateIndex { l: 0, k: 0 }),
                    2 => Just(Op::Compact),
                    1 => prop_oneof![Just(Op::CloseReopen), Just(Op::DropReopen)],
                ];
                let after_w = prop_oneof![(0i64..4).prop_map(PV::Int), any::<bool>().prop_map(PV::Bool)]
                    .prop_map(|v| Op::Tx { ws: vec![W::CreateNode { labels: vec![0] }, W::SetNodeProp { n: u16::MAX, k: 0, v }], commit: true });
                (prop::collection::vec(op, 2..9), prop::collection::vec(after_w, 1..3)).prop_map(|(mut ops, after)| {
                    if !ops.iter().any(|o| matches!(o, Op::CreateIndex { .. })) {
                        let at = ops.len() / 2;
                        ops.insert(at, Op::CreateIndex { l: 0, k: 0 });
                    }
                    Case { ops, after, force: false }
                })
            },
            |c: &Case, obs: &mut Obs| test(c, obs, which, cap, no_reorder),
        );
    }
    {
        // histories built around two compactions: data is written and compacted, then exactly
        // that data is overwritten / removed / deleted and compacted again, so the second
        // compaction rewrites the property store, drops tombstones and replaces the segment
        let ccases = ctx.tier.pick(48, 900);
        ctx.explore(
            "compaction-crash-points",
            "constructed histories: nodes, relationships and properties are created and compacted; a second round overwrites and removes those properties, deletes relationships and nodes, changes labels; a second (and sometimes third) compaction follows, optionally a close+reopen; same crash images (every I/O step, process death / torn log writes / power loss) and oracles as the main section; non-trivial as in the main section",
            ccases,
            || {
                use crate::hist::W;
                use crate::pv::PV;
                let val = prop_oneof![(0i64..4).prop_map(PV::Int), prop::sample::select(vec!["x", "yy"]).prop_map(|s| PV::Str(s.to_string())), Just(PV::Null)];
                let build = prop::collection::vec(
                    prop_oneof![
                        3 => (prop::collection::vec(0u8..3, 0..3), 0u8..3, val.clone()).prop_map(|(labels, k, v)| vec![W::CreateNode { labels }, W::SetNodeProp { n: u16::MAX, k, v }]),
                        2 => (any::<u16>(), 0u8..3, any::<u16>(), 0u8..3, val.clone()).prop_map(|(s, t, d, k, v)| vec![W::CreateEdge { s, t, d }, W::SetEdgeProp { e: u16::MAX, k, v }]),
                    ],
                    2..6,
                )
                .prop_map(|v| Op::Tx { ws: v.concat(), commit: true });
                let change = prop::collection::vec(
                    prop_oneof![
                        3 => (any::<u16>(), 0u8..3, val.clone()).prop_map(|(n, k, v)| W::SetNodeProp { n, k, v }),
                        3 => (any::<u16>(), 0u8..3).prop_map(|(n, k)| W::RemoveNodeProp { n, k }),
                        2 => (any::<u16>(), 0u8..3).prop_map(|(e, k)| W::RemoveEdgeProp { e, k }),
                        2 => (any::<u16>(), 0u8..3, val).prop_map(|(e, k, v)| W::SetEdgeProp { e, k, v }),
                        2 => any::<u16>().prop_map(|e| W::DeleteEdge { e }),
                        1 => any::<u16>().prop_map(|n| W::DeleteNode { n }),
                        1 => any::<u16>().prop_map(|n| W::TombstoneNodeOnly { n }),
                        1 => (any::<u16>(), 0u8..3).prop_map(|(n, l)| W::AddLabel { n, l }),
                        1 => (any::<u16>(), 0u8..3).prop_map(|(n, l)| W::RemoveLabel { n, l }),
                    ],
                    1..5,
                )
                .prop_map(|ws| Op::Tx { ws, commit: true });
                (build.clone(), prop::option::of(build), change.clone(), prop::option::of(change), any::<bool>(), prop::option::of(prop_oneof![Just(Op::CloseReopen), Just(Op::DropReopen)]))
                    .prop_map(|(b1, b2, c1, c2, third, reopen)| {
                        let mut ops = vec![b1];
                        ops.extend(b2);
                        ops.push(Op::Compact);
                        ops.push(c1);
                        ops.push(Op::Compact);
                        if let Some(c2) = c2 {
                            ops.push(c2);
                            if third {
                                ops.push(Op::Compact);
                            }
                        }
                        ops.extend(reopen);
                        Case { ops, after: vec![], force: false }
                    })
            },
            |c: &Case, obs: &mut Obs| test(c, obs, which, cap, no_reorder),
        );
    }
    ctx.explore(
        "crash-points",
        rule,
        cases,
        || (hist::history(&p), hist::history(&pa)).prop_map(|(ops, after)| Case { ops, after, force: false }),
        |c: &Case, obs: &mut Obs| test(c, obs, which, cap, no_reorder),
    );
}
