//! C17 Any log tail is tolerated on open.
//!
//! A quiescent database (every transaction complete) gets bytes appended to its log --
//! only *after* the last completely written transaction, as the property states -- then is
//! opened, written to, and reopened twice.
use crate::engine::{CaseResult, Failure, Obs, RunCtx, fp};
use crate::hist::{self, Excl, Op, Profile, Runner, StepKind};
use crate::model;
use nervusdb_storage::wal::WalRecord;
use proptest::prelude::*;
use serde::{Deserialize, Serialize};

#[derive(Debug, Clone, Serialize, Deserialize, PartialEq)]
pub enum Tail {
    Zeros(u32),
    Random(Vec<u8>),
    /// header announcing `len` bytes followed by only `have` arbitrary bytes
    ShortBody { len: u32, have: Vec<u8> },
    /// length field alone (huge, zero, all ones ...), optionally followed by bytes
    LenField { len: u32, rest: Vec<u8> },
    /// a well-formed record whose checksum is wrong
    BadCrc { flip: u8 },
    /// a well-formed uncommitted transaction (BeginTx + ops, no CommitTx) cut after `keep` bytes
    Uncommitted { nodes: u8, keep: u16 },
    /// a single well-formed record that cannot start a transaction (stray commit / op)
    Stray { commit: bool },
}

#[derive(Debug, Clone, Serialize, Deserialize)]
pub struct Case {
    base: Vec<Op>,
    close: bool,
    tail: Tail,
    after: Vec<Op>,
}

fn frame(body: &[u8]) -> Vec<u8> {
    let mut out = Vec::with_capacity(8 + body.len());
    out.extend_from_slice(&(body.len() as u32).to_le_bytes());
    out.extend_from_slice(&crc32fast::hash(body).to_le_bytes());
    out.extend_from_slice(body);
    out
}

fn rec(r: &WalRecord) -> Vec<u8> {
    frame(&r.verif_encode_body().expect("encode"))
}

pub fn tail_bytes(t: &Tail) -> Vec<u8> {
    match t {
        Tail::Zeros(n) => vec![0u8; *n as usize],
        Tail::Random(b) => b.clone(),
        Tail::ShortBody { len, have } => {
            let mut v = len.to_le_bytes().to_vec();
            v.extend_from_slice(&[0x12, 0x34, 0x56, 0x78]);
            let keep = have.len().min((*len as usize).saturating_sub(1));
            v.extend_from_slice(&have[..keep]);
            v
        }
        Tail::LenField { len, rest } => {
            let mut v = len.to_le_bytes().to_vec();
            v.extend_from_slice(rest);
            v
        }
        Tail::BadCrc { flip } => {
            let mut v = rec(&WalRecord::BeginTx { txid: 1_000_000 });
            v[4 + (*flip as usize % 4)] ^= 1 << (flip % 8);
            v
        }
        Tail::Uncommitted { nodes, keep } => {
            let mut v = rec(&WalRecord::BeginTx { txid: 2_000_000 });
            for i in 0..*nodes {
                v.extend(rec(&WalRecord::CreateNode { external_id: 9_000_000 + i as u64, label_id: u32::MAX, internal_id: 1_000_000 + i as u32 }));
                v.extend(rec(&WalRecord::CreateEdge { src: 0, rel: 0, dst: 0 }));
            }
            let k = crate::engine::idx(*keep, v.len() + 1);
            v.truncate(k.max(1));
            v
        }
        Tail::Stray { commit } => {
            if *commit {
                rec(&WalRecord::CommitTx { txid: 3_000_000 })
            } else {
                rec(&WalRecord::CreateEdge { src: 0, rel: 0, dst: 0 })
            }
        }
    }
}

fn tail_class(t: &Tail) -> &'static str {
    match t {
        Tail::Zeros(_) => "zeros",
        Tail::Random(_) => "random",
        Tail::ShortBody { .. } => "short-body",
        Tail::LenField { len, .. } if *len == 0 => "len-zero",
        Tail::LenField { len, .. } if *len > 1024 * 1024 => "len-huge",
        Tail::LenField { .. } => "len-plausible",
        Tail::BadCrc { .. } => "bad-crc",
        Tail::Uncommitted { .. } => "uncommitted-tx",
        Tail::Stray { .. } => "stray-record",
    }
}

fn tail_strategy() -> impl Strategy<Value = Tail> {
    prop_oneof![
        3 => prop_oneof![1u32..64, Just(4), Just(7), Just(8), Just(9), Just(4096), Just(65536)].prop_map(Tail::Zeros),
        3 => prop::collection::vec(any::<u8>(), 1..200).prop_map(Tail::Random),
        2 => (9u32..100_000, prop::collection::vec(any::<u8>(), 0..64)).prop_map(|(len, have)| Tail::ShortBody { len, have }),
        3 => (prop_oneof![Just(0u32), Just(u32::MAX), Just(1 << 20), Just((1 << 20) + 1), Just(1 << 31), 1u32..64, any::<u32>()], prop::collection::vec(any::<u8>(), 0..80)).prop_map(|(len, rest)| Tail::LenField { len, rest }),
        1 => any::<u8>().prop_map(|flip| Tail::BadCrc { flip }),
        3 => (0u8..4, any::<u16>()).prop_map(|(nodes, keep)| Tail::Uncommitted { nodes, keep }),
        1 => any::<bool>().prop_map(|commit| Tail::Stray { commit }),
    ]
}

fn test(c: &Case, obs: &mut Obs, excl: &Excl, skip_stray: bool) -> CaseResult {
    if skip_stray && matches!(c.tail, Tail::Stray { .. }) {
        obs.excluded("stray-well-formed-record-at-tail");
        return Ok(());
    }
    let dir = crate::engine::temp_dir();
    let base = dir.join("db");
    let mut r = Runner::new(base.clone(), excl.clone())?;
    let mut commits = 0;
    for op in &c.base {
        if r.apply(op, false, false, obs).map_err(|f| r.fail_with_log(f))? == StepKind::Committed {
            commits += 1;
        }
    }
    // quiesce
    let db = r.db.take().unwrap();
    if c.close {
        db.close().map_err(|e| Failure::new("op-error:close", e.to_string()))?;
    } else {
        drop(db);
    }
    let wal_path = base.with_extension("wal");
    let tail = tail_bytes(&c.tail);
    {
        use std::io::Write;
        let mut f = std::fs::OpenOptions::new().append(true).open(&wal_path).map_err(|e| Failure::new("harness-io", e.to_string()))?;
        f.write_all(&tail).map_err(|e| Failure::new("harness-io", e.to_string()))?;
    }
    obs.class(tail_class(&c.tail));
    let cls = tail_class(&c.tail);
    // 1. open must succeed and show exactly the committed transactions
    r.db = Some(hist::open_db(&base).map_err(|f| Failure::new(format!("open-fails:{cls}:{}", f.signature), format!("open after tail {:?} ({} bytes): {}", c.tail, tail.len(), f.message)))?);
    r.check().map_err(|f| Failure::new(format!("recovered-state-wrong:{cls}:{}", f.signature), r.fail_with_log(f).message))?;
    obs.sub_eval(None);
    // 2. new transactions after recovery stay durable
    let mut new_commits = 0;
    for op in &c.after {
        if r.apply(op, false, false, obs).map_err(|f| Failure::new(format!("after-recovery:{cls}:{}", f.signature), r.fail_with_log(f).message))? == StepKind::Committed {
            new_commits += 1;
        }
    }
    r.check().map_err(|f| Failure::new(format!("after-recovery:{cls}:{}", f.signature), r.fail_with_log(f).message))?;
    for round in 0..2 {
        r.apply(&Op::DropReopen, false, false, obs)
            .map_err(|f| Failure::new(format!("reopen-after-recovery-fails:{cls}:{}", f.signature), r.fail_with_log(f).message))?;
        obs.sub_eval(None);
        r.check()
            .map_err(|f| Failure::new(format!("commits-after-recovery-lost:{cls}:{}", f.signature), format!("round {round}: {}", r.fail_with_log(f).message)))?;
    }
    obs.set_nontrivial(!tail.is_empty() && new_commits >= 1 && commits >= 1);
    obs.class_if(c.close, "base-closed");
    let _ = (fp(&0), model::Model::new());
    Ok(())
}

pub fn run(ctx: &mut RunCtx) {
    ctx.assume("tails are appended only after the last completely written committed transaction of a quiescent database (the page file is never ahead of the log)");
    ctx.assume("a well-formed *complete* duplicate transaction at the tail is not generated (the oracle would be ambiguous)");
    let mut p = Profile::base();
    p.ops = 1..8;
    p.ws = 1..6;
    p.w_compact = 2;
    p.w_reopen = 1;
    let mut pa = Profile::base();
    pa.ops = 1..4;
    pa.ws = 1..5;
    pa.w_compact = 1;
    let cases = ctx.tier.pick(60_000, 1_500_000);
    let excl = Excl::default();
    let skip_stray = ctx.has_open("open-fails:stray-record");
    ctx.explore(
        "tails",
        "base log from a generated history (closed or dropped), one generated tail (zeros, random bytes, short body, length fields 0 / huge / all-ones, bad checksum, uncommitted well-formed transaction cut at a generated byte, stray well-formed record) appended after the last complete transaction; open must succeed with dump == model, 1-3 new transactions, two further reopens with dump == model; non-trivial = non-empty tail, >=1 commit before and >=1 commit after recovery",
        cases,
        || {
            (hist::history(&p), any::<bool>(), tail_strategy(), hist::history(&pa)).prop_map(|(base, close, tail, after)| Case { base, close, tail, after })
        },
        |c: &Case, obs: &mut Obs| test(c, obs, &excl, skip_stray),
    );
    // long logs: the base log is hundreds of KiB (reader buffers, block boundaries) with record
    // sizes that vary from case to case, so that record headers fall on every alignment
    let lcases = ctx.tier.pick(1200, 6000);
    ctx.explore(
        "long-logs",
        "base log of 30-90 transactions, each creating a node with a string property of a generated length (100-3000 bytes), i.e. 60-250 KiB of log with record headers at varying offsets (also straddling 64 KiB boundaries); one generated tail; same oracle; non-trivial as in `tails`",
        lcases,
        || {
            (30usize..90, 100usize..3000, any::<u16>(), tail_strategy(), any::<bool>()).prop_map(|(n, len, jitter, tail, close)| {
                let base: Vec<Op> = (0..n)
                    .map(|i| {
                        let l = len + (i * (jitter as usize % 97 + 1)) % 701;
                        Op::Tx { ws: vec![hist::W::CreateNode { labels: vec![(i % 3) as u8] }, hist::W::SetNodeProp { n: u16::MAX, k: 0, v: crate::pv::PV::Str("x".repeat(l)) }], commit: true }
                    })
                    .collect();
                Case { base, close, tail, after: vec![Op::Tx { ws: vec![hist::W::CreateNode { labels: vec![1] }], commit: true }] }
            })
        },
        |c: &Case, obs: &mut Obs| test(c, obs, &excl, skip_stray),
    );
    // exhaustive truncation of one well-formed uncommitted transaction
    let fixed: Vec<Case> = {
        let full = tail_bytes(&Tail::Uncommitted { nodes: 2, keep: u16::MAX });
        let n = full.len();
        (1..=n)
            .map(|k| Case {
                base: vec![Op::Tx { ws: vec![hist::W::CreateNode { labels: vec![0] }, hist::W::CreateEdge { s: 0, t: 0, d: 0 }], commit: true }],
                close: false,
                tail: Tail::Uncommitted { nodes: 2, keep: (((k as u64) << 16) / (n as u64 + 1) + 1).min(65535) as u16 },
                after: vec![Op::Tx { ws: vec![hist::W::CreateNode { labels: vec![1] }], commit: true }],
            })
            .collect()
    };
    ctx.explore_with(
        "truncations",
        "every byte truncation of a well-formed uncommitted transaction appended to a one-transaction log (finite enumeration), same oracle",
        0,
        fixed,
        true,
        || Just(Case { base: vec![], close: false, tail: Tail::Zeros(1), after: vec![] }),
        |c: &Case, obs: &mut Obs| test(c, obs, &excl, skip_stray),
    );
}
