//! C12 Cypher updates match reference semantics (model-based, stateful).
use crate::cy;
use crate::engine::{Obs, RunCtx};
use crate::model::{self, Iid, Model, Universe};
use crate::pv::PV;
use crate::refcy::ast::*;
use crate::refcy::eval::EvalErr;
use crate::refcy::r#gen::{self, Gen, GenOpts, GraphSpec};
use crate::refcy::{self, print, upd};
use proptest::prelude::*;
use serde::{Deserialize, Serialize};
use std::collections::{BTreeMap, BTreeSet};

#[derive(Debug, Clone, Serialize, Deserialize)]
pub struct Stmt {
    pub clauses: Vec<Clause>,
    pub params: Vec<(String, PV)>,
}

#[derive(Debug, Clone, Serialize, Deserialize)]
pub struct Case {
    pub g: GraphSpec,
    pub stmts: Vec<Stmt>,
    /// reproducers of known findings bypass the exclusions
    #[serde(default)]
    pub force: bool,
}

fn case() -> impl Strategy<Value = Case> {
    (r#gen::graph(), prop::collection::vec(any::<u16>(), 0..400), prop::bool::weighted(0.3)).prop_map(|(mut g, tape, parallels)| {
        // parallel instances make most two-relationship prefixes ambiguous; keep them in 30 %
        if !parallels {
            for r in g.rels.iter_mut() {
                r.par = 0;
            }
        }
        let mut opts = GenOpts::plain();
        opts.sparse = true;
        opts.with = false;
        let mut gn = Gen::new(&tape, opts);
        let n = 1 + gn.t.draw(10);
        let mut stmts = Vec::new();
        for _ in 0..n {
            gn.params.clear();
            let clauses = gn.update_statement();
            stmts.push(Stmt { clauses, params: gn.params.clone() });
        }
        Case { g, stmts, force: false }
    })
}

fn text(s: &Stmt) -> String {
    s.clauses.iter().map(print::clause).collect::<Vec<_>>().join(" ")
}

fn relabel(m: &Model, map: &BTreeMap<Iid, Iid>) -> Model {
    let f = |i: Iid| *map.get(&i).unwrap_or(&i);
    let mut out = m.clone();
    out.nodes = m.nodes.iter().map(|(k, v)| (f(*k), v.clone())).collect();
    out.edges = BTreeMap::new();
    for ((s, t, d), c) in &m.edges {
        *out.edges.entry((f(*s), t.clone(), f(*d))).or_insert(0) += c;
    }
    out.edge_props = m.edge_props.iter().map(|((s, t, d), v)| ((f(*s), t.clone(), f(*d)), v.clone())).collect();
    out
}

fn permutations(n: usize) -> Vec<Vec<usize>> {
    fn rec(cur: &mut Vec<usize>, used: &mut Vec<bool>, n: usize, out: &mut Vec<Vec<usize>>) {
        if cur.len() == n {
            out.push(cur.clone());
            return;
        }
        for i in 0..n {
            if !used[i] {
                used[i] = true;
                cur.push(i);
                rec(cur, used, n, out);
                cur.pop();
                used[i] = false;
            }
        }
    }
    let mut out = Vec::new();
    rec(&mut Vec::new(), &mut vec![false; n], n, &mut out);
    out
}

fn kinds(s: &Stmt) -> String {
    let mut v: Vec<&str> = Vec::new();
    for c in &s.clauses {
        let k = match c {
            Clause::Match { optional: true, .. } => "optmatch",
            Clause::Match { .. } => "match",
            Clause::Unwind { .. } => "unwind",
            Clause::With { .. } => "with",
            Clause::Create { .. } => "create",
            Clause::Merge { on_create, on_match, .. } => {
                if on_create.is_empty() && on_match.is_empty() {
                    "merge"
                } else {
                    "merge-on"
                }
            }
            Clause::Set { .. } => "set",
            Clause::Remove { .. } => "remove",
            Clause::Delete { detach: true, .. } => "detach-delete",
            Clause::Delete { .. } => "delete",
            Clause::Return { .. } => "return",
        };
        if !v.contains(&k) {
            v.push(k);
        }
    }
    v.join("+")
}

fn update_only(s: &Stmt, pred: fn(&Clause) -> bool) -> bool {
    let ups: Vec<&Clause> = s.clauses.iter().filter(|c| !matches!(c, Clause::Match { .. } | Clause::Unwind { .. } | Clause::With { .. })).collect();
    !ups.is_empty() && ups.iter().all(|c| pred(c))
}

pub fn run(ctx: &mut RunCtx) {
    ctx.assume("reference: harness/src/refcy/upd.rs applies the statement to the model (reading prefix on the pre-statement graph; update clauses clause by clause, row by row; MERGE sees earlier rows of its clause; SET null removes; DELETE r removes the relationship key with all parallel instances, as documented)");
    ctx.assume("new nodes are matched to the engine's internal ids by searching a label/property/adjacency-preserving bijection (creation order inside one statement is not asserted); external ids are read back, not asserted");
    ctx.assume("change counts: only pure CREATE = nodes + relationships, pure [DETACH] DELETE = nodes + relationship keys, model changed => count > 0, and a re-run of a pure MERGE that the reference says creates nothing => 0");
    ctx.assume("update expressions never read a property the same statement writes (statement-internal read-your-writes is C24's subject); statements whose prefix touches an ambiguous reading are skipped");
    let cases = ctx.tier.pick(8000, 500_000);
    let excl_merge_on_count = ctx.has_open("count-zero-but-changed:merge-on-set-only");
    let excl_cross_row = ctx.excluding("cross-row-reads-after-update-clause");
    let excl_lingering = ctx.excluding("recreate-relationship-key-whose-properties-were-set-and-deleted-in-one-statement");
    let keys: Vec<String> = r#gen::KEYS.iter().map(|s| s.to_string()).collect();
    let types: Vec<String> = r#gen::TYPES.iter().map(|s| s.to_string()).collect();
    let test = |case: &Case, obs: &mut Obs| {
        let built = refcy::build_db(&case.g)?;
        let mut model = built.model.clone();
        let uni = Universe { keys: &keys, types: &types };
        // entities written by earlier statements of the sequence (for the non-trivial rule)
        let mut touched_nodes: BTreeSet<Iid> = BTreeSet::new();
        // relationship keys that got properties and were deleted inside one earlier statement
        let mut lingering: BTreeSet<(Iid, String, Iid)> = BTreeSet::new();
        let mut log: Vec<String> = Vec::new();
        let mut dependent = false;
        for (si, st) in case.stmts.iter().enumerate() {
            let q = text(st);
            let prv = refcy::params_rv(&st.params);
            let before = model.clone();
            let r = upd::apply_statement(&mut model, &st.clauses, &prv);
            let params = cy::params_from(&st.params, Some(refcy::exec_options()));
            let k = kinds(st);
            log.push(q.clone());
            let ctx_txt = |log: &Vec<String>| format!("  statements so far:\n    {}", log.join("\n    "));
            let stats = match r {
                Err(EvalErr::Runtime(why)) => {
                    // the statement has to fail; what a failed statement leaves behind is C13's subject
                    match cy::write(&built.db, &q, &params) {
                        Ok(n) => fail!(format!("error-swallowed:{k}"), "statement {si} must fail ({why}) but the engine reported {n} changes\n{}", ctx_txt(&log)),
                        Err(cy::QErr::Panic(loc, msg)) => fail!(format!("panic@{loc}"), "statement {si} panicked at {loc}: {msg}\n{}", ctx_txt(&log)),
                        Err(_) => {
                            obs.class("ended:expected-failure=engine-failure");
                            break;
                        }
                    }
                }
                // the reference does not decide these statements: they are not sent to the
                // engine at all and the sequence goes on from the state before them
                Err(EvalErr::Budget) => {
                    obs.class("skipped:budget");
                    model = before;
                    log.pop();
                    continue;
                }
                Err(EvalErr::Unsupported(s)) => {
                    obs.class("skipped:unsupported");
                    obs.class(&format!("unsupported:{}", s.chars().take(50).collect::<String>()));
                    model = before;
                    log.pop();
                    continue;
                }
                Err(EvalErr::Nondet(_)) => {
                    obs.class("skipped:nondeterministic");
                    model = before;
                    log.pop();
                    continue;
                }
                Ok(s) => s,
            };
            // open finding: a later clause reads an entity through a row value that predates what
            // another row of an earlier clause wrote to it
            if stats.cross_row_reads {
                if excl_cross_row && !case.force {
                    obs.excluded("cross-row-reads-after-update-clause");
                    model = before;
                    log.pop();
                    continue;
                }
                obs.class("cross-row-read-after-update-clause");
            }
            // open finding: properties SET on a relationship that the same statement then deletes
            // stay in the property store and show on a relationship created later with that key
            let recreates_lingering = stats.created_keys.iter().any(|k| lingering.contains(k));
            if recreates_lingering {
                if excl_lingering && !case.force {
                    obs.excluded("recreate-relationship-key-whose-properties-were-set-and-deleted-in-one-statement");
                    model = before;
                    log.pop();
                    continue;
                }
                obs.class("recreates-relationship-key-with-lingering-properties");
            }
            for ((e, _), v) in &stats.wlog {
                if v.is_none() || !e.starts_with('r') {
                    continue;
                }
                for k in stats.created_keys.iter().chain(before.edges.keys()) {
                    if *e == format!("r{}-{}-{}", k.0, k.1, k.2) && !model.edges.contains_key(k) {
                        lingering.insert(k.clone());
                    }
                }
            }
            // open finding: type() of a relationship whose type name the statement itself introduced
            let new_type = q.contains("type(")
                && model.edges.keys().any(|(_, t, _)| !before.edges.keys().any(|(_, t0, _)| t0 == t));
            let stale = if recreates_lingering {
                "lingering-relationship-properties:"
            } else if stats.cross_row_reads {
                "stale-row-value:"
            } else if new_type {
                "type-of-new-relationship-type:"
            } else {
                ""
            };
            let n = match cy::write(&built.db, &q, &params) {
                Ok(n) => n,
                Err(cy::QErr::Panic(loc, msg)) => fail!(format!("panic@{loc}"), "statement {si} panicked at {loc}: {msg}\n{}", ctx_txt(&log)),
                Err(cy::QErr::Limit(_)) => {
                    obs.class("ended:engine-limit");
                    break;
                }
                Err(e) => {
                    let norm: String = e.text().chars().map(|c| if c.is_ascii_digit() { '#' } else { c }).take(70).collect();
                    fail!(format!("unexpected-error:{k}:{norm}"), "statement {si} failed with `{}` but the reference applies it\n{}", e.text(), ctx_txt(&log));
                }
            };
            obs.sub_eval(None);
            // align the ids of new nodes; a node the statement created and deleted again has no
            // counterpart in the database (its internal id is not knowable), so it is neither
            // aligned nor looked up as a tombstone
            for i in &stats.created_nodes {
                if !model.nodes.contains_key(i) {
                    model.dead.remove(i);
                    obs.class("created-and-deleted-in-one-statement");
                }
            }
            let d = model::dump_db(&built.db, &uni, &model.dead)?;
            let new_db: Vec<Iid> = d.nodes.keys().copied().filter(|i| *i >= before.next_iid).collect();
            let new_model: Vec<Iid> = stats.created_nodes.iter().copied().filter(|i| model.nodes.contains_key(i)).collect();
            if new_db.len() != new_model.len() {
                fail!(format!("update:new-node-count:{k}"), "statement {si} created {} nodes in the engine, {} in the reference\n{}", new_db.len(), new_model.len(), ctx_txt(&log));
            }
            let mut aligned: Option<Model> = None;
            let mut first_diff = None;
            // candidate bijections: first the one that pairs nodes sorted by label/property/
            // degree signature, then (few new nodes) every permutation
            let sig_m = |id: &Iid| {
                let n = &model.nodes[id];
                (format!("{:?}{:?}", n.labels, n.props), model.edges.iter().filter(|(k, _)| k.0 == *id).map(|(_, c)| *c).sum::<u32>(), model.edges.iter().filter(|(k, _)| k.2 == *id).map(|(_, c)| *c).sum::<u32>())
            };
            let sig_d = |id: &Iid| {
                let n = &d.nodes[id];
                let props: BTreeMap<String, PV> = n.props.clone();
                (format!("{:?}{:?}", n.labels, props), d.out.get(id).map(|v| v.len() as u32).unwrap_or(0), d.inc.get(id).map(|v| v.len() as u32).unwrap_or(0))
            };
            let mut by_sig_m: Vec<usize> = (0..new_model.len()).collect();
            by_sig_m.sort_by_key(|i| sig_m(&new_model[*i]));
            let mut by_sig_d: Vec<usize> = (0..new_db.len()).collect();
            by_sig_d.sort_by_key(|i| sig_d(&new_db[*i]));
            let mut sorted_perm = vec![0usize; new_model.len()];
            for (a, b) in by_sig_m.iter().zip(&by_sig_d) {
                sorted_perm[*a] = *b;
            }
            let mut perms = vec![sorted_perm];
            if new_model.len() <= 6 {
                perms.extend(permutations(new_model.len()));
            }
            {
                for p in perms {
                    let map: BTreeMap<Iid, Iid> = new_model.iter().enumerate().map(|(i, m)| (*m, new_db[p[i]])).collect();
                    let mut cand = relabel(&model, &map);
                    for id in &new_db {
                        if let (Some(mn), Some(dn)) = (cand.nodes.get_mut(id), d.nodes.get(id)) {
                            if let Some(e) = dn.ext {
                                mn.ext = e;
                            }
                        }
                    }
                    match model::diff(&cand, &d, &uni) {
                        Ok(()) => {
                            aligned = Some(cand);
                            break;
                        }
                        Err(f) => {
                            first_diff.get_or_insert(f);
                        }
                    }
                }
            }
            if aligned.is_none() && new_model.len() > 6 {
                obs.class("ended:many-new-nodes-not-aligned");
                break;
            }
            let Some(mut m2) = aligned else {
                let f = first_diff.unwrap();
                fail!(format!("{stale}update:{}:{k}", f.signature), "after statement {si} the database differs from the reference: {}\n{}\n  model before: nodes {:?}\n                rels {:?} props {:?}", f.message, ctx_txt(&log), before.nodes, before.edges, before.edge_props);
            };
            m2.next_iid = d.nodes.keys().max().map(|x| x + 1).unwrap_or(0).max(before.next_iid + stats.created_nodes.len() as u32);
            model = m2;
            // change-count relations
            let changed = !before.same_graph(&model);
            if changed && n == 0 {
                let on_set_only = stats.nodes_created + stats.rels_created == 0 && update_only(st, |c| matches!(c, Clause::Merge { on_create, on_match, .. } if !on_create.is_empty() || !on_match.is_empty()));
                if on_set_only {
                    // open finding: assignments of ON MATCH / ON CREATE SET are not counted
                    if excl_merge_on_count && !case.force {
                        obs.excluded("count-relation-for-merge-that-only-runs-on-match-set");
                    } else {
                        fail!("count-zero-but-changed:merge-on-set-only", "statement {si} changed the graph through ON MATCH SET but reported 0 changes\n{}", ctx_txt(&log));
                    }
                } else {
                    fail!(format!("count-zero-but-changed:{k}"), "statement {si} changed the graph but reported 0 changes\n{}", ctx_txt(&log));
                }
            }
            if update_only(st, |c| matches!(c, Clause::Create { .. })) && n != stats.nodes_created + stats.rels_created {
                fail!(format!("count-create:{k}"), "statement {si}: CREATE reported {n}, created {} nodes + {} relationships\n{}", stats.nodes_created, stats.rels_created, ctx_txt(&log));
            }
            if update_only(st, |c| matches!(c, Clause::Delete { .. })) && n != stats.nodes_deleted + stats.rel_keys_deleted {
                fail!(format!("count-delete:{k}"), "statement {si}: DELETE reported {n}, deleted {} nodes + {} relationship keys\n{}", stats.nodes_deleted, stats.rel_keys_deleted, ctx_txt(&log));
            }
            // repeating a MERGE whose pattern now matches creates nothing
            if update_only(st, |c| matches!(c, Clause::Merge { .. })) {
                let mut again = model.clone();
                if let Ok(s2) = upd::apply_statement(&mut again, &st.clauses, &prv) {
                    if s2.nodes_created + s2.rels_created == 0 {
                        match cy::write(&built.db, &q, &params) {
                            Ok(0) => {}
                            Ok(n2) => fail!(format!("merge-rerun-creates:{k}"), "re-running statement {si} reported {n2} changes although its pattern matches\n{}", ctx_txt(&log)),
                            Err(e) => fail!(format!("merge-rerun-error:{k}"), "re-running statement {si} failed: {}\n{}", e.text(), ctx_txt(&log)),
                        }
                        obs.class("merge-rerun-checked");
                        obs.sub_eval(None);
                        let d2 = model::dump_db(&built.db, &uni, &again.dead)?;
                        if let Err(f) = model::diff(&again, &d2, &uni) {
                            fail!(format!("update:merge-rerun:{}:{k}", f.signature), "after re-running statement {si}: {}\n{}", f.message, ctx_txt(&log));
                        }
                        model = again;
                    }
                }
            }
            // non-trivial: the effect involves something an earlier statement wrote
            let mut now_touched: BTreeSet<Iid> = BTreeSet::new();
            for (id, nn) in &model.nodes {
                if before.nodes.get(id) != Some(nn) {
                    now_touched.insert(*id);
                }
            }
            for id in before.nodes.keys() {
                if !model.nodes.contains_key(id) {
                    now_touched.insert(*id);
                }
            }
            for key in model.edges.keys().chain(before.edges.keys()) {
                if model.edges.get(key) != before.edges.get(key) || model.edge_props.get(key) != before.edge_props.get(key) {
                    now_touched.insert(key.0);
                    now_touched.insert(key.2);
                }
            }
            if si > 0 && changed && now_touched.iter().any(|x| touched_nodes.contains(x)) {
                dependent = true;
            }
            touched_nodes.extend(now_touched);
            obs.class(&format!("stmt:{k}"));
            obs.class_if(changed, "stmt-changed-graph");
            obs.class_if(stats.merge_matched, "merge:matched");
            obs.class_if(stats.replaced_own_writes, "set-replace-removes-own-write");
            obs.class_if(stats.merge_created, "merge:created");
            obs.class_if(stats.rows_in_updates == 0, "stmt:no-rows");
        }
        obs.set_nontrivial(dependent);
        obs.class_if(dependent, "dependent-effect");
        Ok(())
    };
    ctx.explore(
        "sequences",
        "generated graph x sequence of 1-10 generated update statements (MATCH/OPTIONAL MATCH/UNWIND prefixes, parameters, nulls; CREATE, MERGE with ON CREATE/ON MATCH, SET property / = map / += map / labels, REMOVE, DELETE, DETACH DELETE), each committed on its own; after every statement full dump == reference model and the stated change-count relations; non-trivial = a statement whose effect touches an entity an earlier statement of the sequence wrote",
        cases,
        case,
        test,
    );
}
