//! C23 Expression evaluation obeys Cypher laws.
//!
//! Three sections, all through `RETURN <expr>` on the per-thread scratch database, values
//! substituted both as literals and as parameters:
//!  * `logic`   exhaustive {true,false,null}^3: Kleene tables, De Morgan, distributivity;
//!  * `tuples`  generated value triples: `=` against an exact reference and as an equivalence,
//!              `< <= > >=` against exact numeric / code point order and against each other,
//!              null propagation, binary/unary arithmetic against the documented overflow rule;
//!  * `folds`   integer lists near the 64-bit limits through reduce(+), reduce(*), sum() and
//!              range(): the same overflow rule everywhere, no wrap-around.
use super::exprlib::{self as xl, Binder, Num};
use crate::cy::{CV, QErr};
use crate::engine::{CaseResult, Failure, Obs, RunCtx, fp};
use crate::pv::PV;
use proptest::prelude::*;
use serde::{Deserialize, Serialize};
use std::cmp::Ordering;

// ------------------------------------------------------------------ helpers

struct Cols {
    exprs: Vec<String>,
}

impl Cols {
    fn new() -> Self {
        Cols { exprs: Vec::new() }
    }
    fn add(&mut self, e: String) -> usize {
        self.exprs.push(e);
        self.exprs.len() - 1
    }
    fn text(&self) -> String {
        let parts: Vec<String> = self.exprs.iter().enumerate().map(|(i, e)| format!("{e} AS c{i}")).collect();
        format!("RETURN {}", parts.join(", "))
    }
}

fn run_cols(cols: &Cols, b: &Binder) -> Result<Vec<CV>, Failure> {
    let q = cols.text();
    match xl::run(&q, b) {
        Ok((_, mut rows)) => {
            if rows.len() != 1 || rows[0].len() != cols.exprs.len() {
                return Err(Failure::new("shape", format!("expected one row of {} columns from {q}, got {} rows", cols.exprs.len(), rows.len())));
            }
            Ok(rows.pop().unwrap())
        }
        Err(QErr::Panic(l, m)) => Err(Failure::new(format!("panic@{l}"), format!("panic at {l}: {m} in {q} params={:?}", b.params))),
        Err(e) => Err(Failure::new("query-error", format!("{} in {q} params={:?}", e.text(), b.params))),
    }
}

/// Three-valued reading of a result cell.
fn tri(v: &CV, what: &str) -> Result<Option<bool>, Failure> {
    match v {
        CV::Null => Ok(None),
        CV::Bool(b) => Ok(Some(*b)),
        o => Err(Failure::new("non-boolean", format!("{what} returned {}", xl::show(o)))),
    }
}

fn t3(v: Option<bool>) -> &'static str {
    match v {
        None => "null",
        Some(true) => "true",
        Some(false) => "false",
    }
}

// Kleene tables (own implementation)
fn k_and(a: Option<bool>, b: Option<bool>) -> Option<bool> {
    match (a, b) {
        (Some(false), _) | (_, Some(false)) => Some(false),
        (Some(true), Some(true)) => Some(true),
        _ => None,
    }
}
fn k_or(a: Option<bool>, b: Option<bool>) -> Option<bool> {
    match (a, b) {
        (Some(true), _) | (_, Some(true)) => Some(true),
        (Some(false), Some(false)) => Some(false),
        _ => None,
    }
}
fn k_xor(a: Option<bool>, b: Option<bool>) -> Option<bool> {
    match (a, b) {
        (Some(x), Some(y)) => Some(x != y),
        _ => None,
    }
}
fn k_not(a: Option<bool>) -> Option<bool> {
    a.map(|x| !x)
}

fn b3(v: Option<bool>) -> PV {
    match v {
        None => PV::Null,
        Some(b) => PV::Bool(b),
    }
}

// ------------------------------------------------------------------ section: logic

#[derive(Debug, Clone, Serialize, Deserialize)]
pub struct Logic {
    a: Option<bool>,
    b: Option<bool>,
    c: Option<bool>,
    lit: bool,
}

fn check_logic(l: &Logic, obs: &mut Obs) -> CaseResult {
    obs.nontrivial();
    obs.class(if l.lit { "literal" } else { "parameter" });
    obs.class_if(l.a.is_none() || l.b.is_none() || l.c.is_none(), "has-null");
    let mut bd = Binder::new(l.lit);
    let (a, b, c) = (bd.bind(&b3(l.a)), bd.bind(&b3(l.b)), bd.bind(&b3(l.c)));
    let mut q = Cols::new();
    let mut exp: Vec<(usize, Option<bool>, String)> = Vec::new();
    let mut add = |q: &mut Cols, e: String, v: Option<bool>| {
        let i = q.add(e.clone());
        exp.push((i, v, e));
    };
    add(&mut q, format!("{a} AND {b}"), k_and(l.a, l.b));
    add(&mut q, format!("{a} OR {b}"), k_or(l.a, l.b));
    add(&mut q, format!("{a} XOR {b}"), k_xor(l.a, l.b));
    add(&mut q, format!("NOT {a}"), k_not(l.a));
    add(&mut q, format!("NOT NOT {a}"), l.a);
    add(&mut q, format!("NOT ({a} AND {b})"), k_not(k_and(l.a, l.b)));
    add(&mut q, format!("(NOT {a}) OR (NOT {b})"), k_or(k_not(l.a), k_not(l.b)));
    add(&mut q, format!("NOT ({a} OR {b})"), k_not(k_or(l.a, l.b)));
    add(&mut q, format!("(NOT {a}) AND (NOT {b})"), k_and(k_not(l.a), k_not(l.b)));
    add(&mut q, format!("{a} AND ({b} OR {c})"), k_and(l.a, k_or(l.b, l.c)));
    add(&mut q, format!("({a} AND {b}) OR ({a} AND {c})"), k_or(k_and(l.a, l.b), k_and(l.a, l.c)));
    add(&mut q, format!("{a} OR ({b} AND {c})"), k_or(l.a, k_and(l.b, l.c)));
    add(&mut q, format!("({a} AND {b}) AND {c}"), k_and(k_and(l.a, l.b), l.c));
    add(&mut q, format!("{a} AND {b} OR {c}"), k_or(k_and(l.a, l.b), l.c)); // precedence: AND binds tighter
    add(&mut q, format!("{a} XOR {b} XOR {c}"), k_xor(k_xor(l.a, l.b), l.c));
    add(&mut q, format!("{a} IS NULL"), Some(l.a.is_none()));
    add(&mut q, format!("{a} IS NOT NULL"), Some(l.a.is_some()));
    let row = run_cols(&q, &bd)?;
    for (i, want, e) in &exp {
        let got = tri(&row[*i], e)?;
        if got != *want {
            let op = if e.contains("XOR") {
                "xor"
            } else if e.starts_with("NOT (") || e.starts_with("(NOT") {
                "demorgan"
            } else if e.contains("AND") && e.contains("OR") {
                "distributive"
            } else if e.contains("AND") {
                "and"
            } else if e.contains("OR") {
                "or"
            } else {
                "not"
            };
            fail!(format!("kleene:{op}"), "{e} = {} but three-valued logic gives {} (a={} b={} c={})", t3(got), t3(*want), t3(l.a), t3(l.b), t3(l.c));
        }
    }
    // De Morgan as a relation between the engine's own two results
    if !row[5].same(&row[6]) || !row[7].same(&row[8]) {
        fail!("kleene:demorgan", "De Morgan sides differ: {:?}", &row[5..9]);
    }
    Ok(())
}

// ------------------------------------------------------------------ section: tuples

#[derive(Debug, Clone, Serialize, Deserialize)]
pub struct Tuple {
    a: PV,
    b: PV,
    c: PV,
    lit: bool,
    /// set by the generator when temporal-looking strings were rewritten (exclusion by construction)
    #[serde(default)]
    rewritten: bool,
}

fn tuple_strategy(excl_temporal: bool) -> impl Strategy<Value = Tuple> {
    let numeric = (xl::hard_num(), any::<u8>(), -2i64..=2, any::<u8>(), -2i64..=2, xl::hard_num(), 0u8..4).prop_map(|(a, m1, d1, m2, d2, free, shape)| {
        let b = xl::related_num(&a, m1, d1);
        match shape {
            0 => {
                let c = xl::related_num(&b, m2, d2);
                (a, b, c)
            }
            1 => {
                let c = xl::related_num(&a, m2, d2);
                (a, b, c)
            }
            2 => (a, b, free),
            _ => (a, free.clone(), xl::related_num(&free, m2, d2)),
        }
    });
    let strings = (xl::hard_string(), xl::hard_string(), xl::hard_string(), 0u8..4).prop_map(|(a, b, c, m)| match m {
        0 => (PV::Str(a.clone()), PV::Str(format!("{a}{b}")), PV::Str(c)),
        1 => (PV::Str(a.clone()), PV::Str(a), PV::Str(b)),
        _ => (PV::Str(a), PV::Str(b), PV::Str(c)),
    });
    let lists = (prop::collection::vec(xl::hard_scalar(), 0..3), xl::hard_num(), any::<u8>(), -1i64..=1, any::<u8>(), xl::hard_scalar()).prop_map(|(pre, x, m1, d, m2, other)| {
        let y = xl::related_num(&x, m1, d);
        let z = xl::related_num(&y, m2, d);
        let mk = |v: PV| {
            let mut l = pre.clone();
            l.push(v);
            PV::List(l)
        };
        let mut longer = pre.clone();
        longer.push(x.clone());
        longer.push(other);
        if m2 % 4 == 0 { (mk(x), mk(y), PV::List(longer)) } else { (mk(x), mk(y), mk(z)) }
    });
    let mixed = (xl::hard_value(), xl::hard_value(), xl::hard_value(), 0u8..4).prop_map(|(a, b, c, m)| match m {
        0 => (a.clone(), a, b),
        1 => (a, b.clone(), b),
        _ => (a, b, c),
    });
    let with_null = (xl::hard_value(), xl::hard_value(), 0u8..3).prop_map(|(a, b, m)| match m {
        0 => (PV::Null, a, b),
        1 => (a, PV::Null, b),
        _ => (a, b, PV::Null),
    });
    let bools = (xl::hard_scalar(), any::<bool>(), any::<bool>()).prop_map(|(a, b, c)| (PV::Bool(b), PV::Bool(c), a));
    (
        prop_oneof![
            8 => numeric,
            3 => strings,
            3 => lists,
            3 => mixed,
            1 => with_null,
            1 => bools,
        ],
        any::<bool>(),
    )
        .prop_map(move |((a, b, c), lit)| {
            let mut t = Tuple { a, b, c, lit, rewritten: false };
            if excl_temporal {
                for v in [&mut t.a, &mut t.b, &mut t.c] {
                    t.rewritten |= xl::detemporalize(v);
                }
            }
            t
        })
}

const CMP_OPS: [&str; 6] = ["=", "<>", "<", "<=", ">", ">="];
const ARITH_OPS: [&str; 6] = ["+", "-", "*", "/", "%", "^"];

#[derive(Debug, Clone, Copy)]
struct Cmp6 {
    eq: Option<bool>,
    ne: Option<bool>,
    lt: Option<bool>,
    le: Option<bool>,
    gt: Option<bool>,
    ge: Option<bool>,
}

fn pair_label(x: &CV, y: &CV) -> String {
    let (a, b) = (xl::kind(x), xl::kind(y));
    if a <= b { format!("{a}-{b}") } else { format!("{b}-{a}") }
}

/// Exact order of two scalars of one comparable family; None: not comparable here.
fn scalar_order(x: &CV, y: &CV) -> Option<Ordering> {
    match (x, y) {
        (CV::Int(_) | CV::Float(_), CV::Int(_) | CV::Float(_)) => xl::num_cmp(xl::num_of(x)?, xl::num_of(y)?),
        (CV::Str(a), CV::Str(b)) => Some(a.as_bytes().cmp(b.as_bytes())),
        (CV::Bool(a), CV::Bool(b)) => Some(a.cmp(b)),
        _ => None,
    }
}

fn is_nan(v: &CV) -> bool {
    matches!(v, CV::Float(b) if f64::from_bits(*b).is_nan())
}

fn check_pair(x: &CV, y: &CV, xy: &Cmp6, yx: &Cmp6, obs: &mut Obs) -> CaseResult {
    let lbl = pair_label(x, y);
    let desc = || format!("x={} y={}", xl::show(x), xl::show(y));
    // ---- direct oracle for `=` / `<>`
    let nan_inside = xl::contains(x, &is_nan) || xl::contains(y, &is_nan);
    if !nan_inside {
        let want = xl::ref_eq(x, y);
        if xy.eq != want {
            fail!(format!("eq-wrong:{lbl}"), "x = y gives {} but exact Cypher equality gives {} ({})", t3(xy.eq), t3(want), desc());
        }
        if xy.ne != want.map(|b| !b) {
            fail!(format!("ne-wrong:{lbl}"), "x <> y gives {} but exact Cypher inequality gives {} ({})", t3(xy.ne), t3(want.map(|b| !b)), desc());
        }
    } else {
        obs.class("nan-skipped");
    }
    // ---- laws that hold for all values
    if xy.eq != yx.eq {
        fail!(format!("eq-not-symmetric:{lbl}"), "x = y is {} but y = x is {} ({})", t3(xy.eq), t3(yx.eq), desc());
    }
    if xy.ne != k_not(xy.eq) {
        fail!(format!("ne-not-negation:{lbl}"), "x <> y is {} but NOT (x = y) is {} ({})", t3(xy.ne), t3(k_not(xy.eq)), desc());
    }
    if xy.lt != yx.gt || xy.le != yx.ge || xy.gt != yx.lt || xy.ge != yx.le {
        fail!(format!("cmp-not-converse:{lbl}"), "x<y={} y>x={} x<=y={} y>=x={} x>y={} y<x={} x>=y={} y<=x={} ({})", t3(xy.lt), t3(yx.gt), t3(xy.le), t3(yx.ge), t3(xy.gt), t3(yx.lt), t3(xy.ge), t3(yx.le), desc());
    }
    if matches!(x, CV::Null) || matches!(y, CV::Null) {
        for (n, v) in [("=", xy.eq), ("<>", xy.ne), ("<", xy.lt), ("<=", xy.le), (">", xy.gt), (">=", xy.ge)] {
            if v.is_some() {
                fail!(format!("null-propagation:{n}"), "x {n} y is {} with a null operand ({})", t3(v), desc());
            }
        }
        return Ok(());
    }
    // ---- order against the exact reference and mutual consistency (comparable scalars)
    if is_nan(x) || is_nan(y) {
        return Ok(());
    }
    if let Some(ord) = scalar_order(x, y) {
        obs.class("ordered-pair");
        let temporal = matches!((x, y), (CV::Str(a), CV::Str(b)) if xl::temporal_like(a) || xl::temporal_like(b));
        let sfx = if temporal { ":temporal-looking" } else { "" };
        let want = [ord == Ordering::Less, ord != Ordering::Greater, ord == Ordering::Greater, ord != Ordering::Less];
        let got = [xy.lt, xy.le, xy.gt, xy.ge];
        for (i, n) in ["<", "<=", ">", ">="].iter().enumerate() {
            if got[i] != Some(want[i]) {
                fail!(format!("cmp-wrong:{lbl}{sfx}"), "x {n} y gives {} but the exact order is {ord:?} ({})", t3(got[i]), desc());
            }
        }
        // (implied by the above, kept as engine-internal laws)
        let n_true = [xy.lt, xy.eq, xy.gt].iter().filter(|v| **v == Some(true)).count();
        if n_true != 1 {
            fail!(format!("cmp-not-trichotomous:{lbl}{sfx}"), "x<y={} x=y={} x>y={} ({})", t3(xy.lt), t3(xy.eq), t3(xy.gt), desc());
        }
        if xy.le != k_or(xy.lt, xy.eq) || xy.ge != k_or(xy.gt, xy.eq) {
            fail!(format!("cmp-le-inconsistent:{lbl}{sfx}"), "x<=y={} but x<y={} x=y={}; x>=y={} x>y={} ({})", t3(xy.le), t3(xy.lt), t3(xy.eq), t3(xy.ge), t3(xy.gt), desc());
        }
    }
    Ok(())
}

fn ref_arith(op: &str, x: Num, y: Num) -> Option<CV> {
    let fop = |l: f64, r: f64| -> f64 {
        match op {
            "+" => l + r,
            "-" => l - r,
            "*" => l * r,
            "/" => l / r,
            "%" => l % r,
            _ => l.powf(r),
        }
    };
    let as_f = |n: Num| match n {
        Num::I(i) => i as f64,
        Num::F(f) => f,
    };
    match (op, x, y) {
        ("^", _, _) => Some(CV::f(fop(as_f(x), as_f(y)))),
        (_, Num::I(l), Num::I(r)) => {
            let (l1, r1) = (l as i128, r as i128);
            let exact = match op {
                "+" => l1 + r1,
                "-" => l1 - r1,
                "*" => l1 * r1,
                "/" => {
                    if r == 0 {
                        return None; // integer division by zero: not part of this property
                    }
                    l1 / r1
                }
                _ => {
                    if r == 0 {
                        return None;
                    }
                    l1 % r1
                }
            };
            if xl::fits_i64(exact) { Some(CV::Int(exact as i64)) } else { Some(CV::f(fop(l as f64, r as f64))) }
        }
        ("%", _, r) if as_f(r) == 0.0 => None,
        _ => Some(CV::f(fop(as_f(x), as_f(y)))),
    }
}

fn check_tuple(t: &Tuple, obs: &mut Obs) -> CaseResult {
    if t.rewritten {
        obs.excluded("temporal-looking strings rewritten (open finding cmp-wrong:string-string:temporal-looking)");
    }
    let vals = [CV::from_pv(&t.a), CV::from_pv(&t.b), CV::from_pv(&t.c)];
    let pvs = [&t.a, &t.b, &t.c];
    let boundary = pvs.iter().any(|v| xl::contains_pv(v, &xl::is_boundary_num));
    let has_null = vals.iter().any(|v| xl::contains(v, &|x| matches!(x, CV::Null)));
    obs.set_nontrivial(boundary || has_null);
    obs.class(if t.lit { "literal" } else { "parameter" });
    obs.class_if(boundary, "boundary-number");
    obs.class_if(has_null, "has-null");
    obs.class_if(vals.iter().any(|v| xl::contains(v, &is_nan)), "has-nan");
    let nk = |v: &CV| matches!(v, CV::Int(_) | CV::Float(_));
    obs.class_if(vals.iter().any(|v| matches!(v, CV::Int(_))) && vals.iter().any(|v| matches!(v, CV::Float(_))), "int-and-float");
    obs.class_if(vals.iter().all(nk), "all-numeric");
    obs.class_if(vals.iter().any(|v| matches!(v, CV::List(_))), "has-list");
    obs.class_if(vals.iter().any(|v| matches!(v, CV::Map(_))), "has-map");
    obs.class_if(vals.iter().any(|v| matches!(v, CV::Str(_))), "has-string");
    obs.class_if(pvs.iter().any(|v| xl::has_temporal_like(v)), "temporal-looking-string");

    // ---------------- query 1: comparisons of all ordered pairs
    let mut bd = Binder::new(t.lit);
    let names: Vec<String> = pvs.iter().map(|v| bd.bind(v)).collect();
    let mut q = Cols::new();
    let mut at = [[0usize; 3]; 3];
    for i in 0..3 {
        for j in 0..3 {
            at[i][j] = q.exprs.len();
            for op in CMP_OPS {
                q.add(format!("{} {op} {}", names[i], names[j]));
            }
        }
    }
    // the negated form of every comparison (an evaluator may rewrite `NOT (x < y)` into `x >= y`,
    // which is not the same thing for NaN, null and incomparable operands)
    let mut nat = [[0usize; 3]; 3];
    for i in 0..3 {
        for j in 0..3 {
            nat[i][j] = q.exprs.len();
            for op in CMP_OPS {
                q.add(format!("NOT ({} {op} {})", names[i], names[j]));
            }
        }
    }
    let row = run_cols(&q, &bd)?;
    for i in 0..3 {
        for j in 0..3 {
            for (k, op) in CMP_OPS.iter().enumerate() {
                let what = format!("{} {op} {}", xl::show(&vals[i]), xl::show(&vals[j]));
                let plain = tri(&row[at[i][j] + k], &what)?;
                let negated = tri(&row[nat[i][j] + k], &format!("NOT ({what})"))?;
                if negated != k_not(plain) {
                    fail!(format!("not-of-comparison:{op}:{}", pair_label(&vals[i], &vals[j])), "{what} is {} but NOT ({what}) is {}", t3(plain), t3(negated));
                }
            }
        }
    }
    let mut cmp = Vec::new();
    for i in 0..3 {
        let mut r = Vec::new();
        for j in 0..3 {
            let b = at[i][j];
            let what = |k: usize| format!("{} {} {}", xl::show(&vals[i]), CMP_OPS[k], xl::show(&vals[j]));
            r.push(Cmp6 {
                eq: tri(&row[b], &what(0))?,
                ne: tri(&row[b + 1], &what(1))?,
                lt: tri(&row[b + 2], &what(2))?,
                le: tri(&row[b + 3], &what(3))?,
                gt: tri(&row[b + 4], &what(4))?,
                ge: tri(&row[b + 5], &what(5))?,
            });
        }
        cmp.push(r);
    }
    for i in 0..3 {
        // reflexivity on values free of null and NaN
        if !xl::has_null_or_nan(&vals[i]) && cmp[i][i].eq != Some(true) {
            fail!(format!("eq-not-reflexive:{}", xl::kind(&vals[i])), "x = x is {} for x={}", t3(cmp[i][i].eq), xl::show(&vals[i]));
        }
        for j in 0..3 {
            obs.sub_eval(Some(fp(&(i, j))));
            check_pair(&vals[i], &vals[j], &cmp[i][j], &cmp[j][i], obs)?;
        }
    }
    let clean = vals.iter().all(|v| !xl::has_null_or_nan(v));
    if clean {
        // transitivity over every arrangement of the triple
        for (i, j, k) in [(0, 1, 2), (0, 2, 1), (1, 0, 2), (1, 2, 0), (2, 0, 1), (2, 1, 0)] {
            let d = || format!("x={} y={} z={}", xl::show(&vals[i]), xl::show(&vals[j]), xl::show(&vals[k]));
            if cmp[i][j].eq == Some(true) && cmp[j][k].eq == Some(true) && cmp[i][k].eq != Some(true) {
                fail!("eq-not-transitive", "x = y and y = z but x = z is {} ({})", t3(cmp[i][k].eq), d());
            }
            if cmp[i][j].lt == Some(true) && cmp[j][k].lt == Some(true) && cmp[i][k].lt != Some(true) {
                fail!("lt-not-transitive", "x < y and y < z but x < z is {} ({})", t3(cmp[i][k].lt), d());
            }
            if cmp[i][j].le == Some(true) && cmp[j][k].le == Some(true) && cmp[i][k].le != Some(true) {
                fail!("le-not-transitive", "x <= y and y <= z but x <= z is {} ({})", t3(cmp[i][k].le), d());
            }
            if cmp[i][j].lt == Some(true) && cmp[j][k].eq == Some(true) && cmp[i][k].lt != Some(true) {
                fail!("lt-eq-not-compatible", "x < y and y = z but x < z is {} ({})", t3(cmp[i][k].lt), d());
            }
        }
    }

    // ---------------- query 2: null propagation and arithmetic on (a, b)
    let mut bd = Binder::new(t.lit);
    let (a, b) = (bd.bind(&t.a), bd.bind(&t.b));
    let mut q = Cols::new();
    let mut nulls: Vec<(usize, String, String)> = Vec::new();
    for op in ARITH_OPS.iter().chain(CMP_OPS.iter()) {
        let e1 = format!("{a} {op} null");
        let e2 = format!("null {op} {a}");
        nulls.push((q.add(e1.clone()), format!("x {op} null"), e1));
        nulls.push((q.add(e2.clone()), format!("null {op} x"), e2));
    }
    for e in ["-null", "abs(null)", "null + null", "null = null", "null <> null", "null < null"] {
        nulls.push((q.add(e.to_string()), e.to_string(), e.to_string()));
    }
    let arith_at = q.exprs.len();
    for op in ARITH_OPS {
        q.add(format!("{a} {op} {b}"));
    }
    let neg_at = q.add(format!("-{a}"));
    let abs_at = q.add(format!("abs({a})"));
    let row = run_cols(&q, &bd)?;
    for (i, sig, e) in &nulls {
        if row[*i] != CV::Null {
            fail!(format!("null-propagation:{sig}"), "{e} returned {} (x={})", xl::show(&row[*i]), xl::show(&vals[0]));
        }
    }
    if let (Some(x), Some(y)) = (xl::num_of(&vals[0]), xl::num_of(&vals[1])) {
        for (k, op) in ARITH_OPS.iter().enumerate() {
            let Some(want) = ref_arith(op, x, y) else {
                obs.class("division-by-zero-skipped");
                continue;
            };
            let got = &row[arith_at + k];
            let overflow = matches!((x, y), (Num::I(_), Num::I(_))) && matches!(want, CV::Float(_)) && *op != "^";
            obs.class_if(overflow, "int-overflow");
            if !got.same(&want) {
                let fam = if overflow { "overflow-rule" } else { "arith-wrong" };
                fail!(format!("{fam}:{op}:{}", pair_label(&vals[0], &vals[1])), "{} {op} {} returned {} but the documented rule (exact i128 if it fits, else float) gives {}", xl::show(&vals[0]), xl::show(&vals[1]), xl::show(got), xl::show(&want));
            }
        }
    }
    if let Some(x) = xl::num_of(&vals[0]) {
        let (wn, wa) = match x {
            Num::I(i) => (i.checked_neg().map(CV::Int).unwrap_or(CV::f(-(i as f64))), i.checked_abs().map(CV::Int).unwrap_or(CV::f((i as f64).abs()))),
            Num::F(f) => (CV::f(-f), CV::f(f.abs())),
        };
        obs.class_if(matches!(x, Num::I(i64::MIN)), "int-overflow");
        if !row[neg_at].same(&wn) {
            fail!("overflow-rule:neg", "-({}) returned {} expected {}", xl::show(&vals[0]), xl::show(&row[neg_at]), xl::show(&wn));
        }
        if !row[abs_at].same(&wa) {
            fail!("overflow-rule:abs", "abs({}) returned {} expected {}", xl::show(&vals[0]), xl::show(&row[abs_at]), xl::show(&wa));
        }
    }
    Ok(())
}

// ------------------------------------------------------------------ section: folds

#[derive(Debug, Clone, Serialize, Deserialize)]
pub enum Fold {
    List { xs: Vec<i64>, lit: bool },
    Range { start: i64, n: u8, step: i64, lit: bool },
}

fn fold_strategy() -> impl Strategy<Value = Fold> {
    let big = prop_oneof![
        4 => (prop::sample::select(vec![i64::MAX, i64::MIN, 1 << 62, -(1 << 62), 3037000500, -3037000500, 1 << 32, 0]), -3i64..=3).prop_map(|(b, d)| b.saturating_add(d)),
        3 => -5i64..=5,
        1 => any::<i64>(),
    ];
    prop_oneof![
        3 => (prop::collection::vec(big, 0..6), any::<bool>()).prop_map(|(xs, lit)| Fold::List { xs, lit }),
        1 => (xl::hard_i64(), 0u8..12, prop_oneof![Just(1i64), Just(-1), Just(2), Just(i64::MAX), Just(i64::MIN), (1i64 << 61)..(1i64 << 62), -7i64..8], any::<bool>())
            .prop_map(|(start, n, step, lit)| Fold::Range { start, n, step, lit }),
    ]
}

/// Left fold with the documented rule: exact while it fits, float from the first overflow on.
fn fold_rule(init: i64, xs: &[i64], mul: bool) -> (CV, bool) {
    let mut acc = Num::I(init);
    let mut overflowed = false;
    for x in xs {
        acc = match acc {
            Num::I(a) => {
                let e = if mul { a as i128 * *x as i128 } else { a as i128 + *x as i128 };
                if xl::fits_i64(e) {
                    Num::I(e as i64)
                } else {
                    overflowed = true;
                    Num::F(if mul { a as f64 * *x as f64 } else { a as f64 + *x as f64 })
                }
            }
            Num::F(f) => Num::F(if mul { f * *x as f64 } else { f + *x as f64 }),
        };
    }
    (
        match acc {
            Num::I(i) => CV::Int(i),
            Num::F(f) => CV::f(f),
        },
        overflowed,
    )
}

fn close(f: f64, exact: i128) -> bool {
    let e = exact as f64;
    (f - e).abs() <= e.abs() * 1e-12 + 1.0
}

fn check_fold(f: &Fold, obs: &mut Obs) -> CaseResult {
    match f {
        Fold::List { xs, lit } => {
            obs.class("list");
            let total: i128 = xs.iter().map(|x| *x as i128).sum();
            let (want_add, of_add) = fold_rule(0, xs, false);
            let (want_mul, of_mul) = fold_rule(1, xs, true);
            obs.set_nontrivial(of_add || of_mul || !xl::fits_i64(total));
            obs.class_if(of_add, "partial-sum-overflow");
            obs.class_if(!xl::fits_i64(total), "total-overflow");
            obs.class_if(of_mul, "product-overflow");
            let mut bd = Binder::new(*lit);
            let l = bd.bind(&PV::List(xs.iter().map(|x| PV::Int(*x)).collect()));
            let mut q = Cols::new();
            q.add(format!("reduce(s = 0, x IN {l} | s + x)"));
            q.add(format!("reduce(s = 1, x IN {l} | s * x)"));
            let row = run_cols(&q, &bd)?;
            if !row[0].same(&want_add) {
                fail!("overflow-rule:reduce+", "reduce(+) over {xs:?} returned {} expected {}", xl::show(&row[0]), xl::show(&want_add));
            }
            if !row[1].same(&want_mul) {
                fail!("overflow-rule:reduce*", "reduce(*) over {xs:?} returned {} expected {}", xl::show(&row[1]), xl::show(&want_mul));
            }
            let q2 = format!("UNWIND {l} AS x RETURN sum(x) AS c0");
            let got = match xl::run(&q2, &bd) {
                Ok((_, rows)) if rows.len() == 1 => rows[0][0].clone(),
                Ok((_, rows)) => fail!("shape", "{q2} returned {} rows", rows.len()),
                Err(e) => fail!("query-error", "{} in {q2}", e.text()),
            };
            obs.sub_eval(None);
            match &got {
                CV::Int(i) => {
                    if *i as i128 != total {
                        let sig = if xl::fits_i64(total) { "sum-wrong:int" } else { "sum-wraps:i64" };
                        fail!(sig, "sum over {xs:?} returned {i} but the exact sum is {total}");
                    }
                }
                CV::Float(b) => {
                    // allowed only if some left-to-right partial sum (or the total) left the i64 range
                    if !of_add && xl::fits_i64(total) {
                        fail!("sum-wrong:float-without-overflow", "sum over {xs:?} returned a float {} although nothing overflows (exact {total})", xl::show(&got));
                    }
                    if !close(f64::from_bits(*b), total) {
                        fail!("sum-wrong:float", "sum over {xs:?} returned {} but the exact sum is {total}", xl::show(&got));
                    }
                }
                o => fail!("sum-wrong:type", "sum over {xs:?} returned {}", xl::show(o)),
            }
            Ok(())
        }
        Fold::Range { start, n, step, lit } => {
            obs.class("range");
            if *step == 0 {
                return Ok(());
            }
            // end chosen so that the exact progression has at most n+1 elements
            let end128 = *start as i128 + (*n as i128) * (*step as i128);
            let end = end128.clamp(i64::MIN as i128, i64::MAX as i128) as i64;
            let mut want = Vec::new();
            let mut cur = *start as i128;
            while (if *step > 0 { cur <= end as i128 } else { cur >= end as i128 }) && want.len() < 64 {
                want.push(CV::Int(cur as i64));
                cur += *step as i128;
            }
            let near = end128 != end as i128 || (end as i128 + *step as i128) > i64::MAX as i128 || (end as i128 + *step as i128) < i64::MIN as i128;
            obs.set_nontrivial(near);
            obs.class_if(near, "range-at-limit");
            let mut bd = Binder::new(*lit);
            let (s, e, st) = (bd.bind(&PV::Int(*start)), bd.bind(&PV::Int(end)), bd.bind(&PV::Int(*step)));
            let mut q = Cols::new();
            q.add(format!("range({s}, {e}, {st})"));
            let row = run_cols(&q, &bd)?;
            if row[0] != CV::List(want.clone()) {
                fail!("overflow-rule:range", "range({start}, {end}, {step}) returned {} expected {} elements {}", xl::show(&row[0]), want.len(), xl::show(&CV::List(want)));
            }
            Ok(())
        }
    }
}

pub fn run(ctx: &mut RunCtx) {
    ctx.assume("integer overflow rule as stated in evaluator_numeric.rs::numeric_binop and pinned by the unit tests of evaluator_arithmetic.rs: the exact (i128) result if it fits i64, otherwise the float result of the operator on the operands converted to f64; unary minus and abs of i64::MIN follow the same rule; ^ always yields a float");
    ctx.assume("integer division and modulo by zero (null in this engine, an error in openCypher) are outside this property and skipped");
    ctx.assume("comparisons involving NaN and `<`-family comparisons across kinds or on lists are not judged directly; equality across kinds is false");
    let excl_temporal = ctx.has_open("cmp-wrong:string-string:temporal-looking");

    let mut fixed = Vec::new();
    for lit in [true, false] {
        for a in [Some(true), Some(false), None] {
            for b in [Some(true), Some(false), None] {
                for c in [Some(true), Some(false), None] {
                    fixed.push(Logic { a, b, c, lit });
                }
            }
        }
    }
    ctx.explore_with(
        "logic",
        "exhaustive: all 27 assignments of {true,false,null} to (a,b,c), as literals and as parameters; AND/OR/XOR/NOT against own Kleene tables, De Morgan, distributivity, precedence (every case is non-trivial)",
        0,
        fixed,
        true,
        || Just(Logic { a: None, b: None, c: None, lit: true }),
        check_logic,
    );

    ctx.explore(
        "tuples",
        "value triples (numeric triples related through type change / +-1 / ulp steps around 2^53 and 2^63, strings incl. temporal-looking ones, lists, maps, nulls) as literals or parameters; 54 comparison results checked against exact equality/order and against each other (symmetry, converse, trichotomy, transitivity), 26 null-propagation results, 8 arithmetic results against the documented overflow rule; non-trivial = the triple contains a boundary number (|v| >= 2^53-2, non-finite, -0.0) or a null",
        ctx.tier.pick(240_000, 4_500_000),
        move || tuple_strategy(excl_temporal),
        check_tuple,
    );

    ctx.explore(
        "folds",
        "integer lists near the i64 limits through reduce(+), reduce(*) (exact left fold with float fallback), sum() (exact i128 total, float only if a partial sum or the total overflows, never wrapped) and range() ending at the limits; non-trivial = some partial sum/product or the total overflows, or the range touches an i64 limit",
        ctx.tier.pick(80_000, 1_500_000),
        fold_strategy,
        check_fold,
    );
}
