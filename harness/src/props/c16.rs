//! C16 Query processing never crashes the host.
//!
//! Every case (query text, parameter map, small graph) is executed in a child worker
//! process (`check --worker c16 <scratch>`), because a stack overflow or an allocation
//! failure aborts the process. The worker announces each case and each phase on stdout;
//! the parent attributes a death (signal / non-zero exit / missing END) to the announced
//! case, reports it as a failure, restarts the worker and goes on. Panics are caught in the
//! worker and reported in the END record, so a campaign continues past known ones.
use super::c16_grammar as gram;
use crate::cy;
use crate::engine::{self, CaseResult, Failure, Obs, RunCtx};
use crate::hist::{self, Excl, Op, Profile, Runner, W};
use crate::pv::{self, PV};
use nervusdb::query::{ExecuteOptions, prepare};
use proptest::prelude::*;
use serde::{Deserialize, Serialize};
use std::cell::RefCell;
use std::collections::VecDeque;
use std::io::{BufRead, BufReader, Write};
use std::os::unix::process::ExitStatusExt;
use std::path::{Path, PathBuf};
use std::process::{Child, ChildStdin, Command, Stdio};
use std::sync::atomic::{AtomicBool, AtomicU64, Ordering};
use std::sync::mpsc::{Receiver, RecvTimeoutError, channel};
use std::sync::{Arc, Mutex};
use std::time::{Duration, Instant};

/// Configured soft timeout of every execution.
pub const SOFT_TIMEOUT_MS: u64 = 200;
/// The oracle's bound: a prepare+execute unit may take at most 50x the configured timeout.
pub const OVERRUN_FACTOR: u64 = 50;
/// The parent kills a worker that stays silent while burning this much CPU time (the
/// oracle's bound plus slack). All bounds are CPU time of the worker: the machine is shared.
const SILENCE_KILL_MS: u64 = OVERRUN_FACTOR * SOFT_TIMEOUT_MS + 2_000;
/// A worker silent this long in wall time without consuming CPU is given up (inconclusive).
const WALL_SILENCE_KILL_MS: u64 = 600_000;
/// Address-space limit of a worker (KiB) -> allocation failures instead of swapping.
const WORKER_VMEM_KIB: u64 = 2 * 1024 * 1024;
const SMALL_STACK: usize = 2 << 20;
const TAKE_ROWS: usize = 10_000;

fn exec_options() -> ExecuteOptions {
    ExecuteOptions {
        max_intermediate_rows: 10_000,
        max_collection_items: 10_000,
        soft_timeout_ms: SOFT_TIMEOUT_MS,
        max_apply_rows_per_outer: 10_000,
    }
}

// ------------------------------------------------------------------------ cases

#[derive(Debug, Clone, Serialize, Deserialize, PartialEq)]
pub enum Src {
    /// generated / mutated / harvested text (`origin` names the generator; `excl` counts
    /// the restrictions applied by construction because of an open finding)
    Text {
        origin: String,
        text: String,
        #[serde(default)]
        excl: u32,
    },
    /// arbitrary bytes (hex), decoded lossily as the C API's callers must pass UTF-8
    Bytes { hex: String },
    /// `depth`-fold repetition of one recursive production around `atom`
    Deep { shape: String, depth: u32, ctx: String, atom: String },
}

#[derive(Debug, Clone, Serialize, Deserialize, PartialEq)]
pub struct Case {
    pub src: Src,
    pub params: Vec<(String, PV)>,
    pub graph: Vec<Op>,
}

fn unhex(h: &str) -> Vec<u8> {
    let b = h.as_bytes();
    (0..b.len() / 2)
        .map(|i| {
            let d = |c: u8| (c as char).to_digit(16).unwrap_or(0) as u8;
            d(b[2 * i]) << 4 | d(b[2 * i + 1])
        })
        .collect()
}

fn hex(b: &[u8]) -> String {
    b.iter().map(|x| format!("{x:02x}")).collect()
}

impl Case {
    pub fn text(&self) -> String {
        match &self.src {
            Src::Text { text, .. } => text.clone(),
            Src::Bytes { hex } => String::from_utf8_lossy(&unhex(hex)).into_owned(),
            Src::Deep { shape, depth, ctx, atom } => gram::deep_text(shape, *depth as usize, ctx, atom),
        }
    }
    /// Class used in abort/timeout signatures.
    pub fn class(&self) -> String {
        match &self.src {
            Src::Text { origin, .. } => origin.clone(),
            Src::Bytes { .. } => "bytes".into(),
            Src::Deep { shape, .. } => format!("deep-nesting:{shape}"),
        }
    }
    pub fn depth(&self, text: &str) -> usize {
        match &self.src {
            Src::Deep { depth, .. } => *depth as usize,
            _ => gram::nesting_depth(text),
        }
    }
}

fn corpus() -> Vec<String> {
    include_str!("c16_corpus.jsonl")
        .lines()
        .filter_map(|l| serde_json::from_str::<String>(l).ok())
        .collect()
}

const PARAM_NAMES: [&str; 4] = ["p0", "p1", "p2", "p3"];

fn param_value(restrict: gram::Restrict) -> BoxedStrategy<PV> {
    // open finding "expression loops ignore the timeout": keep list parameters small
    let max_list = if restrict.loops { 3_000usize } else { 30_000 };
    prop_oneof![
        8 => pv::any_pv(3, 4),
        2 => pv::scalar_pv(),
        1 => (0usize..max_list).prop_map(|n| PV::List((0..n as i64).map(PV::Int).collect())),
        1 => (0usize..50_000, prop::sample::select(vec!["a", "\u{e9}", "\u{1F600}", " "])).prop_map(|(n, u)| PV::Str(u.repeat(n))),
        1 => (1usize..60).prop_map(|d| {
            let mut v = PV::Int(1);
            for i in 0..d {
                v = if i % 2 == 0 { PV::List(vec![v]) } else { PV::Map([("a".to_string(), v)].into_iter().collect()) };
            }
            v
        }),
    ]
    .boxed()
}

fn params_strategy(restrict: gram::Restrict) -> BoxedStrategy<Vec<(String, PV)>> {
    prop_oneof![
        2 => Just(Vec::new()),
        3 => prop::collection::vec(param_value(restrict), 1..=4).prop_map(|vs| {
            vs.into_iter().enumerate().map(|(i, v)| (PARAM_NAMES[i].to_string(), v)).collect()
        }),
    ]
    .boxed()
}

fn graph_strategy() -> BoxedStrategy<Vec<Op>> {
    let mut p = Profile::base();
    p.ops = 0..6;
    p.ws = 1..7;
    p.w_compact = 5;
    p.nested_values = true;
    let mut edge_free = p.clone();
    edge_free.ops = 1..4;
    prop_oneof![
        1 => Just(Vec::new()),
        6 => hist::history(&p),
        // relationship-free graphs, compacted
        2 => (hist::history(&edge_free), any::<bool>()).prop_map(|(ops, twice)| {
            let mut out: Vec<Op> = ops
                .into_iter()
                .map(|op| match op {
                    Op::Tx { ws, commit } => Op::Tx {
                        ws: ws.into_iter().filter(|w| !matches!(w, W::CreateEdge { .. })).collect(),
                        commit,
                    },
                    o => o,
                })
                .collect();
            out.push(Op::Compact);
            if twice {
                out.push(Op::Compact);
            }
            out
        }),
    ]
    .boxed()
}

fn depth_strategy() -> BoxedStrategy<u32> {
    prop_oneof![
        2 => 1u32..64,
        5 => 64u32..1_500,
        3 => 1_500u32..12_000,
        2 => 12_000u32..=100_000,
    ]
    .boxed()
}

/// Flat ("wide") shapes are not nesting: their cost grows quadratically in places, which on
/// a loaded machine is slowness, not a hang, so they stay below 20 000 repetitions. The
/// OPTIONAL MATCH chain is capped while its finding is open (exclusion by construction).
fn cap_depth(shape: &str, depth: u32, restrict: gram::Restrict) -> u32 {
    if shape == "optional-match-chain" && restrict.optional_chain {
        return depth % (gram::MAX_OPTIONAL + 6);
    }
    if shape.ends_with("-wide") || shape == "list-wide" || shape == "string-concat-long" {
        return depth.min(20_000);
    }
    // keep the text below ~1 MB: lexing alone costs seconds of CPU per MB on a loaded
    // machine, which is slowness, not a hang
    let unit = gram::deep_text(shape, 2, "return", "1").len().saturating_sub(gram::deep_text(shape, 1, "return", "1").len()).max(1);
    depth.min((1_000_000 / unit) as u32)
}

const ATOMS: &[&str] = &["1", "null", "true", "'a'", "n", "$p0", "1.5", "[]", "n.p", "x"];

fn src_strategy(corpus: Arc<Vec<String>>, names: Vec<String>, restrict: gram::Restrict) -> BoxedStrategy<Src> {
    let c1 = corpus.clone();
    let c2 = corpus.clone();
    let n1 = names.clone();
    prop_oneof![
        30 => prop::collection::vec(any::<u8>(), 0..600).prop_map(move |tape| {
            let g = gram::generate(&tape, &n1, restrict);
            Src::Text { origin: "grammar".into(), text: g.text, excl: g.excluded_loops }
        }),
        20 => (any::<u16>(), any::<u16>(), prop::collection::vec((any::<u8>(), any::<u16>(), any::<u16>()), 1..4)).prop_map(move |(i, j, ops)| {
            let base = &c1[engine::idx(i, c1.len())];
            let other = &c1[engine::idx(j, c1.len())];
            Src::Text { origin: "mutation".into(), text: gram::mutate(base, other, &ops), excl: 0 }
        }),
        4 => any::<u16>().prop_map(move |i| Src::Text { origin: "corpus".into(), text: c2[engine::idx(i, c2.len())].clone(), excl: 0 }),
        6 => prop::collection::vec(any::<u8>(), 0..200).prop_map(|b| Src::Bytes { hex: hex(&b) }),
        3 => "\\PC{0,80}".prop_map(|text| Src::Text { origin: "printable".into(), text, excl: 0 }),
        3 => "[ -~]{0,120}".prop_map(|text| Src::Text { origin: "printable".into(), text, excl: 0 }),
        2 => "(RETURN|MATCH \\(n\\) RETURN|UNWIND) [ -~\u{e9}\u{4e2d}\u{1F600}]{0,60}".prop_map(|text| Src::Text { origin: "printable".into(), text, excl: 0 }),
        24 => (0..gram::DEEP_SHAPES.len(), depth_strategy(), 0..gram::DEEP_CONTEXTS.len() * 2, 0..ATOMS.len()).prop_map(move |(s, depth, c, a)| {
            let shape = gram::DEEP_SHAPES[s];
            Src::Deep {
                shape: shape.to_string(),
                depth: cap_depth(shape, depth, restrict),
                // half of the deep cases use the plain RETURN context
                ctx: gram::DEEP_CONTEXTS.get(c).copied().unwrap_or("return").to_string(),
                atom: ATOMS[a].to_string(),
            }
        }),
    ]
    .boxed()
}

pub fn case_strategy(corpus: Arc<Vec<String>>, restrict: gram::Restrict) -> BoxedStrategy<Case> {
    (params_strategy(restrict), graph_strategy())
        .prop_flat_map(move |(params, graph)| {
            let names: Vec<String> = params.iter().map(|(k, _)| k.clone()).collect();
            src_strategy(corpus.clone(), names, restrict).prop_map(move |src| Case { src, params: params.clone(), graph: graph.clone() })
        })
        .boxed()
}

fn deep_case(shape: &str, depth: u32, ctx: &str) -> Case {
    Case {
        src: Src::Deep { shape: shape.into(), depth, ctx: ctx.into(), atom: "1".into() },
        params: vec![],
        graph: vec![],
    }
}

fn text_case(text: &str) -> Case {
    Case { src: Src::Text { origin: "fixed".into(), text: text.into(), excl: 0 }, params: vec![], graph: small_graph() }
}

/// Two labelled nodes with properties and one relationship, then a compaction.
fn small_graph() -> Vec<Op> {
    vec![
        Op::Tx {
            ws: vec![
                W::CreateNode { labels: vec![0] },
                W::CreateNode { labels: vec![1] },
                W::CreateEdge { s: 0, t: 0, d: 65535 },
                W::SetNodeProp { n: 0, k: 0, v: PV::Int(1) },
                W::SetNodeProp { n: 65535, k: 2, v: PV::Str("\u{e9}\u{1F600}".into()) },
            ],
            commit: true,
        },
        Op::Compact,
    ]
}

/// Hand-written boundary inputs (classic panic sites): run before the generated cases.
const FIXED_TEXTS: &[&str] = &[
    "RETURN abs(-9223372036854775808)",
    "RETURN -9223372036854775808 / -1",
    "RETURN -9223372036854775808 % -1",
    "RETURN 1 % 0, 1 / 0, 1.0 / 0, 0.0 / 0.0, 1 % 0.0",
    "RETURN 9223372036854775807 + 1, -9223372036854775807 - 2, 9223372036854775807 * 2, - (-9223372036854775808)",
    "RETURN 2 ^ 63, 2 ^ 1024, (-8) ^ 0.5, 0 ^ -1, 9223372036854775807 ^ 9223372036854775807",
    "RETURN range(0, 10, 0)",
    "RETURN range(1, 9223372036854775807, 9223372036854775807)",
    "RETURN range(-9223372036854775808, 9223372036854775807, 9223372036854775807)",
    "RETURN range(9223372036854775807, -9223372036854775808, -9223372036854775808)",
    "RETURN range(0, 9223372036854775807)",
    "RETURN range(9223372036854775800, 9223372036854775807, 3)",
    "RETURN substring('abc', 1, -1), substring('abc', -1), substring('abc', 9223372036854775807, 9223372036854775807)",
    "RETURN substring('h\u{e9}llo', 1, 2), left('\u{e9}\u{1F600}', 1), right('\u{e9}\u{1F600}', 1), left('abc', -1), right('abc', 9223372036854775807)",
    "RETURN split('a\u{e9}b', ''), split('', ''), replace('abc', '', 'x'), reverse('a\u{301}\u{1F468}\u{200D}\u{1F469}')",
    "RETURN toUpper('\u{DF}\u{149}'), toLower('\u{130}'), trim('\u{3000}a\u{3000}'), size('\u{1F600}')",
    "RETURN [1,2,3][-9223372036854775808], [1,2,3][9223372036854775807], [1,2,3][..-9223372036854775808], [1,2,3][-9223372036854775808..], [1,2,3][2..1]",
    "RETURN 'abc'[1], {a: 1}['a'], {a: 1}[1], [1][null], null[0], [1,2,3][1.5]",
    "RETURN toInteger(1e30), toInteger(-1e30), toInteger('9223372036854775808'), toInteger(0.0/0.0), toFloat('1e999'), toInteger('')",
    "RETURN round(1e308), ceil(-0.0), floor(1e308), sign(-9223372036854775808), sqrt(-1), log(0), log(-1)",
    "RETURN datetime.fromepoch(9223372036854775807, 9223372036854775807), datetime.fromepochmillis(9223372036854775807), datetime.fromepochmillis(-9223372036854775808)",
    "RETURN duration({months: 9223372036854775807}), duration({days: 9223372036854775807, hours: 9223372036854775807}), duration({seconds: -9223372036854775808, nanoseconds: -9223372036854775808})",
    "RETURN date({year: 9223372036854775807}), date({year: 2020, month: 13}), date({year: 2020, month: 2, day: 30}), date({year: -9223372036854775808, week: 54, dayOfWeek: 8})",
    "RETURN date('2015-07-21') + duration({days: 9223372036854775807}), date('2015-07-21') - duration({months: 2147483648}), datetime('9999-12-31T23:59:59Z') + duration({years: 999999999})",
    "RETURN duration('P9223372036854775807D'), duration('PT9223372036854775807S') + duration('PT9223372036854775807S'), duration('P1Y') * 9223372036854775807, duration('P1Y') / 0, duration('P1Y') / 0.0",
    "RETURN localtime({hour: 25}), time({hour: 12, timezone: '+99:00'}), datetime({year: 2020, timezone: 'Nowhere/None'}), datetime({epochSeconds: 9223372036854775807}), localdatetime({year: 2020, ordinalDay: 367})",
    "RETURN date.truncate('millennium', date({year: -999999999})), datetime.truncate('week', datetime({year: 1, month: 1, day: 1})), date.truncate('nope', date()), time.truncate('day', time())",
    "RETURN duration.between(date({year: -999999999}), date({year: 999999999})), duration.inSeconds(datetime({year: -999999}), datetime({year: 999999})), duration.inMonths(date('0000-01-01'), date('9999-12-31'))",
    "RETURN date('+999999999-12-31'), date('-999999999-01-01'), datetime('2015-07-21T21:40:32.142[Europe/London]'), datetime('2015-W53-7T24:00'), time('25:61:61'), date('2015-02-30')",
    "RETURN (date('2015-07-21')).week, (datetime()).epochMillis, (duration('P1Y')).nanosecondsOfSecond, (localtime('12:00')).timezone, ('x').year",
    "UNWIND [0.0/0.0, 1, 'a', null, [1], {a: 1}, 0.0/0.0, 2.5, true, 1.0/0, -1.0/0, 0.0/0.0, 3, 'b', [null], [0.0/0.0], {}, false, -0.0, 0, 0.0/0.0, 'c', 7, 0.0/0.0, [2], 9, 0.0/0.0, 1e308, -1e308, 0.0/0.0, 5, 6, 0.0/0.0] AS x RETURN x ORDER BY x",
    "UNWIND [0.0/0.0, 1, 'a', null, [1], {a: 1}, 0.0/0.0, 2.5, true, 1.0/0, -1.0/0, 0.0/0.0, 3, 'b', [null], [0.0/0.0], {}, false, -0.0, 0, 0.0/0.0, 'c', 7, 0.0/0.0, [2], 9, 0.0/0.0, 1e308, -1e308, 0.0/0.0, 5, 6, 0.0/0.0] AS x RETURN DISTINCT x ORDER BY x DESC SKIP 1 LIMIT 30",
    "UNWIND [date('2015-07-21'), 1, duration('P1D'), '2015-07-21', time('12:00'), null, 0.0/0.0, datetime(), localtime(), [date()], 'P1D', 2, duration('P1M'), duration('P30D'), 3, date('2015-07-22'), 4, 5, 6, 7, 8, 9, 10, 11] AS x RETURN x ORDER BY x",
    "UNWIND [1, 2, 0.0/0.0, 'a'] AS x RETURN min(x), max(x), sum(x), avg(x), collect(x), percentileDisc(x, 0.5), percentileCont(x, 0.5), count(DISTINCT x)",
    "UNWIND [1, 2, 3] AS x RETURN percentileDisc(x, 2), percentileCont(x, -1), percentileDisc(x, null), percentileCont(x, 0.0/0.0)",
    "UNWIND [9223372036854775807, 9223372036854775807] AS x RETURN sum(x), avg(x)",
    "UNWIND range(1, 3) AS x RETURN x SKIP -1 LIMIT -1",
    "MATCH (n) RETURN n SKIP 9223372036854775807 LIMIT 9223372036854775807",
    "MATCH (n) RETURN n LIMIT 1.5",
    "MATCH (n) RETURN n ORDER BY n.p, n, labels(n), id(n) DESC",
    "MATCH (a)-[r*0..]->(b) RETURN a, r, b LIMIT 5",
    "MATCH (a)-[r*3..1]-(b) RETURN a, r, b LIMIT 5",
    "MATCH (a)-[*1..4294967295]->(b) RETURN count(*)",
    "MATCH p = shortestPath((a)-[*]-(b)) RETURN p, length(p), nodes(p), relationships(p) LIMIT 5",
    "MATCH p = allShortestPaths((a)-[*0..]-(a)) RETURN p LIMIT 5",
    "MATCH (a), (b), (c), (d), (e), (f) RETURN count(*)",
    "MATCH (a)<-[r]-(b) RETURN startNode(r), endNode(r), type(r), id(r), properties(r), keys(r), labels(b)",
    "MATCH (n) WHERE n:A:B OR (n)-->() OR EXISTS { (n)<--() } RETURN [(n)-[r]-(m) | [r, m]] AS l, n {.*, .p}",
    "MATCH (n) WITH collect(n) AS ns UNWIND ns AS m FOREACH (x IN ns | SET x.k4 = size(ns)) RETURN m",
    "MATCH (n) DETACH DELETE n RETURN n, n.p, labels(n), id(n)",
    "MATCH (a)-[r]->(b) DELETE r, a, b RETURN a, r, b",
    "MATCH (n) SET n = {p: null, q: [1, 'a', null], name: {a: 1}} RETURN n",
    "MATCH (n) SET n += n, n:A:B:C REMOVE n.p, n:A RETURN n",
    "MATCH (a)-[r]->(b) SET r = a, r += b, r.p = [a, b] RETURN r",
    "CREATE (a:A {p: 0.0/0.0, q: [1.0/0, -1.0/0], name: ''})-[:R {p: 9223372036854775807}]->(a) RETURN a",
    "CREATE (a)-[:R]->(b), (b)-[:R]->(a), (a)-[:R]->(a) WITH a MATCH (a)-[*]->(x) RETURN count(x)",
    "CREATE (n {p: [1, 'a']}) RETURN n",
    "CREATE (n {p: [[1], [2]], q: {a: 1}, name: date(), k4: duration('P1D'), k5: [date()]}) RETURN n",
    "MERGE (a:A {p: 1})-[r:R]->(b:B {p: null}) ON CREATE SET a.q = 1 ON MATCH SET a.q = 2 RETURN a, r, b",
    "MERGE (n:A {p: 0.0/0.0}) MERGE (m:A {p: 0.0/0.0}) RETURN n, m",
    "UNWIND [1, 1, null] AS x MERGE (n:A {p: x}) RETURN n",
    "UNWIND range(1, 20000) AS x CREATE (:A {p: x})",
    "UNWIND range(1, 100000) AS x UNWIND range(1, 100000) AS y RETURN count(*)",
    "UNWIND range(1, 100000) AS x UNWIND range(1, 100000) AS y WITH x, y WHERE x + y < 0 RETURN x",
    "UNWIND range(1, 10000) AS x WITH collect(x) AS l UNWIND l AS a UNWIND l AS b RETURN DISTINCT a + b ORDER BY a + b DESC LIMIT 3",
    "MATCH (a)-[*]-(b) MATCH (b)-[*]-(c) MATCH (c)-[*]-(d) RETURN count(*)",
    "CALL { RETURN 1 AS x UNION RETURN 2 AS x } RETURN x ORDER BY x",
    "CALL { CREATE (n:A) RETURN n } RETURN n",
    "MATCH (n) CALL { WITH n MATCH (n)-->(m) RETURN m } RETURN n, m",
    "CALL db.info() YIELD version RETURN version",
    "CALL math.add(9223372036854775807, 1) YIELD result RETURN result",
    "CALL math.add(1, 'a')",
    "CALL test.my.proc('a', 1) YIELD out RETURN out",
    "CALL no.such.proc()",
    "EXPLAIN MATCH (a)-[r:R|S*1..2]->(b) WHERE a.p IN [1, 2] RETURN a, count(r) ORDER BY a.p SKIP 1 LIMIT 2",
    "EXPLAIN",
    "EXPLAIN EXPLAIN RETURN 1",
    "RETURN $missing, $p0, $0, $",
    "RETURN 1 AS a, 2 AS a",
    "RETURN *",
    "WITH 1 AS x RETURN *, x, *",
    "RETURN count(count(*)), sum(collect(1)), collect(DISTINCT null)",
    "MATCH (n) RETURN count(*) + n.p, n.p + count(*) ORDER BY count(*)",
    "RETURN 'a' STARTS WITH null, null IN [null], [1, null] = [1, null], {a: null} = {a: null}, null = null, [] < [1], [1, 'a'] < [1, 2], 1 < 'a' < 2",
    "RETURN [1, 2] + [3], [1] + 2, 1 + [2], 'a' + 1, 1 + 'a', 1.5 + 'a', [] + null, {a: 1} + {b: 2}, date() + 1, 'a' * 2",
    "RETURN 0x7FFFFFFFFFFFFFFF, -0x8000000000000000, 0o777777777777777777777, 1e308 * 10, -1e308 * 10, 9223372036854775808",
    "RETURN '\\uD800', '\\u00', '\\', 'unterminated",
    "RETURN `unterminated",
    "RETURN /* unterminated",
    "RETURN 1 // trailing comment",
    "RETURN 1;;; ; RETURN 2",
    ";",
    "",
    "\u{feff}RETURN 1",
    "RETURN\u{a0}1\u{2003}AS\u{3000}x",
    "RETURN 1 AS `a``b`, 2 AS ``, 3 AS `\u{0}`, 4 AS `\u{1F600}`",
    "MATCH (`n`:`A B`:`` {`p q`: 1})-[`r`:`R-S`|`` *0]-() RETURN `n`",
    "MATCH (n:0:1 {p: 1})-[:0|:1]->(m) RETURN n",
    "MATCH (n)-[:18446744073709551616]->(m) RETURN n",
    "MATCH (n:18446744073709551615) RETURN n",
    "MATCH (\u{e9}\u{1F600}:\u{4e2d}\u{6587} {\u{43a}\u{43b}: '\u{202E}'}) RETURN \u{e9}\u{1F600}.\u{43a}\u{43b}",
    "MATCH (n) WHERE n.p =~ '.*' RETURN n",
    "MATCH (n) RETURN n.p.q.r, n['p'], n[n.name], (n).p, n.`p`",
    "FOREACH (x IN null | CREATE (:A))",
    "FOREACH (x IN 1 | CREATE (:A))",
    "FOREACH (x IN [1, 2] | FOREACH (y IN [x] | MERGE (:A {p: y}) SET x = 1))",
    "UNWIND null AS x RETURN x",
    "UNWIND 1 AS x RETURN x",
    "UNWIND [[1, [2, [3]]], {a: [1]}] AS x UNWIND x AS y RETURN y",
    "MATCH (n) UNWIND labels(n) AS l UNWIND keys(n) AS k RETURN l, k, n[k], properties(n)[k]",
    "OPTIONAL MATCH (n:NoSuch)-[r]->(m) RETURN n, r, m, n.p, type(r), labels(m), id(n), startNode(r), properties(n), keys(r), [(n)-->(x) | x], size((n)-->()), exists((n)-->()), n:A",
    "OPTIONAL MATCH (n:NoSuch) DETACH DELETE n SET n.p = 1 REMOVE n.q, n:A CREATE (n)-[:R]->(:B)",
    "OPTIONAL MATCH (n:NoSuch) MERGE (n)-[:R]->(m) RETURN m",
    "OPTIONAL MATCH (n:NoSuch) WITH n MATCH (n)-->(m) RETURN m",
    "MATCH (n) WITH n ORDER BY n.p LIMIT 0 RETURN count(n), collect(n), min(n.p), avg(n.p), percentileDisc(n.p, 0.5)",
    "MATCH (n) RETURN n.p AS k, count(*) ORDER BY k SKIP 0 LIMIT 0",
    "RETURN CASE WHEN null THEN 1 END, CASE null WHEN null THEN 1 ELSE 2 END, CASE 1 WHEN 1.0 THEN 'a' END, CASE END",
    "RETURN any(x IN null WHERE x), all(x IN [] WHERE x), none(x IN [null] WHERE x), single(x IN [1, 1] WHERE x = 1), any(x IN 1 WHERE x)",
    "RETURN [x IN null | x], [x IN 1 | x], [x IN [1, 2] WHERE null | x], reduce(a = null, x IN null | a), head([]), last([]), tail([]), head(null), size(null), keys(null), length(null), reverse(null)",
    "RETURN coalesce(), abs(), abs(1, 2), range(), range(1), substring('a'), left('a'), replace('a', 'b'), split('a'), toString(), size(1, 2), date(1, 2), duration(), duration(1), datetime.fromepoch(1)",
    "RETURN toString(date()), toString([1]), toString({a: 1}), toString(null), toBoolean('TRUE'), toBoolean(1), toBoolean('x'), toFloat(true), toInteger([1]), toString(1e308), toString(-0.0), toString(0.0/0.0)",
    "RETURN exists(null), exists(1), exists(n.p)",
    "RETURN shortestPath((a)-[*]-(b))",
    "MATCH p = (a)-[r]->(b) RETURN p, nodes(p)[-1], relationships(p)[5], length(p), p = p, [p], {p: p}, p + p, p[0], size(p), toString(p), p.x, p:A",
    "MATCH (a)-[r]->(b) RETURN a = b, a < b, r = r, r < r, [a] = [a], {n: a} = {n: a}, a IN [a, b], r IN [r], a + 1, r + r, -a, NOT r, a AND b, a.p + r.p + b.name",
    "MATCH (a) MATCH (a) MATCH (a:B) MATCH (a)-[a]->(a) RETURN a",
    "MATCH (a)-[r]->(b) WITH r AS a, a AS r RETURN a, r, type(a), labels(r)",
    "MATCH (a)-[r]->(b) WITH [r, r] AS rs MATCH (x)-[rs*]->(y) RETURN x, y",
    "MATCH (a)-[r]->(b) WITH a, r MATCH (a)-[r]-(c) RETURN c",
    "MATCH (a)-[r]->(b) MATCH (c)-[r]->(d) WHERE c <> a RETURN c",
    "MATCH (a) WITH a MATCH (a)-[*0..0]->(b) RETURN b",
    "RETURN 1 UNION RETURN 1 UNION ALL RETURN 1",
    "RETURN 1 AS a UNION RETURN 1 AS b",
    "RETURN 1 AS a UNION RETURN 'x' AS a UNION RETURN null AS a UNION RETURN [1] AS a UNION RETURN 0.0/0.0 AS a UNION RETURN 0.0/0.0 AS a",
    "MATCH (n) RETURN n UNION MATCH (n) RETURN n",
    "CREATE (n) RETURN n UNION CREATE (n) RETURN n",
];

/// Expression-level loops that run (practically) forever or double their accumulator:
/// only run while the finding `runaway:expression-loops` is not recorded as open.
const LOOP_TEXTS: &[&str] = &[
    "RETURN reduce(s = 'ab', x IN range(1, 40) | s + s)",
    "RETURN size(reduce(s = [1], x IN range(1, 40) | s + s))",
    "RETURN reduce(a = 0, x IN range(1, 10000) | a + reduce(b = 0, y IN range(1, 10000) | b + reduce(c = 0, z IN range(1, 10000) | c + z)))",
    "RETURN [x IN range(1, 10000) | [y IN range(1, 10000) | [z IN range(1, 10000) | x * y * z]]]",
    "RETURN all(x IN range(1, 10000) WHERE all(y IN range(1, 10000) WHERE all(z IN range(1, 10000) WHERE x + y + z > 0)))",
    "UNWIND range(1, 10000) AS x WITH collect(x) AS l RETURN [a IN l WHERE a IN l] AS r",
    "WITH range(1, 10000) AS l RETURN size([a IN l WHERE any(b IN l WHERE b = -a)])",
];

// --------------------------------------------------------------- worker protocol

#[derive(Debug, Clone, Serialize, Deserialize)]
struct WCase {
    n: u64,
    text: String,
    params: Vec<(String, PV)>,
    graph: Vec<Op>,
}

#[derive(Debug, Clone, Serialize, Deserialize, Default)]
struct WOut {
    prepared: bool,
    prepare_err: Option<String>,
    rows: u64,
    exec_err: Option<String>,
    limit_err: bool,
    wrote: Option<u32>,
    write_err: Option<String>,
    /// first panic: (location, message, phase)
    panic: Option<(String, String, String)>,
    /// all distinct panic locations of the case
    panic_locs: Vec<String>,
    /// longest prepare+execute unit and its phase
    max_ms: u64,
    slow_phase: String,
    graph_err: Option<String>,
}

/// CPU time consumed by the calling thread (ms). The timeout oracle uses CPU time, not
/// wall time: the machine is shared and a descheduled worker is not a slow database.
fn thread_cpu_ms() -> u64 {
    let mut ts = libc::timespec { tv_sec: 0, tv_nsec: 0 };
    // SAFETY: plain syscall writing into a local timespec
    let rc = unsafe { libc::clock_gettime(libc::CLOCK_THREAD_CPUTIME_ID, &mut ts) };
    if rc != 0 {
        return 0;
    }
    ts.tv_sec as u64 * 1000 + ts.tv_nsec as u64 / 1_000_000
}

struct CpuTimer(u64);

impl CpuTimer {
    fn start() -> Self {
        CpuTimer(thread_cpu_ms())
    }
    fn ms(&self) -> u64 {
        thread_cpu_ms().saturating_sub(self.0)
    }
}

/// CPU time (user + system, ms) of another process, from /proc.
fn proc_cpu_ms(pid: u32) -> Option<u64> {
    let stat = std::fs::read_to_string(format!("/proc/{pid}/stat")).ok()?;
    let rest = stat.rsplit_once(") ")?.1;
    let f: Vec<&str> = rest.split_ascii_whitespace().collect();
    let utime: u64 = f.get(11)?.parse().ok()?;
    let stime: u64 = f.get(12)?.parse().ok()?;
    // SAFETY: sysconf has no preconditions
    let hz = unsafe { libc::sysconf(libc::_SC_CLK_TCK) }.max(1) as u64;
    Some((utime + stime) * 1000 / hz)
}

fn phase(n: u64, name: &str) {
    println!("PHASE {n} {name}");
}

struct RunOut {
    prepared: bool,
    prepare_err: Option<String>,
    rows: u64,
    exec_err: Option<String>,
    limit_err: bool,
    wrote: Option<u32>,
    write_err: Option<String>,
    units: Vec<(String, u64)>,
}

fn is_limit(e: &nervusdb::query::Error) -> bool {
    matches!(e, nervusdb::query::Error::ResourceLimitExceeded { .. })
}

/// What a caller does with one query: prepare; stream rows (reified) on a snapshot; run
/// it as a statement in a write transaction and commit; read the graph back.
fn run_once(db: &nervusdb::Db, wc: &WCase, mode: &str) -> RunOut {
    let n = wc.n;
    let mut out = RunOut {
        prepared: false,
        prepare_err: None,
        rows: 0,
        exec_err: None,
        limit_err: false,
        wrote: None,
        write_err: None,
        units: Vec::new(),
    };
    phase(n, &format!("{mode}:prepare"));
    let t0 = CpuTimer::start();
    let prepared = match prepare(&wc.text) {
        Ok(p) => p,
        Err(e) => {
            out.prepare_err = Some(e.to_string());
            out.units.push((format!("{mode}:prepare"), t0.ms()));
            return out;
        }
    };
    out.prepared = true;
    phase(n, &format!("{mode}:stream"));
    {
        let snap = db.snapshot();
        let params = cy::params_from(&wc.params, Some(exec_options()));
        for row in prepared.execute_streaming(&snap, &params).take(TAKE_ROWS) {
            match row {
                Ok(row) => {
                    out.rows += 1;
                    if let Err(e) = row.reify(&snap) {
                        out.exec_err = Some(format!("reify: {e}"));
                        break;
                    }
                }
                Err(e) => {
                    out.limit_err = is_limit(&e);
                    out.exec_err = Some(e.to_string());
                    break;
                }
            }
        }
    }
    out.units.push((format!("{mode}:prepare+stream"), t0.ms()));
    phase(n, &format!("{mode}:mixed"));
    let t1 = CpuTimer::start();
    let committed;
    {
        let mut txn = db.begin_write();
        let snap = db.snapshot();
        let params = cy::params_from(&wc.params, Some(exec_options()));
        match prepared.execute_mixed(&snap, &mut txn, &params) {
            Ok((_rows, cnt)) => {
                out.units.push((format!("{mode}:mixed"), t1.ms()));
                phase(n, &format!("{mode}:commit"));
                match txn.commit() {
                    Ok(()) => {
                        out.wrote = Some(cnt);
                        committed = cnt > 0;
                    }
                    Err(e) => {
                        out.write_err = Some(format!("commit: {e}"));
                        committed = false;
                    }
                }
            }
            Err(e) => {
                out.units.push((format!("{mode}:mixed"), t1.ms()));
                out.limit_err |= is_limit(&e);
                out.write_err = Some(e.to_string());
                committed = false;
            }
        }
    }
    if committed {
        phase(n, &format!("{mode}:readback"));
        for q in ["MATCH (n) RETURN n, labels(n), properties(n) LIMIT 200", "MATCH (a)-[r]->(b) RETURN a, r, b, type(r) LIMIT 200", "MATCH (a)<-[r]-(b) RETURN count(r)"] {
            if let Ok(p) = prepare(q) {
                let snap = db.snapshot();
                let params = cy::params_from(&[], Some(exec_options()));
                for row in p.execute_streaming(&snap, &params).take(TAKE_ROWS) {
                    match row {
                        Ok(row) => {
                            let _ = row.reify(&snap);
                        }
                        Err(_) => break,
                    }
                }
            }
        }
    }
    phase(n, &format!("{mode}:drop"));
    drop(prepared);
    out
}

fn build_graph(dir: &Path, ops: &[Op]) -> Result<Runner, String> {
    let mut r = Runner::new(dir.join("db"), Excl::default()).map_err(|f| f.message)?;
    let mut obs = Obs::default();
    let mut first_err = None;
    for op in ops {
        if let Err(f) = r.apply(op, false, false, &mut obs) {
            first_err.get_or_insert(f.signature);
            if r.db.is_none() {
                return Err("database lost while building the graph".into());
            }
        }
    }
    if let Some(e) = first_err {
        // keep going with whatever graph exists: the defect belongs to a storage property
        r.log.push(format!("graph-build-error: {e}"));
    }
    Ok(r)
}

fn worker_case(wc: &WCase, scratch: &Path) -> WOut {
    let mut out = WOut::default();
    for mode in ["main", "thread"] {
        phase(wc.n, &format!("{mode}:build"));
        let dir = scratch.join(format!("w{}-{}-{mode}", std::process::id(), wc.n));
        let _ = std::fs::remove_dir_all(&dir);
        let _ = std::fs::create_dir_all(&dir);
        let runner = match engine::catch(|| build_graph(&dir, &wc.graph)) {
            Ok(Ok(r)) => r,
            Ok(Err(e)) => {
                out.graph_err = Some(e);
                let _ = std::fs::remove_dir_all(&dir);
                continue;
            }
            Err((loc, msg)) => {
                out.graph_err = Some(format!("panic at {loc}: {msg}"));
                let _ = std::fs::remove_dir_all(&dir);
                continue;
            }
        };
        if let Some(l) = runner.log.iter().find(|l| l.starts_with("graph-build-error")) {
            out.graph_err = Some(l.clone());
        }
        let db = runner.db();
        let last_phase = Arc::new(Mutex::new(String::new()));
        let r = if mode == "main" {
            engine::catch(|| run_once(db, wc, mode))
        } else {
            std::thread::scope(|s| {
                std::thread::Builder::new()
                    .stack_size(SMALL_STACK)
                    .spawn_scoped(s, || engine::catch(|| run_once(db, wc, mode)))
                    .expect("spawn small-stack thread")
                    .join()
                    .unwrap_or_else(|_| Err(("?".into(), "thread died".into())))
            })
        };
        let _ = last_phase;
        match r {
            Ok(ro) => {
                out.prepared |= ro.prepared;
                if out.prepare_err.is_none() {
                    out.prepare_err = ro.prepare_err;
                }
                out.rows = out.rows.max(ro.rows);
                if out.exec_err.is_none() {
                    out.exec_err = ro.exec_err;
                }
                out.limit_err |= ro.limit_err;
                if out.wrote.is_none() {
                    out.wrote = ro.wrote;
                }
                if out.write_err.is_none() {
                    out.write_err = ro.write_err;
                }
                for (name, ms) in ro.units {
                    if ms >= out.max_ms {
                        out.max_ms = ms;
                        out.slow_phase = name;
                    }
                }
            }
            Err((loc, msg)) => {
                if !out.panic_locs.contains(&loc) {
                    out.panic_locs.push(loc.clone());
                }
                if out.panic.is_none() {
                    out.panic = Some((loc, msg, mode.to_string()));
                }
            }
        }
        drop(runner);
        let _ = std::fs::remove_dir_all(&dir);
    }
    out
}

/// `check --worker c16-deep <scratch-dir> <shape> <ctx> <depth>`: one deep case in this
/// process (development aid for choosing / validating nesting limits).
pub fn worker_deep(args: &[String]) -> i32 {
    if args.len() < 4 {
        eprintln!("usage: check --worker c16-deep <scratch-dir> <shape> <ctx> <depth>");
        return 2;
    }
    engine::install_panic_hook();
    let scratch = PathBuf::from(&args[0]);
    let _ = std::fs::create_dir_all(&scratch);
    let depth: usize = args[3].parse().unwrap_or(1);
    let wc = WCase { n: 1, text: gram::deep_text(&args[1], depth, &args[2], "1"), params: vec![], graph: small_graph() };
    let out = worker_case(&wc, &scratch);
    println!("END 1 {}", serde_json::to_string(&out).unwrap_or_default());
    0
}

/// Worker entry: `c16` (case stream on stdin) or `c16-deep` (one deep case, development aid).
pub fn worker_main(kind: &str, args: &[String]) -> i32 {
    match kind {
        "c16-deep" => worker_deep(args),
        _ => worker(args),
    }
}

/// `check --worker c16 <scratch-dir>`: reads cases from stdin until EOF.
pub fn worker(args: &[String]) -> i32 {
    let Some(scratch) = args.first().map(PathBuf::from) else {
        eprintln!("usage: check --worker c16 <scratch-dir>");
        return 2;
    };
    let _ = std::fs::create_dir_all(&scratch);
    engine::install_panic_hook();
    let stdin = std::io::stdin();
    let mut line = String::new();
    loop {
        line.clear();
        match stdin.lock().read_line(&mut line) {
            Ok(0) | Err(_) => return 0,
            Ok(_) => {}
        }
        let wc: WCase = match serde_json::from_str(line.trim_end()) {
            Ok(w) => w,
            Err(e) => {
                println!("BADCASE {e}");
                continue;
            }
        };
        println!("BEGIN {}", wc.n);
        let out = worker_case(&wc, &scratch);
        println!("END {} {}", wc.n, serde_json::to_string(&out).unwrap_or_else(|_| "{}".into()));
    }
}

// ------------------------------------------------------------------ parent side

struct WorkerProc {
    child: Child,
    stdin: ChildStdin,
    rx: Receiver<String>,
    stderr_tail: Arc<Mutex<VecDeque<String>>>,
    stderr_done: Arc<AtomicBool>,
}

impl Drop for WorkerProc {
    fn drop(&mut self) {
        let _ = self.child.kill();
        let _ = self.child.wait();
    }
}

static NEXT_CASE: AtomicU64 = AtomicU64::new(1);
static WORKER_STARTS: AtomicU64 = AtomicU64::new(0);

thread_local! {
    static WORKER: RefCell<Option<WorkerProc>> = const { RefCell::new(None) };
}

fn spawn_worker(scratch: &Path) -> std::io::Result<WorkerProc> {
    let exe = std::env::current_exe()?;
    let mut child = Command::new("sh")
        .arg("-c")
        .arg(format!("ulimit -v {WORKER_VMEM_KIB}; exec \"$0\" \"$@\""))
        .arg(&exe)
        .arg("--worker")
        .arg("c16")
        .arg(scratch)
        .stdin(Stdio::piped())
        .stdout(Stdio::piped())
        .stderr(Stdio::piped())
        .spawn()?;
    WORKER_STARTS.fetch_add(1, Ordering::Relaxed);
    let stdin = child.stdin.take().expect("stdin");
    let stdout = child.stdout.take().expect("stdout");
    let stderr = child.stderr.take().expect("stderr");
    let (tx, rx) = channel();
    std::thread::spawn(move || {
        for line in BufReader::new(stdout).lines() {
            let Ok(line) = line else { break };
            if tx.send(line).is_err() {
                break;
            }
        }
    });
    let stderr_tail = Arc::new(Mutex::new(VecDeque::new()));
    let stderr_done = Arc::new(AtomicBool::new(false));
    let (tail, done) = (stderr_tail.clone(), stderr_done.clone());
    std::thread::spawn(move || {
        let mut r = BufReader::new(stderr);
        let mut buf = Vec::new();
        loop {
            buf.clear();
            match r.read_until(b'\n', &mut buf) {
                Ok(0) | Err(_) => break,
                Ok(_) => {
                    let mut s = String::from_utf8_lossy(&buf).trim_end().to_string();
                    if s.len() > 300 {
                        let mut e = 300;
                        while !s.is_char_boundary(e) {
                            e -= 1;
                        }
                        s.truncate(e);
                    }
                    // keep the first lines (the reason of an abort) and the most recent ones
                    let mut t = tail.lock().unwrap();
                    t.push_back(s);
                    while t.len() > 16 {
                        t.remove(6);
                    }
                }
            }
        }
        done.store(true, Ordering::SeqCst);
    });
    Ok(WorkerProc { child, stdin, rx, stderr_tail, stderr_done })
}

enum Verdict {
    Done(WOut),
    Died { signal: Option<i32>, code: Option<i32>, phase: String, stderr: String },
    Silent { phase: String, ms: u64 },
    /// the harness could not talk to a worker at all (spawn failure, ...)
    Broken(String),
}

fn signal_name(s: i32) -> String {
    match s {
        libc::SIGABRT => "SIGABRT".into(),
        libc::SIGSEGV => "SIGSEGV".into(),
        libc::SIGBUS => "SIGBUS".into(),
        libc::SIGKILL => "SIGKILL".into(),
        libc::SIGILL => "SIGILL".into(),
        libc::SIGFPE => "SIGFPE".into(),
        libc::SIGPIPE => "SIGPIPE".into(),
        libc::SIGTERM => "SIGTERM".into(),
        n => format!("SIG{n}"),
    }
}

/// The oracle's CPU-time bound for one prepare+execute unit: 50x the configured timeout,
/// plus 30 ms per KiB of query text. Lexing and rejecting a megabyte of text is linear but
/// costs seconds of CPU on a loaded machine; a hang or an exponential blow-up exceeds any
/// such bound.
fn bound_ms(text_len: usize) -> u64 {
    OVERRUN_FACTOR * SOFT_TIMEOUT_MS + (text_len as u64 / 1024) * 30
}

fn run_in_worker(scratch: &Path, wc: &WCase) -> Verdict {
    let kill_ms = silence_kill_ms().max(bound_ms(wc.text.len()) + 2_000);
    WORKER.with(|slot| {
        let mut slot = slot.borrow_mut();
        let line = match serde_json::to_string(wc) {
            Ok(l) => l,
            Err(e) => return Verdict::Broken(format!("cannot encode case: {e}")),
        };
        // (re)start and send; a worker that died between two cases is replaced silently
        let mut attempts = 0;
        loop {
            attempts += 1;
            if slot.is_none() {
                match spawn_worker(scratch) {
                    Ok(w) => *slot = Some(w),
                    Err(e) => return Verdict::Broken(format!("cannot start worker: {e}")),
                }
            }
            let w = slot.as_mut().unwrap();
            w.stderr_tail.lock().unwrap().clear();
            let sent = w.stdin.write_all(line.as_bytes()).and_then(|_| w.stdin.write_all(b"\n")).and_then(|_| w.stdin.flush());
            if sent.is_ok() {
                break;
            }
            *slot = None;
            if attempts >= 3 {
                return Verdict::Broken("worker does not accept input".into());
            }
        }
        let w = slot.as_mut().unwrap();
        let mut phase = String::from("not-begun");
        let mut begun = false;
        let mut last = Instant::now();
        let pid = w.child.id();
        let mut cpu_at_last = proc_cpu_ms(pid).unwrap_or(0);
        loop {
            match w.rx.recv_timeout(Duration::from_millis(250)) {
                Ok(l) => {
                    last = Instant::now();
                    cpu_at_last = proc_cpu_ms(pid).unwrap_or(cpu_at_last);
                    if let Some(rest) = l.strip_prefix("PHASE ") {
                        if let Some((n, name)) = rest.split_once(' ') {
                            if n.parse::<u64>().ok() == Some(wc.n) {
                                phase = name.to_string();
                            }
                        }
                    } else if let Some(rest) = l.strip_prefix("BEGIN ") {
                        begun = rest.trim().parse::<u64>().ok() == Some(wc.n);
                        phase = "begun".into();
                    } else if let Some(rest) = l.strip_prefix("END ") {
                        if let Some((n, json)) = rest.split_once(' ') {
                            if n.parse::<u64>().ok() == Some(wc.n) {
                                return match serde_json::from_str::<WOut>(json) {
                                    Ok(o) => Verdict::Done(o),
                                    Err(e) => Verdict::Broken(format!("undecodable END record: {e}")),
                                };
                            }
                        }
                    } else if let Some(rest) = l.strip_prefix("BADCASE ") {
                        return Verdict::Broken(format!("worker could not decode the case: {rest}"));
                    }
                }
                Err(RecvTimeoutError::Timeout) => {
                    // silent: how much CPU did the worker burn since its last line?
                    let burnt = proc_cpu_ms(pid).unwrap_or(cpu_at_last).saturating_sub(cpu_at_last);
                    let wall = last.elapsed().as_millis() as u64;
                    if burnt < kill_ms && wall < WALL_SILENCE_KILL_MS {
                        continue;
                    }
                    let ms = burnt;
                    if burnt < kill_ms {
                        // no CPU consumed for minutes: the machine, not the database
                        *slot = None;
                        return Verdict::Broken(format!("worker made no progress for {wall} ms of wall time while using {burnt} ms of CPU (phase {phase})"));
                    }
                    if std::env::var("NVCHECK_C16_GDB").is_ok() {
                        // development aid: where is the silent worker?
                        let pid = w.child.id();
                        if let Ok(o) = Command::new("gdb").args(["-p", &pid.to_string(), "-batch", "-ex", "thread apply all bt 40"]).output() {
                            eprintln!("GDB case {} phase {phase}:\n{}", wc.n, String::from_utf8_lossy(&o.stdout));
                        }
                        let _ = std::fs::write(format!("/tmp/c16_silent_{}.json", wc.n), &line);
                    }
                    *slot = None; // Drop kills the child
                    return Verdict::Silent { phase, ms };
                }
                Err(RecvTimeoutError::Disconnected) => {
                    // stdout closed: the worker is gone
                    let mut w = slot.take().unwrap();
                    let status = w.child.wait().ok();
                    let t0 = Instant::now();
                    while !w.stderr_done.load(Ordering::SeqCst) && t0.elapsed() < Duration::from_secs(3) {
                        std::thread::sleep(Duration::from_millis(5));
                    }
                    let stderr = w.stderr_tail.lock().unwrap().iter().cloned().collect::<Vec<_>>().join(" | ");
                    if !begun {
                        phase = format!("before-BEGIN({phase})");
                    }
                    return Verdict::Died {
                        signal: status.and_then(|s| s.signal()),
                        code: status.and_then(|s| s.code()),
                        phase,
                        stderr,
                    };
                }
            }
        }
    })
}

/// `NVCHECK_C16_SILENCE_MS` shortens the kill delay while triaging (development aid).
fn silence_kill_ms() -> u64 {
    std::env::var("NVCHECK_C16_SILENCE_MS").ok().and_then(|s| s.parse().ok()).unwrap_or(SILENCE_KILL_MS)
}

/// Number of expression-level loop constructs (reduce, quantifiers, list comprehensions).
fn loop_constructs(text: &str) -> usize {
    let t = text.to_ascii_lowercase();
    let mut n = 0;
    for kw in ["reduce(", "any(", "all(", "none(", "single("] {
        n += t.matches(kw).count();
    }
    // pattern comprehensions `[(a)-->(b) | ...]` iterate matches inside the evaluator as well
    n += t.matches("[(").count();
    // `[x IN ...`
    let b = t.as_bytes();
    let mut i = 0;
    while i < b.len() {
        if b[i] == b'[' {
            let mut j = i + 1;
            while j < b.len() && b[j] == b' ' {
                j += 1;
            }
            let st = j;
            while j < b.len() && (b[j].is_ascii_alphanumeric() || b[j] == b'_') {
                j += 1;
            }
            if j > st && t[j..].starts_with(" in ") {
                n += 1;
            }
        }
        i += 1;
    }
    n
}

/// The two open findings are runaways (unbounded CPU *or* memory, whichever limit is hit
/// first): overruns and allocation-failure aborts of queries of these classes share one
/// signature each.
fn runaway_class(text: &str, phase: &str) -> Option<&'static str> {
    if text.to_ascii_lowercase().matches("optional match").count() > gram::MAX_OPTIONAL as usize + 5 {
        // every OPTIONAL MATCH doubles the plan (and its execution)
        return Some("runaway:optional-match-chain");
    }
    if phase != "prepare" && loop_constructs(text) >= 1 {
        // the evaluator never polls the timeout inside expression-level loops
        return Some("runaway:expression-loops");
    }
    None
}

fn overrun_signature(class: &str, phase: &str, text: &str) -> String {
    match runaway_class(text, phase) {
        Some(sig) => sig.to_string(),
        None => format!("timeout-overrun:{class}:{phase}"),
    }
}

/// Panic locations inside dependencies: keep `crate-version/src/file.rs:line` only.
fn norm_loc(loc: &str) -> String {
    if let Some((_, rest)) = loc.split_once("/registry/src/") {
        if let Some((_, tail)) = rest.split_once('/') {
            return tail.to_string();
        }
    }
    loc.to_string()
}

fn short(s: &str, n: usize) -> String {
    if s.len() <= n {
        return s.to_string();
    }
    let mut a = n / 2;
    while !s.is_char_boundary(a) {
        a -= 1;
    }
    let mut b = s.len() - n / 2;
    while !s.is_char_boundary(b) {
        b += 1;
    }
    format!("{} …[{} bytes]… {}", &s[..a], s.len() - n, &s[b..])
}

/// Development aid: with `NVCHECK_C16_TRIAGE=1` every failure is printed and the search
/// goes on (the engine itself stops at the first failure of a section).
fn judge(case: &Case, scratch: &Path, restrict: gram::Restrict, obs: &mut Obs) -> CaseResult {
    let t0 = Instant::now();
    let r = judge_inner(case, scratch, restrict, obs);
    if std::env::var("NVCHECK_C16_TRIAGE").is_ok() {
        let ms = t0.elapsed().as_millis();
        if ms > 1500 {
            eprintln!("TRIAGE-SLOW {ms} ms: {}", short(&case.text(), 160));
        }
        if let Err(f) = &r {
            eprintln!("TRIAGE {} :: {}", f.signature, short(&f.message, 700));
            return Ok(());
        }
    }
    r
}

fn judge_inner(case: &Case, scratch: &Path, restrict: gram::Restrict, obs: &mut Obs) -> CaseResult {
    let text = case.text();
    let depth = case.depth(&text);
    let class = case.class();
    let wc = WCase { n: NEXT_CASE.fetch_add(1, Ordering::Relaxed), text, params: case.params.clone(), graph: case.graph.clone() };
    obs.class(&format!("src:{}", class.split(':').next().unwrap_or("?")));
    if let Src::Deep { shape, .. } = &case.src {
        obs.class(&format!("shape:{shape}"));
        if shape == "optional-match-chain" && restrict.optional_chain {
            obs.excluded("optional-match-chain-capped");
        }
    }
    obs.class_if(depth >= 64, "depth>=64");
    obs.class_if(depth >= 1_000, "depth>=1000");
    obs.class_if(depth >= 10_000, "depth>=10000");
    obs.class_if(wc.text.len() >= 100_000, "text>=100KB");
    obs.class_if(!case.params.is_empty(), "params");
    if let Src::Text { excl, .. } = &case.src {
        if *excl > 0 {
            obs.excluded("nested-expression-loop-restricted");
        }
    }
    let compacted = case.graph.iter().any(|o| o.is_compaction());
    let has_edges = case.graph.iter().any(|o| matches!(o, Op::Tx { ws, commit: true } if ws.iter().any(|w| matches!(w, W::CreateEdge { .. }))));
    obs.class_if(case.graph.is_empty(), "graph:empty");
    obs.class_if(compacted, "graph:compacted");
    obs.class_if(!has_edges && !case.graph.is_empty(), "graph:relationship-free");
    obs.class_if(compacted && !has_edges, "graph:compacted+relationship-free");
    obs.sample(serde_json::json!({"query": short(&wc.text, 300), "params": case.params.len(), "graph_ops": case.graph.len()}));
    let shown = short(&wc.text, 600);
    match run_in_worker(scratch, &wc) {
        Verdict::Broken(e) => {
            // harness trouble is never a verdict about the database
            obs.class("inconclusive:worker-broken");
            obs.count(&format!("worker-broken:{}", short(&e, 60)), 1);
            Ok(())
        }
        Verdict::Silent { phase, ms } => {
            if phase.ends_with(":build") || phase == "begun" || phase == "not-begun" {
                obs.class("inconclusive:slow-graph-build");
                return Ok(());
            }
            let ph = phase.split(':').nth(1).unwrap_or("?").to_string();
            fail!(
                overrun_signature(&class, &ph, &wc.text),
                "worker silent while burning {ms} ms of CPU in phase {phase} (configured soft timeout {SOFT_TIMEOUT_MS} ms, bound {}x); killed. query: {shown}",
                OVERRUN_FACTOR
            )
        }
        Verdict::Died { signal, code, phase, stderr } => {
            let reason = if stderr.contains("overflowed its stack") || stderr.contains("stack overflow") {
                "stack-overflow"
            } else if stderr.contains("memory allocation of") {
                "alloc-failure"
            } else {
                "other"
            };
            let how = match (signal, code) {
                (Some(s), _) => signal_name(s),
                (None, Some(c)) => format!("exit{c}"),
                _ => "unknown".into(),
            };
            let ph = phase.split(':').nth(1).unwrap_or("?");
            let sig = match runaway_class(&wc.text, ph) {
                Some(sig) if reason == "alloc-failure" => sig.to_string(),
                _ => format!("abort:{how}:{class}"),
            };
            fail!(
                sig,
                "worker died ({how}, {reason}) in phase {phase}; stderr: {stderr}; nesting depth {depth}; query: {shown}"
            )
        }
        Verdict::Done(o) => {
            obs.class_if(o.prepared, "prepared");
            obs.class_if(o.prepared, &format!("prepared:{}", class.split(':').next().unwrap_or("?")));
            obs.class_if(!o.prepared, "rejected");
            if !o.prepared && class == "grammar" && std::env::var("NVCHECK_C16_TRIAGE").is_ok() {
                eprintln!("TRIAGE-REJECT {} :: {}", o.prepare_err.as_deref().unwrap_or("?"), short(&wc.text, 400));
            }
            if o.prepared {
                obs.class(match (&o.exec_err, o.rows) {
                    (Some(_), _) if o.limit_err => "exec:limit-error",
                    (Some(_), _) => "exec:error",
                    (None, 0) => "exec:no-rows",
                    (None, _) => "exec:rows",
                });
                obs.class_if(o.wrote.is_some_and(|n| n > 0), "write:committed");
                obs.class_if(o.write_err.is_some(), "write:error");
            }
            obs.class_if(o.graph_err.is_some(), "graph:build-error");
            obs.set_nontrivial(o.prepared || depth >= 64);
            if let Some((loc, msg, mode)) = &o.panic {
                let loc = &norm_loc(loc);
                fail!(format!("panic@{loc}"), "panic at {loc} ({mode} run): {msg}; all panic sites of the case: {:?}; query: {shown}", o.panic_locs)
            }
            if o.max_ms > bound_ms(wc.text.len()) {
                let ph = o.slow_phase.split(':').nth(1).unwrap_or("?").to_string();
                fail!(
                    overrun_signature(&class, ph.split('+').next_back().unwrap_or("?"), &wc.text),
                    "{} took {} ms of CPU time with soft_timeout_ms = {SOFT_TIMEOUT_MS} (bound {}x); query: {shown}",
                    o.slow_phase,
                    o.max_ms,
                    OVERRUN_FACTOR
                )
            }
            obs.class_if(o.max_ms > 5 * SOFT_TIMEOUT_MS, "slow:>5x-timeout");
            Ok(())
        }
    }
}

pub fn run(ctx: &mut RunCtx) {
    ctx.assume("cases run in child workers started through `sh -c 'ulimit -v 2097152; exec ...'`; a worker death is attributed to the case it announced");
    ctx.assume(&format!(
        "execution options: soft_timeout_ms={SOFT_TIMEOUT_MS}, max_intermediate_rows=max_collection_items=max_apply_rows_per_outer=10000; a prepare+execute unit that consumes more than {}x the timeout (+30 ms per KiB of query text) in CPU time of the worker is a violation (CPU time because the machine is shared), anything below is noise",
        OVERRUN_FACTOR
    ));
    ctx.assume("every case runs twice in the worker: on the main thread (8 MiB stack) and on a 2 MiB-stack thread; each run prepares, streams <= 10000 reified rows, executes the statement in a write transaction, commits and reads the graph back");
    ctx.assume("arbitrary bytes are decoded lossily to UTF-8 (the API takes &str); parameter values nest at most 60 levels (the C API decodes JSON with a 128-level limit)");
    let corpus = Arc::new(corpus());
    ctx.note(format!("seed corpus: {} harvested queries", corpus.len()));
    let scratch = ctx.scratch_root.join("workers");
    let _ = std::fs::create_dir_all(&scratch);
    let cases = std::env::var("NVCHECK_C16_CASES").ok().and_then(|s| s.parse().ok()).unwrap_or(ctx.tier.pick(20_000, 600_000)); // env: development aid
    // open findings switch on exclusions by construction
    let restrict = gram::Restrict {
        // loops inside expressions (reduce / comprehensions / quantifiers) never poll the timeout
        loops: ctx.has_open("runaway:expression-loops"),
        // every OPTIONAL MATCH doubles the plan
        optional_chain: ctx.has_open("runaway:optional-match-chain"),
    };
    let mut fixed: Vec<Case> = Vec::new();
    for t in FIXED_TEXTS {
        fixed.push(text_case(t));
    }
    if !restrict.loops {
        for t in LOOP_TEXTS {
            fixed.push(text_case(t));
        }
    }
    for (i, shape) in gram::DEEP_SHAPES.iter().enumerate() {
        // below and far above the nesting / size limits, rotating through the contexts
        let ctx_name = gram::DEEP_CONTEXTS[i % gram::DEEP_CONTEXTS.len()];
        for (depth, c) in [(12, "return"), (36, ctx_name), (250, "return"), (100_000, ctx_name)] {
            fixed.push(deep_case(shape, cap_depth(shape, depth, restrict), c));
        }
    }
    for q in corpus.iter().step_by(ctx.tier.pick(8, 1)) {
        fixed.push(Case { src: Src::Text { origin: "corpus".into(), text: q.clone(), excl: 0 }, params: vec![("p0".into(), PV::Int(1))], graph: small_graph() });
    }
    if std::env::var("NVCHECK_C16_NOFIXED").is_ok() {
        fixed.clear(); // development aid
    }
    let scratch2 = scratch.clone();
    let c2 = corpus.clone();
    ctx.explore_with(
        "queries",
        "query text (grammar-generated over all clauses/functions, token mutations of harvested queries, raw bytes, printable strings, every recursive production nested 1..100000 deep) x parameter map x small graph (incl. compacted and relationship-free), prepared and executed in a child process on an 8 MiB and a 2 MiB stack; non-trivial = prepare accepted the text and execution ran, or nesting depth >= 64",
        cases,
        fixed,
        false,
        move || case_strategy(c2.clone(), restrict),
        move |case: &Case, obs: &mut Obs| judge(case, &scratch2, restrict, obs),
    );
    ctx.note(format!("worker processes started: {}", WORKER_STARTS.load(Ordering::Relaxed)));

    // ---- deep shapes once more in an unoptimised build of the same code: frames are several
    // times larger there and the optimiser removes no recursion, so nesting that a release
    // build survives can still overflow the stack of a debug build (tests, development).
    let debug_exe = std::env::current_exe().ok().and_then(|p| p.parent().and_then(|d| d.parent()).map(|t| t.join("debug").join("check")));
    let debug_exe = debug_exe.filter(|p| p.exists());
    if debug_exe.is_none() {
        ctx.note("debug-build worker (target/debug/check) not built: section deep-shapes-debug-build has no cases");
    }
    let mut dfixed: Vec<(String, String, u32)> = Vec::new();
    if debug_exe.is_some() {
        for (i, shape) in gram::DEEP_SHAPES.iter().enumerate() {
            let ctx_name = gram::DEEP_CONTEXTS[i % gram::DEEP_CONTEXTS.len()];
            for depth in [30u32, 300, 5_000, 200_000] {
                dfixed.push((shape.to_string(), ctx_name.to_string(), cap_depth(shape, depth, restrict)));
            }
        }
    }
    let scratch3 = scratch.clone();
    ctx.explore_with(
        "deep-shapes-debug-build",
        "every deep shape at depths 30 / 300 / 5000 / 200000 (capped per shape) executed by an unoptimised (dev profile) build of the worker, one process per case under ulimit -v; the process must exit normally; every case is non-trivial (nesting depth >= 30)",
        0,
        dfixed,
        true,
        || Just((String::new(), String::new(), 0u32)),
        move |c: &(String, String, u32), obs: &mut Obs| {
            let Some(exe) = debug_exe.as_ref() else { return Ok(()) };
            obs.nontrivial();
            obs.class(&format!("shape:{}", c.0));
            let mut child = Command::new("sh")
                .arg("-c")
                .arg(format!("ulimit -v {WORKER_VMEM_KIB}; exec \"$0\" \"$@\""))
                .arg(exe)
                .arg("--worker")
                .arg("c16-deep")
                .arg(&scratch3)
                .arg(&c.0)
                .arg(&c.1)
                .arg(c.2.to_string())
                .stdin(Stdio::null())
                .stdout(Stdio::null())
                .stderr(Stdio::null())
                .spawn()
                .map_err(|e| Failure::new("harness-spawn", e.to_string()))?;
            let start = std::time::Instant::now();
            loop {
                match child.try_wait() {
                    Ok(Some(st)) => {
                        use std::os::unix::process::ExitStatusExt;
                        if let Some(sig) = st.signal() {
                            fail!(format!("abort:{}:deep-nesting:{}:debug-build", signal_name(sig), c.0), "unoptimised worker died with {} on shape {} (context {}) nested {} deep", signal_name(sig), c.0, c.1, c.2);
                        }
                        return Ok(());
                    }
                    Ok(None) => {
                        if start.elapsed().as_secs() > 600 {
                            let _ = child.kill();
                            let _ = child.wait();
                            obs.class("debug-worker-slow");
                            return Ok(()); // slowness of an unoptimised build is not judged
                        }
                        std::thread::sleep(std::time::Duration::from_millis(20));
                    }
                    Err(e) => return Err(Failure::new("harness-wait", e.to_string())),
                }
            }
        },
    );
    let _: Option<Failure> = None;
}
