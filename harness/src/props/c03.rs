//! C03 Snapshots are consistent and stable.
//!
//! (a) sequential: long-lived snapshots re-read after later commits / compactions / index
//!     creation must still equal the model state recorded when they were taken;
//! (b) interleaved: through the `sched` hook a complete reader (snapshot + dump) runs at every
//!     publication step of a commit / compaction, and a complete writer (commit, compaction)
//!     runs between every two field reads of snapshot creation; the snapshot must equal a
//!     commit-boundary state and stay equal.
use crate::engine::{CaseResult, Failure, Obs, RunCtx, catch, fp};
use crate::hist::{self, Excl, Hazard, Op, Profile, RW, Runner, StepKind, TxFlags, W};
use crate::model::{self, Model};
use nervusdb::verif_hooks::{self as vh, Hooks};
use nervusdb::{Db, DbSnapshot};
use proptest::prelude::*;
use serde::{Deserialize, Serialize};
use std::sync::{Arc, Mutex};

// ---------------------------------------------------------------- (a) sequential

#[derive(Debug, Clone, Serialize, Deserialize)]
pub enum SStep {
    Op(Op),
    Take,
    Read(u16),
    /// like Read but never subject to exclusions (reproducers of known findings)
    ReadStrict(u16),
}

struct Held {
    snap: DbSnapshot,
    state: Model,
    taken_at: usize,
    compactions_at_take: u32,
    prop_sinks_at_take: u32,
}

fn strip_props(m: &Model) -> Model {
    let mut x = m.clone();
    for n in x.nodes.values_mut() {
        n.props.clear();
    }
    x.edge_props.clear();
    x
}

fn check_snapshot(h: &Held, r: &Runner, ignore_props: bool) -> CaseResult {
    let mut d = model::dump_snapshot(&h.snap, &r.uni(), &h.state.dead)?;
    let m = if ignore_props {
        for n in d.nodes.values_mut() {
            n.props.clear();
            n.single.clear();
        }
        d.edge_props.clear();
        d.edge_single.clear();
        strip_props(&h.state)
    } else {
        h.state.clone()
    };
    model::diff(&m, &d, &r.uni())
}

fn seq_test(steps: &Vec<SStep>, obs: &mut Obs, excl_store: bool) -> CaseResult {
    let dir = crate::engine::temp_dir();
    let mut r = Runner::new(dir.join("db"), Excl::default())?;
    let mut held: Vec<Held> = Vec::new();
    let mut prop_sinks = 0u32; // compactions that sank at least one property change
    let mut prop_change_since_compact = false;
    let mut hard = false;
    for (i, st) in steps.iter().enumerate() {
        match st {
            SStep::Op(op) => {
                let k = r.apply(op, false, false, obs).map_err(|f| r.fail_with_log(f))?;
                match k {
                    StepKind::Committed => {
                        prop_change_since_compact |= r.last_rws.iter().any(|w| matches!(w, RW::SetNodeProp { .. } | RW::RemoveNodeProp { .. } | RW::SetEdgeProp { .. } | RW::RemoveEdgeProp { .. }));
                    }
                    StepKind::Compacted => {
                        if prop_change_since_compact {
                            prop_sinks += 1;
                        }
                        prop_change_since_compact = false;
                    }
                    _ => {}
                }
            }
            SStep::Take => {
                let snap = catch(|| r.db().snapshot()).map_err(|(l, m)| Failure::new(format!("panic@{l}"), m))?;
                let h = Held { snap, state: r.model.clone(), taken_at: i, compactions_at_take: r.compactions, prop_sinks_at_take: prop_sinks };
                obs.sub_eval(None);
                check_snapshot(&h, &r, false).map_err(|f| Failure::new(format!("fresh-snapshot:{}", f.signature), r.fail_with_log(f).message))?;
                held.push(h);
            }
            SStep::Read(j) | SStep::ReadStrict(j) => {
                if held.is_empty() {
                    continue;
                }
                let h = &held[crate::engine::idx(*j, held.len())];
                let later_commits = r.states.len() > 0 && r.model != h.state;
                let later_compactions = r.compactions - h.compactions_at_take;
                // open finding: the property store is updated in place, so a snapshot that may
                // read it is only compared on non-property content once a later compaction sank
                // a property change
                let ignore_props = excl_store && prop_sinks > h.prop_sinks_at_take && !matches!(st, SStep::ReadStrict(_));
                if ignore_props {
                    obs.excluded("old-snapshot-properties-after-later-property-sink");
                }
                let nt = later_commits && later_compactions >= 1;
                obs.sub_eval(if nt { Some(fp(&(h.taken_at, i))) } else { None });
                hard |= nt;
                obs.class_if(later_compactions >= 2, "snapshot-spans-2+-compactions");
                check_snapshot(h, &r, ignore_props)
                    .map_err(|f| Failure::new(format!("old-snapshot-changed:{}", f.signature), format!("snapshot taken at step {} re-read at step {i} after {later_compactions} later compactions: {}", h.taken_at, r.fail_with_log(f).message)))?;
            }
        }
    }
    obs.set_nontrivial(hard);
    Ok(())
}

// ---------------------------------------------------------------- (b) interleaved

/// How long the paused side waits for the injected operation before continuing (the
/// injected side is then blocked on a lock the paused side holds, and finishes afterwards).
const GRACE_MS: u64 = 120;

#[derive(Debug, Clone, Serialize, Deserialize)]
pub enum Writer {
    Commit(Vec<W>),
    Compact,
    CommitThenCompact(Vec<W>),
}

#[derive(Debug, Clone, Serialize, Deserialize)]
pub struct ICase {
    prefix: Vec<Op>,
    writer: Writer,
    /// true: the reader runs inside the writer's publication steps;
    /// false: the writer runs between the field reads of snapshot creation
    reader_inside_writer: bool,
    /// restrict to one injection point (reproducers); None = every point
    #[serde(default)]
    only: Option<usize>,
}

struct Inject {
    /// which sched call (0-based) of the outer operation triggers the inner one
    at: usize,
    seen: usize,
    active: bool,
    points: Vec<&'static str>,
    inner: Option<Box<dyn FnMut(&'static str) + Send>>,
}

struct SchedHooks(Mutex<Inject>);

impl Hooks for SchedHooks {
    fn sched(&self, point: &'static str) {
        let inner = {
            let mut s = self.0.lock().unwrap();
            if !s.active {
                return;
            }
            s.points.push(point);
            let n = s.seen;
            s.seen += 1;
            if n == s.at {
                s.active = false; // no recursion: the inner operation runs unobserved
                s.inner.take()
            } else {
                None
            }
        };
        if let Some(mut f) = inner {
            f(point);
        }
    }
}

fn run_writer(db: &Db, w: &Writer, rws: &[RW]) -> Result<(), String> {
    match w {
        Writer::Commit(_) => hist::exec_tx(db, rws, true).map_err(|(a, b)| format!("{a}: {b}")),
        Writer::Compact => db.compact().map_err(|e| e.to_string()),
        Writer::CommitThenCompact(_) => {
            hist::exec_tx(db, rws, true).map_err(|(a, b)| format!("{a}: {b}"))?;
            db.compact().map_err(|e| e.to_string())
        }
    }
}

fn matches_state(snap: &DbSnapshot, m: &Model, keys: &[String], types: &[String], ignore_props: bool) -> Result<(), Failure> {
    let uni = model::Universe { keys, types };
    let mut d = model::dump_snapshot(snap, &uni, &m.dead)?;
    if ignore_props {
        for n in d.nodes.values_mut() {
            n.props.clear();
            n.single.clear();
        }
        d.edge_props.clear();
        d.edge_single.clear();
        return model::diff(&strip_props(m), &d, &uni);
    }
    model::diff(m, &d, &uni)
}

fn one_point(c: &ICase, at: usize, obs: &mut Obs, excl_store: bool) -> Result<Option<usize>, Failure> {
    // open finding: a compaction rewrites the property store in place under older snapshots
    let ign = excl_store && !matches!(c.writer, Writer::Commit(_));
    if ign {
        obs.excluded("old-snapshot-properties-after-later-property-sink");
    }
    let dir = crate::engine::temp_dir();
    let mut r = Runner::new(dir.join("db"), Excl::default())?;
    for op in &c.prefix {
        if r.apply(op, false, false, obs).is_err() {
            return Ok(None);
        }
    }
    let pre = r.model.clone();
    let mut post = pre.clone();
    let rws = match &c.writer {
        Writer::Commit(ws) | Writer::CommitThenCompact(ws) => {
            let mut flags = TxFlags::default();
            hist::resolve_tx(&mut post, ws, &Excl::default(), &Hazard::default(), obs, &mut flags)
        }
        Writer::Compact => Vec::new(),
    };
    let db = Arc::new(r.db.take().unwrap());
    let keys = hist::keys_vec();
    let types = hist::types_vec();
    let result: Arc<Mutex<Option<Result<DbSnapshot, String>>>> = Arc::new(Mutex::new(None));
    let inj = Arc::new(SchedHooks(Mutex::new(Inject { at, seen: 0, active: false, points: Vec::new(), inner: None })));
    let prev = vh::install(Some(inj.clone() as Arc<dyn Hooks>));
    let snap: Result<DbSnapshot, String>;
    let point_name;
    if c.reader_inside_writer {
        let (db2, res2) = (db.clone(), result.clone());
        let pending: Arc<Mutex<Option<std::thread::JoinHandle<()>>>> = Arc::new(Mutex::new(None));
        let pending2 = pending.clone();
        {
            let mut s = inj.0.lock().unwrap();
            s.inner = Some(Box::new(move |_p| {
                // a helper thread, so that a reader that has to wait for a lock held at this
                // point simply runs after the writer (any such execution is a legal schedule)
                let (db3, res3) = (db2.clone(), res2.clone());
                let (tx, rx) = std::sync::mpsc::channel::<()>();
                let h = std::thread::spawn(move || {
                    let r = std::panic::catch_unwind(std::panic::AssertUnwindSafe(|| db3.snapshot())).map_err(|_| "snapshot panicked".to_string());
                    *res3.lock().unwrap() = Some(r);
                    let _ = tx.send(());
                });
                let _ = rx.recv_timeout(std::time::Duration::from_millis(GRACE_MS));
                *pending2.lock().unwrap() = Some(h);
            }));
            s.active = true;
        }
        let w = catch(|| run_writer(&db, &c.writer, &rws));
        inj.0.lock().unwrap().active = false;
        vh::install(prev);
        if let Some(h) = pending.lock().unwrap().take() {
            let _ = h.join();
        }
        match w {
            Err((l, m)) => return Err(Failure::new(format!("panic@{l}"), m)),
            Ok(Err(e)) => return Err(Failure::new("op-error:writer", e)),
            Ok(Ok(())) => {}
        }
        let Some(r0) = result.lock().unwrap().take() else {
            return Ok(Some(inj.0.lock().unwrap().seen)); // `at` beyond the last point
        };
        snap = r0;
        point_name = inj.0.lock().unwrap().points.get(at).copied().unwrap_or("?");
    } else {
        let (db2, w2, rws2) = (db.clone(), c.writer.clone(), rws.clone());
        let werr: Arc<Mutex<Option<String>>> = Arc::new(Mutex::new(None));
        let werr2 = werr.clone();
        let ran = Arc::new(Mutex::new(false));
        let ran2 = ran.clone();
        let wpending: Arc<Mutex<Option<std::thread::JoinHandle<()>>>> = Arc::new(Mutex::new(None));
        let wpending2 = wpending.clone();
        {
            let mut s = inj.0.lock().unwrap();
            s.inner = Some(Box::new(move |_p| {
                *ran2.lock().unwrap() = true;
                let (db3, w3, rws3, werr3) = (db2.clone(), w2.clone(), rws2.clone(), werr2.clone());
                let (tx, rx) = std::sync::mpsc::channel::<()>();
                let h = std::thread::spawn(move || {
                    match std::panic::catch_unwind(std::panic::AssertUnwindSafe(|| run_writer(&db3, &w3, &rws3))) {
                        Err(_) => *werr3.lock().unwrap() = Some("writer panicked".to_string()),
                        Ok(Err(e)) => *werr3.lock().unwrap() = Some(e),
                        Ok(Ok(())) => {}
                    }
                    let _ = tx.send(());
                });
                let _ = rx.recv_timeout(std::time::Duration::from_millis(GRACE_MS));
                *wpending2.lock().unwrap() = Some(h);
            }));
            s.active = true;
        }
        snap = catch(|| db.snapshot()).map_err(|(l, m)| format!("panic at {l}: {m}"));
        inj.0.lock().unwrap().active = false;
        vh::install(prev);
        if let Some(h) = wpending.lock().unwrap().take() {
            let _ = h.join();
        }
        if let Some(e) = werr.lock().unwrap().take() {
            return Err(Failure::new("op-error:writer-inside-snapshot", e));
        }
        if !*ran.lock().unwrap() {
            return Ok(Some(inj.0.lock().unwrap().seen));
        }
        point_name = inj.0.lock().unwrap().points.get(at).copied().unwrap_or("?");
    }
    let snap = snap.map_err(|e| Failure::new("snapshot-failed", e))?;
    obs.class(point_name);
    // consistency: equals a commit boundary state
    let a = matches_state(&snap, &pre, &keys, &types, ign);
    let b = matches_state(&snap, &post, &keys, &types, ign);
    let first_ok_pre = a.is_ok();
    if a.is_err() && b.is_err() {
        let (fa, fb) = (a.unwrap_err(), b.unwrap_err());
        return Err(Failure::new(
            format!("torn-snapshot:{}:{}", if c.reader_inside_writer { "reader-in-writer" } else { "writer-in-reader" }, point_name),
            format!("snapshot interleaved at `{point_name}` equals neither the state before ({}: {}) nor after ({}: {}) the transaction {:?}", fa.signature, fa.message, fb.signature, fb.message, rws),
        ));
    }
    obs.sub_eval(Some(fp(&(point_name, c.reader_inside_writer))));
    // stability: the same content when read again after the writer is done
    let again = if first_ok_pre { matches_state(&snap, &pre, &keys, &types, ign) } else { matches_state(&snap, &post, &keys, &types, ign) };
    again.map_err(|f| Failure::new(format!("snapshot-not-stable:{}:{}", point_name, f.signature), format!("snapshot interleaved at `{point_name}` changed after the writer finished: {}", f.message)))?;
    // a snapshot taken now sees the writer's effects
    let fresh = catch(|| db.snapshot()).map_err(|(l, m)| Failure::new(format!("panic@{l}"), m))?;
    matches_state(&fresh, &post, &keys, &types, false).map_err(|f| Failure::new(format!("fresh-snapshot-after-writer:{}", f.signature), f.message))?;
    Ok(Some(usize::MAX))
}

fn inter_test(c: &ICase, obs: &mut Obs, excl_store: bool) -> CaseResult {
    obs.class(if c.reader_inside_writer { "reader-inside-writer" } else { "writer-inside-snapshot" });
    if let Some(at) = c.only {
        return one_point(c, at, obs, excl_store).map(|_| ());
    }
    let mut at = 0;
    loop {
        match one_point(c, at, obs, excl_store).map_err(|f| Failure::new(f.signature, format!("[injection point {at}] {}", f.message)))? {
            None => return Ok(()),             // prefix failed without interleaving: not this property
            Some(usize::MAX) => at += 1,       // point existed, try the next
            Some(_total) => break,             // `at` is past the last schedule point
        }
        if at > 64 {
            break;
        }
    }
    obs.count("schedule_points", at as u64);
    obs.set_nontrivial(at >= 2);
    Ok(())
}

pub fn run(ctx: &mut RunCtx) {
    ctx.assume("interleavings are controlled at the cfg-guarded schedule points only (between publication steps of commit/compaction and between field reads of snapshot creation); the inner operation runs to completion on the same thread (no lock is held at a schedule point)");
    ctx.assume("snapshots are not carried across a reopen of the handle; index lookups through old snapshots are not compared here (index semantics are C15's subject)");
    let excl_store = ctx.excluding("old-snapshot-properties-after-later-property-sink");
    let mut p = Profile::base();
    p.ws = 1..6;
    p.w_compact = 0;
    p.nested_values = false;
    let cases = ctx.tier.pick(1500, 40_000);
    ctx.explore(
        "sequential",
        "histories with TakeSnapshot / ReadSnapshot(i) at generated points across later commits, several compactions and index creation; every read of snapshot i must equal the model state recorded when i was taken; non-trivial evaluation = a snapshot re-read after >=1 later commit and >=1 later compaction",
        cases,
        || {
            let step = prop_oneof![
                5 => prop::collection::vec(hist::write_op(false), 1..6).prop_map(|ws| SStep::Op(Op::Tx { ws, commit: true })),
                3 => Just(SStep::Op(Op::Compact)),
                1 => (0u8..4, 0u8..5).prop_map(|(l, k)| SStep::Op(Op::CreateIndex { l, k })),
                3 => Just(SStep::Take),
                4 => any::<u16>().prop_map(SStep::Read),
            ];
            prop::collection::vec(step, 3..24)
        },
        |s: &Vec<SStep>, obs: &mut Obs| seq_test(s, obs, excl_store),
    );
    let mut pp = Profile::base();
    pp.ops = 0..5;
    pp.ws = 1..5;
    pp.w_compact = 2;
    pp.nested_values = false;
    let icases = ctx.tier.pick(400, 8000);
    ctx.shrink_iters = 300;
    ctx.explore(
        "interleaved",
        "generated prefix + one writer (commit / compaction / commit+compaction) and one snapshot creation, interleaved at EVERY schedule point in turn: a complete snapshot+dump inside the writer's publication steps, or the complete writer between two field reads of snapshot creation; the snapshot must equal the state before or after the writer (never a mixture), stay equal when re-read afterwards, and a fresh snapshot must show the writer's effects; non-trivial = the operation exposed >=2 schedule points",
        icases,
        || {
            let w = prop_oneof![
                4 => prop::collection::vec(hist::write_op(false), 1..6).prop_map(Writer::Commit),
                2 => Just(Writer::Compact),
                2 => prop::collection::vec(hist::write_op(false), 1..6).prop_map(Writer::CommitThenCompact),
            ];
            (hist::history(&pp), w, any::<bool>()).prop_map(|(prefix, writer, reader_inside_writer)| ICase { prefix, writer, reader_inside_writer, only: None })
        },
        |c: &ICase, obs: &mut Obs| inter_test(c, obs, excl_store),
    );
    let _ = p;
}
