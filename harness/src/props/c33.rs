//! C33 Execution limits fail cleanly.
//!
//! A generated query with large intermediates is run once with generous limits (complete
//! result R). Then it is run under many `ExecuteOptions`: for each limit dimension the
//! smallest passing value is located by bisection (every probe of the bisection is itself
//! checked with the oracle, so values just below and just above what R needs are always
//! exercised), followed by generated combinations of limits drawn around those values.
//! Oracle: Ok(rows) with multiset(rows) = R, or Err(ResourceLimitExceeded); nothing else.
use crate::cy::{self, CV, QErr};
use crate::engine::{CaseResult, Failure, Obs, RunCtx, fp, temp_dir};
use crate::hist::open_db;
use nervusdb::Db;
use nervusdb::query::{ExecuteOptions, Params, prepare};
use proptest::prelude::*;
use serde::{Deserialize, Serialize};
use std::time::{Duration, Instant};

#[derive(Debug, Clone, Serialize, Deserialize)]
pub enum Src {
    /// UNWIND range(1, n) AS x
    Range { n: u16 },
    /// UNWIND range(1, n) AS a UNWIND range(1, m) AS b WITH a * 100 + b AS x
    Range2 { n: u8, m: u8 },
    /// MATCH (a:N), (b:N)[, (c:N)] WITH a.i * 100 + b.i * 10 [+ c.i] AS x
    Cart { three: bool },
    /// MATCH (a:N)-[:R*min..max]->(b:N) WITH a.i * 10 + b.i AS x   (or undirected)
    VarLen { min: u8, max: u8, undirected: bool },
    /// MATCH p = (a:N)-[:R*0..max]->(b) WITH length(p) * 10 + b.i AS x
    PathLen { max: u8 },
    /// UNWIND [i IN range(1, n) WHERE i % 2 = 0 | i * 3] AS x
    ListComp { n: u16 },
}

#[derive(Debug, Clone, Serialize, Deserialize)]
pub enum Mid {
    /// WITH x WHERE x % m <> r
    Filter { m: u8, r: u8 },
    /// WITH x ORDER BY x [DESC] [LIMIT l]
    Order { desc: bool, limit: Option<u16> },
    /// WITH DISTINCT x % m AS x
    Distinct { m: u16 },
    /// WITH collect(x) AS xs UNWIND xs AS y WITH y AS x
    CollectUnwind,
    /// CALL { WITH x UNWIND range(1, m) AS y RETURN y } WITH x * 10 + y AS x
    Call { m: u8 },
    /// OPTIONAL MATCH (o:N) WHERE o.i = x % m WITH x * 10 + coalesce(o.i, 9) AS x
    OptMatch { m: u8 },
    /// UNWIND range(1, m) AS z WITH x * 10 + z AS x
    Fan { m: u8 },
    /// WITH x WHERE size(range(0, x % m)) > 0   (a list built inside a predicate)
    SizeRange { m: u16 },
}

#[derive(Debug, Clone, Serialize, Deserialize)]
pub enum Fin {
    Rows,
    /// RETURN count(*) AS c, sum(x) AS s, min(x) AS lo, max(x) AS hi
    Agg,
    /// RETURN x % m AS g, count(*) AS c, collect(x) AS xs
    Group { m: u16 },
    /// RETURN collect([DISTINCT] x) AS xs
    Collect { distinct: bool },
    /// RETURN x ORDER BY x [DESC] SKIP s LIMIT l
    OrderLimit { desc: bool, skip: u16, limit: u16 },
    /// RETURN DISTINCT x % m AS g
    Distinct { m: u16 },
    /// RETURN x, [y IN range(1, x % m) | y * 2] AS l
    ListOut { m: u16 },
    /// RETURN x UNION [ALL] UNWIND range(1, n) AS x RETURN x
    Union { all: bool, n: u16 },
    /// RETURN count(DISTINCT x % m) AS c, size(collect(x)) AS k
    CountDistinct { m: u16 },
}

#[derive(Debug, Clone, Serialize, Deserialize)]
pub struct Opt {
    /// per dimension (rows, collection, apply): None = generous, Some(d) = threshold + d
    pub d: [Option<i32>; 3],
    pub huge_timeout: bool,
}

#[derive(Debug, Clone, Serialize, Deserialize)]
pub struct Case {
    /// number of :N nodes (i = 0..n-1) and the adjacency bitmask (bit a*n+b: (a)-[:R]->(b))
    pub n: u8,
    pub adj: u64,
    pub src: Src,
    pub mids: Vec<Mid>,
    pub fin: Fin,
    pub opts: Vec<Opt>,
}

pub fn query_text(c: &Case) -> String {
    let mut q = String::new();
    match &c.src {
        Src::Range { n } => q.push_str(&format!("UNWIND range(1, {n}) AS x")),
        Src::Range2 { n, m } => q.push_str(&format!("UNWIND range(1, {n}) AS a UNWIND range(1, {m}) AS b WITH a * 100 + b AS x")),
        Src::Cart { three: false } => q.push_str("MATCH (a:N), (b:N) WITH a.i * 10 + b.i AS x"),
        Src::Cart { three: true } => q.push_str("MATCH (a:N), (b:N), (c:N) WITH a.i * 100 + b.i * 10 + c.i AS x"),
        Src::VarLen { min, max, undirected } => {
            let arrow = if *undirected { "-" } else { "->" };
            q.push_str(&format!("MATCH (a:N)-[:R*{min}..{max}]{arrow}(b:N) WITH a.i * 10 + b.i AS x"))
        }
        Src::PathLen { max } => q.push_str(&format!("MATCH p = (a:N)-[:R*0..{max}]->(b) WITH length(p) * 10 + b.i AS x")),
        Src::ListComp { n } => q.push_str(&format!("UNWIND [i IN range(1, {n}) WHERE i % 2 = 0 | i * 3] AS x")),
    }
    for m in &c.mids {
        q.push(' ');
        match m {
            Mid::Filter { m, r } => q.push_str(&format!("WITH x WHERE x % {} <> {}", (*m).max(1), r)),
            Mid::Order { desc, limit } => {
                q.push_str(&format!("WITH x ORDER BY x{}", if *desc { " DESC" } else { "" }));
                if let Some(l) = limit {
                    q.push_str(&format!(" LIMIT {l}"));
                }
            }
            Mid::Distinct { m } => q.push_str(&format!("WITH DISTINCT x % {} AS x", (*m).max(1))),
            Mid::CollectUnwind => q.push_str("WITH collect(x) AS xs UNWIND xs AS y WITH y AS x"),
            Mid::Call { m } => q.push_str(&format!("CALL {{ WITH x UNWIND range(1, {m}) AS y RETURN y }} WITH x * 10 + y AS x")),
            Mid::OptMatch { m } => q.push_str(&format!("OPTIONAL MATCH (o:N) WHERE o.i = x % {} WITH x * 10 + coalesce(o.i, 9) AS x", (*m).max(1))),
            Mid::Fan { m } => q.push_str(&format!("UNWIND range(1, {m}) AS z WITH x * 10 + z AS x")),
            Mid::SizeRange { m } => q.push_str(&format!("WITH x WHERE size(range(0, x % {})) > 0", (*m).max(1))),
        }
    }
    q.push(' ');
    match &c.fin {
        Fin::Rows => q.push_str("RETURN x"),
        Fin::Agg => q.push_str("RETURN count(*) AS c, sum(x) AS s, min(x) AS lo, max(x) AS hi"),
        Fin::Group { m } => q.push_str(&format!("RETURN x % {} AS g, count(*) AS c, collect(x) AS xs", (*m).max(1))),
        Fin::Collect { distinct } => q.push_str(&format!("RETURN collect({}x) AS xs", if *distinct { "DISTINCT " } else { "" })),
        Fin::OrderLimit { desc, skip, limit } => q.push_str(&format!("RETURN x ORDER BY x{} SKIP {skip} LIMIT {limit}", if *desc { " DESC" } else { "" })),
        Fin::Distinct { m } => q.push_str(&format!("RETURN DISTINCT x % {} AS g", (*m).max(1))),
        Fin::ListOut { m } => q.push_str(&format!("RETURN x, [y IN range(1, x % {}) | y * 2] AS l", (*m).max(1))),
        Fin::Union { all, n } => q.push_str(&format!("RETURN x UNION{} UNWIND range(1, {n}) AS x RETURN x", if *all { " ALL" } else { "" })),
        Fin::CountDistinct { m } => q.push_str(&format!("RETURN count(DISTINCT x % {}) AS c, size(collect(x)) AS k", (*m).max(1))),
    }
    q
}

fn graph_text(c: &Case) -> String {
    let n = c.n as usize;
    let mut parts: Vec<String> = (0..n).map(|i| format!("(n{i}:N {{i: {i}}})")).collect();
    for a in 0..n {
        for b in 0..n {
            if (c.adj >> (a * n + b)) & 1 == 1 {
                parts.push(format!("(n{a})-[:R]->(n{b})"));
            }
        }
    }
    format!("CREATE {}", parts.join(", "))
}

fn src() -> impl Strategy<Value = Src> {
    prop_oneof![
        4 => (1u16..1500).prop_map(|n| Src::Range { n }),
        3 => (1u8..50, 1u8..50).prop_map(|(n, m)| Src::Range2 { n, m }),
        3 => any::<bool>().prop_map(|three| Src::Cart { three }),
        4 => (0u8..3, 1u8..5, any::<bool>()).prop_map(|(min, max, undirected)| Src::VarLen { min: min.min(max), max, undirected }),
        2 => (1u8..4).prop_map(|max| Src::PathLen { max }),
        2 => (1u16..600).prop_map(|n| Src::ListComp { n }),
    ]
}

fn mid() -> impl Strategy<Value = Mid> {
    prop_oneof![
        2 => (1u8..7, 0u8..3).prop_map(|(m, r)| Mid::Filter { m, r }),
        3 => (any::<bool>(), prop::option::of(0u16..300)).prop_map(|(desc, limit)| Mid::Order { desc, limit }),
        2 => (1u16..50).prop_map(|m| Mid::Distinct { m }),
        3 => Just(Mid::CollectUnwind),
        3 => (0u8..9).prop_map(|m| Mid::Call { m }),
        3 => (1u8..8).prop_map(|m| Mid::OptMatch { m }),
        2 => (0u8..7).prop_map(|m| Mid::Fan { m }),
        2 => (1u16..60).prop_map(|m| Mid::SizeRange { m }),
    ]
}

fn fin() -> impl Strategy<Value = Fin> {
    prop_oneof![
        3 => Just(Fin::Rows),
        3 => Just(Fin::Agg),
        3 => (1u16..20).prop_map(|m| Fin::Group { m }),
        3 => any::<bool>().prop_map(|distinct| Fin::Collect { distinct }),
        3 => (any::<bool>(), 0u16..30, 0u16..200).prop_map(|(desc, skip, limit)| Fin::OrderLimit { desc, skip, limit }),
        2 => (1u16..40).prop_map(|m| Fin::Distinct { m }),
        2 => (1u16..30).prop_map(|m| Fin::ListOut { m }),
        2 => (any::<bool>(), 0u16..300).prop_map(|(all, n)| Fin::Union { all, n }),
        2 => (1u16..40).prop_map(|m| Fin::CountDistinct { m }),
    ]
}

fn opt() -> impl Strategy<Value = Opt> {
    let d = || prop::option::weighted(0.75, prop_oneof![4 => -3i32..4, 2 => -200i32..200, 1 => -5000i32..5000]);
    ((d(), d(), d()), any::<bool>()).prop_map(|((a, b, c), huge_timeout)| Opt { d: [a, b, c], huge_timeout })
}

pub fn case() -> impl Strategy<Value = Case> {
    (2u8..6, any::<u64>(), src(), prop::collection::vec(mid(), 0..3), fin(), prop::collection::vec(opt(), 1..5)).prop_map(|(n, adj, src, mids, fin, opts)| Case { n, adj, src, mids, fin, opts })
}

/// Upper end of every bisection; the baseline must pass with all limits at this value.
const HI: usize = 1 << 18;
const HUGE_MS: u64 = 3_600_000_000;

fn mk(rows: usize, coll: usize, apply: usize, timeout: u64) -> ExecuteOptions {
    ExecuteOptions { max_intermediate_rows: rows, max_collection_items: coll, soft_timeout_ms: timeout, max_apply_rows_per_outer: apply }
}

enum Out {
    Complete,
    Limit,
}

struct Env<'a> {
    db: &'a Db,
    q: &'a str,
    r: &'a [Vec<CV>],
    t_base: Duration,
}

impl Env<'_> {
    /// One oracle evaluation.
    fn run(&self, o: ExecuteOptions, obs: &mut Obs) -> Result<Out, Failure> {
        let desc = format!("{o:?}");
        let params = Params::with_execute_options(o);
        let t0 = Instant::now();
        let res = cy::read(self.db, self.q, &params);
        let dt = t0.elapsed();
        let ctx = |what: String| format!("{what}\n  query: {}\n  options: {desc}\n  complete result: {} rows", self.q, self.r.len());
        let out = match res {
            Ok((_, rows)) => {
                if !cy::rows_same_multiset(&rows, self.r) {
                    let sig = if rows.len() < self.r.len() { "truncated-result" } else if rows.len() == self.r.len() { "altered-result" } else { "extra-rows" };
                    let show = |r: &[Vec<CV>]| format!("{:?}", r.iter().take(6).collect::<Vec<_>>());
                    return Err(Failure::new(sig, ctx(format!("Ok with {} rows but the complete result has {} rows\n  limited: {}\n  complete: {}", rows.len(), self.r.len(), show(&rows), show(self.r)))));
                }
                Out::Complete
            }
            Err(QErr::Limit(_)) => Out::Limit,
            Err(QErr::Panic(loc, m)) => return Err(Failure::new(format!("panic@{loc}"), ctx(format!("panic under limits: {m}")))),
            Err(e) => return Err(Failure::new("other-error-under-limit", ctx(format!("error that is not ResourceLimitExceeded: {e:?}")))),
        };
        if matches!(out, Out::Limit) && dt > self.t_base * 10 + Duration::from_secs(5) {
            return Err(Failure::new("runaway-after-limit", ctx(format!("failing run took {dt:?}, unlimited run {:?}", self.t_base))));
        }
        obs.sub_eval(matches!(out, Out::Limit).then(|| fp(&(self.q, &desc))));
        Ok(out)
    }

    fn dim(&self, d: usize, v: usize, timeout: u64) -> ExecuteOptions {
        let mut l = [HI, HI, HI];
        l[d] = v;
        mk(l[0], l[1], l[2], timeout)
    }

    /// "A failing query stops within a bounded amount of extra work", seen from a consumer
    /// that keeps pulling after the first error (as `query_collect` and `execute_mixed` do,
    /// which collect the whole stream before they look at it): the stream has to end.
    fn drain(&self, o: ExecuteOptions, obs: &mut Obs) -> Result<(), Failure> {
        // the same allowance as for a failing run as a whole; every remaining input row may
        // legitimately produce one more (cheap) error item, an endless stream cannot finish
        let allowance = self.t_base * 10 + Duration::from_secs(5);
        let desc = format!("{o:?}");
        let params = Params::with_execute_options(o);
        let q = self.q;
        let db = self.db;
        let r = crate::engine::catch(|| -> Result<Option<(usize, usize, String)>, String> {
            let prepared = prepare(q).map_err(|e| e.to_string())?;
            let snap = db.snapshot();
            let mut it = prepared.execute_streaming(&snap, &params);
            let mut rows = 0usize;
            let first = loop {
                match it.next() {
                    None => return Ok(None),
                    Some(Ok(_)) => rows += 1,
                    Some(Err(e)) => break e.to_string(),
                }
            };
            let mut extra = 0usize;
            let t0 = Instant::now();
            let mut ended = false;
            while extra % 1024 != 0 || t0.elapsed() <= allowance {
                match it.next() {
                    None => {
                        ended = true;
                        break;
                    }
                    Some(_) => extra += 1,
                }
            }
            Ok(Some((rows, if ended { extra } else { usize::MAX }, first)))
        });
        match r {
            Err((loc, m)) => Err(Failure::new(format!("panic@{loc}"), format!("panic while draining after a limit error: {m}\n  query: {q}\n  options: {desc}"))),
            Ok(Err(e)) => Err(Failure::new("other-error-under-limit", format!("prepare failed: {e}"))),
            Ok(Ok(None)) => Ok(()),
            Ok(Ok(Some((rows, extra, first)))) => {
                obs.class("drained-after-limit-error");
                obs.class_if(first.contains("imeout"), "drained-after-timeout");
                obs.sub_eval(None);
                obs.class_if(extra != usize::MAX && extra >= 1024, "drained->=1024-items-after-the-error");
                if extra == usize::MAX {
                    let kind = if first.contains("imeout") { "timeout" } else { "limit" };
                    return Err(Failure::new(
                        format!("error-stream-never-ends:{kind}"),
                        format!("after {rows} rows and the error `{first}` the result stream is still yielding items {allowance:?} later (10x the unlimited run + 5 s)\n  query: {q}\n  options: {desc}"),
                    ));
                }
                Ok(())
            }
        }
    }

    /// Smallest limit value of dimension `d` (others generous) for which the query completes.
    fn threshold(&self, d: usize, obs: &mut Obs) -> Result<usize, Failure> {
        if matches!(self.run(self.dim(d, 0, 0), obs)?, Out::Complete) {
            return Ok(0);
        }
        let (mut lo, mut hi) = (0usize, HI);
        while hi - lo > 1 {
            let mid = lo + (hi - lo) / 2;
            match self.run(self.dim(d, mid, 0), obs)? {
                Out::Complete => hi = mid,
                Out::Limit => lo = mid,
            }
        }
        Ok(hi)
    }
}

pub fn run(ctx: &mut RunCtx) {
    ctx.assume("soft_timeout_ms is 0 (disabled), 3.6e9 ms, or 1 ms; with 1 ms the wall clock decides which of the two allowed outcomes occurs (complete result or limit error), never whether the run passes; elapsed time is only checked against 10x the unlimited run + 5 s");
    ctx.assume("'stops within a bounded amount of extra work' is also read from the consumer's side: after the first limit error the result stream must end within 10x the unlimited run + 5 s of further pulling (one error item per remaining input row is tolerated, an endless stream is not)");
    ctx.assume("results are compared as multisets of rows; lists inside rows (collect) are compared in order because the input order of every generated pipeline is deterministic");
    let cases = ctx.tier.pick(700, 20_000);
    let test = |c: &Case, obs: &mut Obs| -> CaseResult {
        let dir = temp_dir();
        let db = open_db(&dir.join("db"))?;
        let g = graph_text(c);
        cy::write(&db, &g, &Params::new()).map_err(|e| Failure::new("setup-failed", format!("{g}: {e:?}")))?;
        let q = query_text(c);
        // complete result under generous limits
        let t0 = Instant::now();
        let base = cy::read(&db, &q, &Params::with_execute_options(mk(HI, HI, HI, 0)));
        let t_base = t0.elapsed();
        let r = match base {
            Ok((_, rows)) => rows,
            Err(QErr::Limit(_)) => {
                obs.class("baseline-too-big");
                return Ok(());
            }
            Err(QErr::Panic(loc, m)) => return Err(Failure::new(format!("panic@{loc}"), format!("baseline panicked: {m}\n  query: {q}"))),
            Err(e) => {
                obs.class("baseline-error");
                obs.count(&format!("baseline-error:{}", e.text().chars().take(60).collect::<String>()), 1);
                return Ok(());
            }
        };
        // determinism of the baseline itself (otherwise the metamorphic relation is void)
        match cy::read(&db, &q, &Params::with_execute_options(mk(usize::MAX, usize::MAX, usize::MAX, HUGE_MS))) {
            Ok((_, rows)) if cy::rows_same_multiset(&rows, &r) => {}
            other => {
                return Err(Failure::new("baseline-unstable", format!("two generous runs disagree\n  query: {q}\n  first: {} rows, second: {:?}", r.len(), other.map(|(_, x)| x.len()))));
            }
        }
        let env = Env { db: &db, q: &q, r: &r, t_base };
        let mut thr = [0usize; 3];
        for d in 0..3 {
            thr[d] = env.threshold(d, obs)?;
        }
        obs.class(match &c.src {
            Src::Range { .. } => "src:range",
            Src::Range2 { .. } => "src:range-x-range",
            Src::Cart { .. } => "src:cartesian",
            Src::VarLen { .. } => "src:varlen",
            Src::PathLen { .. } => "src:path",
            Src::ListComp { .. } => "src:list-comprehension",
        });
        for m in &c.mids {
            obs.class(match m {
                Mid::Filter { .. } => "mid:filter",
                Mid::Order { .. } => "mid:order-by",
                Mid::Distinct { .. } => "mid:distinct",
                Mid::CollectUnwind => "mid:collect-unwind",
                Mid::Call { .. } => "mid:call-subquery",
                Mid::OptMatch { .. } => "mid:optional-match-where",
                Mid::Fan { .. } => "mid:unwind-fan",
                Mid::SizeRange { .. } => "mid:range-in-predicate",
            });
        }
        obs.class(match &c.fin {
            Fin::Rows => "fin:rows",
            Fin::Agg => "fin:aggregate",
            Fin::Group { .. } => "fin:group-collect",
            Fin::Collect { .. } => "fin:collect",
            Fin::OrderLimit { .. } => "fin:order-skip-limit",
            Fin::Distinct { .. } => "fin:distinct",
            Fin::ListOut { .. } => "fin:list-projection",
            Fin::Union { .. } => "fin:union",
            Fin::CountDistinct { .. } => "fin:count-distinct",
        });
        obs.class_if(thr[0] > 0, "needs:intermediate-rows");
        obs.class_if(thr[1] > 0, "needs:collection-items");
        obs.class_if(thr[2] > 0, "needs:apply-rows");
        obs.class_if(r.len() >= 1000, "result>=1000-rows");
        let mut below = thr.iter().any(|t| *t > 0); // the bisection probed below the need
        for o in &c.opts {
            let mut l = [HI; 3];
            let mut any_below = false;
            for d in 0..3 {
                if let Some(delta) = o.d[d] {
                    l[d] = (thr[d] as i64 + delta as i64).clamp(0, HI as i64) as usize;
                    any_below |= l[d] < thr[d];
                }
            }
            below |= any_below;
            let out = env.run(mk(l[0], l[1], l[2], if o.huge_timeout { HUGE_MS } else { 0 }), obs)?;
            if matches!(out, Out::Limit) {
                env.drain(mk(l[0], l[1], l[2], 0), obs)?;
            }
            // a time limit of 1 ms: the clock decides whether it fires, the oracle accepts both
            // outcomes (complete result or limit error), and a consumer that keeps pulling after
            // the error must see the stream end
            if o.huge_timeout && r.len() >= 50 {
                obs.class("run-with-1ms-timeout");
                env.run(mk(l[0], l[1], l[2], 1), obs)?;
                env.drain(mk(l[0], l[1], l[2], 1), obs)?;
            }
            match out {
                Out::Complete => {
                    obs.class_if(any_below, "complete-although-below-single-threshold");
                }
                Out::Limit => {
                    if !any_below {
                        // every limit at or above its own threshold, yet the combination fails: allowed
                        // by the property (a clean error), reported as a class
                        obs.class("limit-error-with-all-limits-at-threshold");
                    }
                }
            }
        }
        obs.set_nontrivial(below);
        Ok(())
    };
    ctx.explore(
        "pipelines",
        "generated query pipelines (source: UNWIND range, range x range, cartesian product, variable-length expansion on a dense graph, list comprehension; 0-2 middle stages: filter, ORDER BY [LIMIT], DISTINCT, collect+UNWIND, CALL subquery, OPTIONAL MATCH + WHERE, fan-out, range inside a predicate; final: rows, aggregates, grouped collect, ORDER BY SKIP LIMIT, DISTINCT, list projection, UNION) on a generated dense graph; per case: complete result under generous limits, bisection of every limit dimension (each probe checked), then generated limit combinations around the thresholds with timeout 0, huge or (results of >= 50 rows) 1 ms; each run must be the complete result or a ResourceLimitExceeded error, and after a limit error the stream must end (within 10x the unlimited run + 5 s of pulling); non-trivial = at least one run had a limit below what the complete result needed (distinct = distinct (query, options) pairs that failed with the limit error)",
        cases,
        case,
        test,
    );
}
