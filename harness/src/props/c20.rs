//! C20 ORDER BY sorts and SKIP/LIMIT slice it.
//!
//! `UNWIND <rows> AS r WITH r[0] AS i, r[1] AS k0, ... RETURN ... ORDER BY k0 [DESC], k1 ...`
//! over generated key columns (1-3 keys, both directions) in six forms: ORDER BY on the
//! alias, on the pre-projection variable, on WITH, on order-preserving expressions of the
//! variables (CASE, list comprehension, list, head()), nodes and relationships of the scratch
//! graph ordered together with generated values, and stored properties `n.a, n.b` of the
//! `(:K)` nodes of the scratch graph. Values travel as literals or parameters.
//! Oracle (independent of the engine's comparator):
//!  (i)   the ordered output is a permutation of the input rows,
//!  (ii)  every adjacent pair of output rows is ordered under the reference orderability
//!        (exact Int/Float comparison, strings by code point, documented cross-kind rank,
//!        nulls last ascending / first descending),
//!  (iii) SKIP s LIMIT l returns min(l, n-s) rows, row j is in the tie group of row s+j of
//!        the full order and the slice is a sub-multiset of the input.
use super::exprlib::{self as xl, Binder};
use crate::cy::{self, CV, QErr};
use crate::engine::{CaseResult, Failure, Obs, RunCtx, idx};
use crate::pv::PV;
use proptest::prelude::*;
use serde::{Deserialize, Serialize};
use std::cmp::Ordering;

#[derive(Debug, Clone, Serialize, Deserialize)]
pub struct OrderCase {
    /// key tuples, one per row (all of the same length 1..=3)
    rows: Vec<Vec<PV>>,
    /// descending flag per key
    desc: Vec<bool>,
    skip: Option<u8>,
    limit: Option<u8>,
    lit: bool,
    /// 0 ORDER BY alias, 1 ORDER BY variable, 2 WITH .. ORDER BY, 3 graph values + first key column,
    /// 4 ORDER BY order-preserving expressions of the pre-projection variables,
    /// 5 ORDER BY stored properties n.a, n.b of the (:K) nodes selected by the first pick of each row
    form: u8,
    /// set by the generator when temporal-looking strings were rewritten (exclusion by construction)
    #[serde(default)]
    rewritten: bool,
    /// form 5: indexes into `exprlib::graph_pool()` (node ids), distinct
    #[serde(default)]
    ids: Vec<u16>,
}

fn theme_value() -> BoxedStrategy<PV> {
    prop_oneof![
        8 => xl::hard_value(),
        6 => xl::hard_num(),
        3 => xl::hard_string().prop_map(PV::Str),
        1 => crate::pv::boundary_i64().prop_map(PV::DateTime),
        1 => crate::pv::small_blob().prop_map(PV::Blob),
    ]
    .boxed()
}

fn case_strategy(max_rows: usize, excl_temporal: bool) -> impl Strategy<Value = OrderCase> {
    // a pool of values closed under a few "related number" steps, rows index into it
    let pool = (prop::collection::vec(theme_value(), 1..6), prop::collection::vec((any::<u16>(), any::<u8>(), -2i64..=2), 0..5)).prop_map(|(mut pool, rel)| {
        for (i, m, d) in rel {
            let base = pool[idx(i, pool.len())].clone();
            let r = match &base {
                PV::Int(_) | PV::Float(_) => xl::related_num(&base, m, d),
                PV::List(l) if !l.is_empty() => {
                    let mut l2 = l.clone();
                    let last = l2.len() - 1;
                    l2[last] = xl::related_num(&l2[last], m, d);
                    if m % 3 == 0 {
                        l2.push(PV::Int(d));
                    }
                    PV::List(l2)
                }
                PV::Str(s) => PV::Str(format!("{s}{}", if m % 2 == 0 { "a" } else { "" })),
                o => o.clone(),
            };
            pool.push(r);
        }
        pool
    });
    (
        pool,
        1usize..=3,
        prop::collection::vec(prop::collection::vec(any::<u16>(), 3), 0..=max_rows),
        prop::collection::vec(any::<bool>(), 3),
        prop::option::weighted(0.6, any::<u8>()),
        prop::option::weighted(0.6, any::<u8>()),
        any::<bool>(),
        prop_oneof![3 => Just(0u8), 3 => Just(1u8), 3 => Just(2u8), 2 => Just(3u8), 2 => Just(4u8), 3 => Just(5u8)],
    )
        .prop_map(move |(pool, nkeys, picks, desc, skip, limit, lit, form)| {
            let nkeys = if form == 3 { 1 } else if form == 5 { nkeys.min(2) } else { nkeys };
            if form == 5 {
                let gp = xl::graph_pool();
                let mut ids: Vec<u16> = Vec::new();
                let mut rewritten = false;
                for p in &picks {
                    let id = idx(p[0], gp.len());
                    let temporal = xl::has_temporal_like(&gp[id]) || (nkeys == 2 && xl::has_temporal_like(&gp[xl::graph_pool_b(id, gp.len())]));
                    if excl_temporal && temporal {
                        rewritten = true; // excluded by construction: node not selected
                        continue;
                    }
                    if !ids.contains(&(id as u16)) {
                        ids.push(id as u16);
                    }
                }
                return OrderCase { rows: Vec::new(), desc: desc[..nkeys].to_vec(), skip, limit, lit, form, rewritten, ids };
            }
            let mut rows: Vec<Vec<PV>> = picks.iter().map(|p| (0..nkeys).map(|k| pool[idx(p[k], pool.len())].clone()).collect()).collect();
            let mut rewritten = false;
            if excl_temporal {
                for r in rows.iter_mut() {
                    for v in r.iter_mut() {
                        rewritten |= xl::detemporalize(v);
                    }
                }
            }
            OrderCase { rows, desc: desc[..nkeys].to_vec(), skip, limit, lit, form, rewritten, ids: Vec::new() }
        })
}

fn cmp_keys(a: &[CV], b: &[CV], desc: &[bool]) -> Ordering {
    for (k, d) in desc.iter().enumerate() {
        if let (CV::Map(_), CV::Map(_)) = (&a[k], &b[k])
            && !a[k].same(&b[k])
        {
            // two different maps: their mutual order is unspecified, so is everything after them
            return Ordering::Equal;
        }
        let o = xl::ord_cmp(&a[k], &b[k]);
        if o != Ordering::Equal {
            return if *d { o.reverse() } else { o };
        }
    }
    Ordering::Equal
}

fn order_clause(c: &OrderCase, names: &[String]) -> String {
    let items: Vec<String> = names.iter().zip(&c.desc).enumerate().map(|(i, (n, d))| format!("{n}{}", if *d { " DESC" } else if i % 2 == 1 { " ASC" } else { "" })).collect();
    format!("ORDER BY {}", items.join(", "))
}

/// Builds the query text for the case; `window` adds SKIP/LIMIT.
/// SKIP / LIMIT actually used: the generated bytes folded into 0..=n+2 so that windows inside,
/// at the end of and beyond the result are all frequent.
fn window_of(c: &OrderCase) -> (Option<usize>, Option<usize>) {
    let n = if c.form == 5 { c.ids.len() } else { c.rows.len() + if c.form == 3 { 5 } else { 0 } };
    (c.skip.map(|s| s as usize % (n + 3)), c.limit.map(|l| l as usize % (n + 3)))
}

fn build(c: &OrderCase, bd: &mut Binder, window: bool) -> String {
    let nk = c.desc.len();
    let win = if window {
        let mut w = String::new();
        let (skip, limit) = window_of(c);
        if let Some(s) = skip {
            w.push_str(&format!(" SKIP {}", bd.bind(&PV::Int(s as i64))));
        }
        if let Some(l) = limit {
            w.push_str(&format!(" LIMIT {}", bd.bind(&PV::Int(l as i64))));
        }
        w
    } else {
        String::new()
    };
    if c.form == 3 {
        let vals = PV::List(c.rows.iter().map(|r| r[0].clone()).collect());
        let l = bd.bind(&vals);
        return format!(
            "MATCH (n:N) WITH collect(n) AS ns MATCH ()-[e:R]->() WITH ns, collect(e) AS es UNWIND (ns + es + {l}) AS k0 RETURN k0 AS c0 {}{win}",
            order_clause(c, &["k0".to_string()])
        );
    }
    if c.form == 5 {
        let ids = bd.bind(&PV::List(c.ids.iter().map(|i| PV::Int(*i as i64)).collect()));
        let props = ["n.a", "n.b"];
        let ret: Vec<String> = (0..nk).map(|k| format!("{} AS c{}", props[k], k + 1)).collect();
        return format!("MATCH (n:K) WHERE n.i IN {ids} RETURN n.i AS c0, {} {}{win}", ret.join(", "), order_clause(c, &props[..nk].iter().map(|s| s.to_string()).collect::<Vec<_>>()));
    }
    let rows = PV::List(c.rows.iter().enumerate().map(|(i, r)| PV::List(std::iter::once(PV::Int(i as i64)).chain(r.iter().cloned()).collect())).collect());
    let l = bd.bind(&rows);
    let with_items: Vec<String> = (0..nk).map(|k| format!("r[{}] AS k{k}", k + 1)).collect();
    let head = format!("UNWIND {l} AS r WITH r[0] AS i, {}", with_items.join(", "));
    let ret_items: Vec<String> = (0..nk).map(|k| format!("k{k} AS c{}", k + 1)).collect();
    let ret = format!("RETURN i AS c0, {}", ret_items.join(", "));
    match c.form {
        0 => format!("{head} {ret} {}{win}", order_clause(c, &(0..nk).map(|k| format!("c{}", k + 1)).collect::<Vec<_>>())),
        1 => format!("{head} {ret} {}{win}", order_clause(c, &(0..nk).map(|k| format!("k{k}")).collect::<Vec<_>>())),
        4 => {
            // expressions whose value orders exactly like the key itself
            let exprs: Vec<String> = (0..nk)
                .map(|k| match (k + c.rows.len()) % 4 {
                    0 => format!("CASE WHEN true THEN k{k} ELSE null END"),
                    1 => format!("[y IN [k{k}] | y]"),
                    2 => format!("[k{k}]"),
                    _ => format!("head([k{k}])"),
                })
                .collect();
            format!("{head} {ret} {}{win}", order_clause(c, &exprs))
        }
        _ => {
            let vars: Vec<String> = (0..nk).map(|k| format!("k{k}")).collect();
            format!("{head} WITH i, {} {}{win} {ret}", vars.join(", "), order_clause(c, &vars))
        }
    }
}

fn exec(q: &str, bd: &Binder) -> Result<Vec<Vec<CV>>, Failure> {
    match xl::run(q, bd) {
        Ok((_, rows)) => Ok(rows),
        Err(QErr::Panic(l, m)) => Err(Failure::new(format!("panic@{l}"), format!("panic at {l}: {m} in {q} params={:?}", bd.params))),
        Err(e) => Err(Failure::new("query-error", format!("{} in {q} params={:?}", e.text(), bd.params))),
    }
}

fn keys_of<'a>(c: &OrderCase, row: &'a [CV]) -> &'a [CV] {
    if c.form == 3 { &row[0..1] } else { &row[1..] }
}

fn pair_sig(a: &CV, b: &CV) -> String {
    let (x, y) = (xl::kind(a), xl::kind(b));
    let mut s = if x <= y { format!("{x}-{y}") } else { format!("{y}-{x}") };
    if let (CV::Str(p), CV::Str(q)) = (a, b)
        && (xl::temporal_like(p) || xl::temporal_like(q))
    {
        s.push_str(":temporal-looking");
    }
    s
}

fn check(c: &OrderCase, obs: &mut Obs) -> CaseResult {
    if c.rewritten {
        obs.excluded("temporal-looking strings rewritten (open finding unsorted:string-string:temporal-looking)");
    }
    let nk = c.desc.len();
    // ---- expected multiset of rows
    let mut input: Vec<Vec<CV>> = Vec::new();
    if c.form == 3 {
        // graph part is taken from the engine itself (unordered query), values from the case
        let mut bd = Binder::new(false);
        let g = exec("MATCH (n:N) WITH collect(n) AS ns MATCH ()-[e:R]->() WITH ns, collect(e) AS es UNWIND (ns + es) AS k0 RETURN k0 AS c0", &mut bd)?;
        if g.len() != 5 {
            fail!("graph-seed", "scratch graph should give 3 nodes + 2 relationships, got {} rows", g.len());
        }
        input.extend(g);
        for r in &c.rows {
            input.push(vec![CV::from_pv(&r[0])]);
        }
    } else if c.form == 5 {
        let gp = xl::graph_pool();
        for id in &c.ids {
            let id = *id as usize;
            let mut r = vec![CV::Int(id as i64), CV::from_pv(&gp[id])];
            if nk == 2 {
                r.push(CV::from_pv(&gp[xl::graph_pool_b(id, gp.len())]));
            }
            input.push(r);
        }
    } else {
        for (i, r) in c.rows.iter().enumerate() {
            input.push(std::iter::once(CV::Int(i as i64)).chain(r.iter().map(CV::from_pv)).collect());
        }
    }
    // ---- classification
    let mut distinct: Vec<&CV> = Vec::new();
    let mut kinds: Vec<&str> = Vec::new();
    let cv_boundary = |v: &CV| match v {
        CV::Int(i) => i.unsigned_abs() >= (1u64 << 53) - 2,
        CV::Float(b) => {
            let f = f64::from_bits(*b);
            !f.is_finite() || f.abs() >= 9007199254740990.0 || (f == 0.0 && f.is_sign_negative())
        }
        _ => false,
    };
    let all_keys: Vec<&CV> = input.iter().flat_map(|r| keys_of(c, r).iter()).collect();
    let boundary = all_keys.iter().filter(|v| xl::contains(v, &cv_boundary)).count();
    for r in &input {
        let k = &keys_of(c, r)[0];
        if *k != CV::Null && !distinct.iter().any(|d| xl::ord_cmp(d, k) == Ordering::Equal && xl::kind(d) == xl::kind(k)) {
            distinct.push(k);
            if !kinds.contains(&xl::kind(k)) {
                kinds.push(xl::kind(k));
            }
        }
    }
    obs.set_nontrivial((distinct.len() >= 2 && kinds.len() >= 2) || boundary >= 2);
    obs.class(match c.form {
        0 => "form:order-by-alias",
        1 => "form:order-by-variable",
        2 => "form:with-order-by",
        4 => "form:order-by-expression",
        5 => "form:stored-properties",
        _ => "form:graph-values",
    });
    obs.class(if c.lit { "literal" } else { "parameter" });
    obs.class_if(boundary >= 2, "boundary-pair");
    obs.class_if(kinds.len() >= 3, "kinds>=3");
    obs.class_if(nk >= 2, "multi-key");
    obs.class_if(c.desc.iter().any(|d| *d), "desc");
    obs.class_if(all_keys.iter().any(|v| **v == CV::Null), "null-key");
    obs.class_if(all_keys.iter().any(|v| xl::contains(v, &|x| matches!(x, CV::Str(s) if xl::temporal_like(s)))), "temporal-looking-string");
    obs.class_if(all_keys.iter().any(|v| xl::contains(v, &|x| matches!(x, CV::Float(b) if f64::from_bits(*b).is_nan()))), "nan");
    obs.class_if(all_keys.iter().any(|v| matches!(v, CV::List(_))), "list-key");
    obs.class_if(all_keys.iter().any(|v| matches!(v, CV::Map(_))), "map-key");
    obs.class_if(kinds.contains(&"int") && kinds.contains(&"float"), "int-and-float");

    // ---- full order
    let mut bd = Binder::new(c.lit);
    let q = build(c, &mut bd, false);
    let full = exec(&q, &bd)?;
    if !cy::rows_same_multiset(&full, &input) {
        fail!("not-a-permutation", "ordered output is not a permutation of the input rows\n query: {q}\n params: {:?}\n input: {}\n output: {}", bd.params, input.iter().map(|r| xl::show_row(r)).collect::<Vec<_>>().join(" "), full.iter().map(|r| xl::show_row(r)).collect::<Vec<_>>().join(" "));
    }
    for w in full.windows(2) {
        let (a, b) = (keys_of(c, &w[0]), keys_of(c, &w[1]));
        if cmp_keys(a, b, &c.desc) == Ordering::Greater {
            // find the deciding key for the signature
            let mut sig = String::new();
            for k in 0..nk {
                if xl::ord_cmp(&a[k], &b[k]) != Ordering::Equal {
                    sig = pair_sig(&a[k], &b[k]);
                    break;
                }
            }
            fail!(format!("unsorted:{sig}"), "adjacent rows out of order (desc={:?}): {} before {}\n query: {q}\n params: {:?}\n output: {}", c.desc, xl::show_row(&w[0]), xl::show_row(&w[1]), bd.params, full.iter().map(|r| xl::show_row(r)).collect::<Vec<_>>().join(" "));
        }
    }
    // ---- window
    if c.skip.is_some() || c.limit.is_some() {
        obs.sub_eval(None);
        let mut bd = Binder::new(c.lit);
        let q = build(c, &mut bd, true);
        let got = exec(&q, &bd)?;
        let n = full.len();
        let (skip, limit) = window_of(c);
        let s = skip.unwrap_or(0);
        let want_len = limit.unwrap_or(usize::MAX).min(n.saturating_sub(s));
        obs.class_if(s >= n, "skip-beyond-end");
        obs.class_if(limit == Some(0), "limit-0");
        obs.class_if(want_len > 0 && want_len < n, "proper-slice");
        let dump = || format!("\n query: {q}\n params: {:?}\n full: {}\n slice: {}", bd.params, full.iter().map(|r| xl::show_row(r)).collect::<Vec<_>>().join(" "), got.iter().map(|r| xl::show_row(r)).collect::<Vec<_>>().join(" "));
        if got.len() != want_len {
            fail!("slice-length", "SKIP {:?} LIMIT {:?} over {n} rows returned {} rows, expected {want_len}{}", skip, limit, got.len(), dump());
        }
        for (j, r) in got.iter().enumerate() {
            if cmp_keys(keys_of(c, r), keys_of(c, &full[s + j]), &c.desc) != Ordering::Equal {
                fail!("slice-position", "row {j} of the slice is not in the tie group of row {} of the full order{}", s + j, dump());
            }
        }
        // sub-multiset of the full output
        let mut pool: Vec<Option<&Vec<CV>>> = full.iter().map(Some).collect();
        for r in &got {
            let hit = pool.iter().position(|p| p.is_some_and(|p| p.len() == r.len() && p.iter().zip(r).all(|(x, y)| x.same(y))));
            match hit {
                Some(h) => pool[h] = None,
                None => fail!("slice-foreign-row", "slice row {} does not occur (often enough) in the full output{}", xl::show_row(r), dump()),
            }
        }
    }
    Ok(())
}

pub fn run(ctx: &mut RunCtx) {
    ctx.assume("orderability: MAP < NODE < RELATIONSHIP < LIST < PATH < STRING < BOOLEAN < NUMBER < (datetime < bytes, engine-specific scalar kinds) < null in ascending order; numbers by exact value with NaN above every number; strings by code point; lists element-wise then by length; nodes by id; two maps are not ordered by the reference (one tie group); DESC is the exact reverse (nulls first)");
    ctx.assume("tie order is unspecified: SKIP/LIMIT results are compared up to permutation inside tie groups");
    let excl_temporal = ctx.has_open("unsorted:string-string:temporal-looking");
    let n = ctx.tier.pick(360_000, 12_000_000);
    ctx.explore(
        "order-by",
        "0-12 rows of 1-3 keys drawn from a pool of hard values (integers around 2^53 and 2^63 next to floats of the same magnitude, NaN, +-0.0, +-inf, nulls, temporal-looking and plain strings, lists, maps, datetime/bytes parameters, nodes and relationships) closed under type change/+-1/ulp steps; ASC/DESC mix; SKIP/LIMIT in 0..=n+2 incl. 0 and beyond the length; three syntactic forms; literals or parameters. Non-trivial = >=2 distinct non-null first keys of >=2 kinds, or >=2 boundary numbers among the keys",
        n,
        move || case_strategy(12, excl_temporal),
        check,
    );
}
